#!/bin/bash
# Runs the repository's own test suite (hooks off) and prints failing tests / a one-line summary.
. /verif/env.sh
cd "${VERIF_REPO:-/repo}"
out=$(mktemp)
find . -name go.mod -not -path './.git/*' | while read m; do
  d=$(dirname "$m")
  (cd "$d" && go test -vet=off -count=1 -timeout 25m ./... 2>&1)
done > "$out"
grep -E "^(--- FAIL|FAIL|panic:)" "$out" | head -40
echo "packages ok: $(grep -c '^ok' "$out")  failed: $(grep -c '^FAIL' "$out")"
git -C "${VERIF_REPO:-/repo}" status --short | head
rm -f "$out"
