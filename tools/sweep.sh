#!/bin/bash
# tools/sweep.sh <tier> <first-seed> <last-seed> [props...]: runs checks over a seed range and prints every run
# that was not clean (exit != 0, VIOLATION or INCONCLUSIVE line).
cd /verif
tier=$1; a=$2; b=$3; shift 3
props=${@:-C01 C02 C03 C04 C05 C06 C07 C08 C09 C10 C11 C12 C13 C14 C15 C16 C17 C18 C19 C20}
for p in $props; do
  for s in $(seq $a $b); do
    out=$(VERIF_SEED=$s VERIF_OUT_DIR=/tmp/sweep-out ./check $p $tier 2>&1); rc=$?
    if [ $rc -ne 0 ] || echo "$out" | grep -q "^VIOLATION\|^INCONCLUSIVE"; then
      echo "NOT-CLEAN $p seed=$s tier=$tier rc=$rc"; echo "$out" | grep -A1 "^VIOLATION\|^INCONCLUSIVE" | cut -c1-600
    fi
  done
  echo "swept $p $tier $a..$b"
done
rm -rf /tmp/sweep-out
