#!/usr/bin/env python3
"""Regenerates /verif/MANIFEST.json from the table below (one entry per implemented check)."""
import json

TECH = "runtime monitoring"
checks = {
 "C01": ("exploration",
  "Executes seeded write histories through the real public API (all element types, ranks 1-4, contiguous/chunked/filtered layouts, superblock 0/2/3, extreme data), reopens the file and compares path, kind, shape, datatype and every typed read with the values the harness wrote; reads without meaning for a type must error.",
  "Observes only the executions the generator produces (extents <= 64Ki elements); expected values use Go's own float conversions for the documented widening.",
  TECH + ": reference-model oracle over write/close/reopen/read executions of the real library"),
 "C02": ("exploration",
  "Steps a name->value map model together with real WriteAttribute/DeleteAttribute histories (up to 300 ops, crossing compact<->dense storage, size-changing overwrites, reopen sessions, hash-colliding names) and compares the reopened object's attributes (names, datatype, shape, raw bytes, ReadValue) with the model.",
  "A refused write is treated as a capacity limit unless the object is nearly empty; ReadValue compared only for kinds it documents.",
  TECH + ": executable map model stepped with call outcomes, checked after reopen"),
 "C03": ("exploration",
  "Steps a tree model with seeded creation sequences (groups, datasets, hard/soft/external links, dense groups; one fifth invalid requests; capacity-filling histories) and decides per request must-succeed / must-fail / capacity edge; after reopen the walked tree is compared graph-wise with the model (kinds, member names per group, every object reachable, no duplicate names, hard links at the same address).",
  "Documented capacity limits make a refusal legitimate; creation under a parent reached through a link is not judged; subtrees below cyclic links are not judged.",
  TECH + ": executable tree model stepped with call outcomes, checked after reopen"),
 "C04": ("exploration",
  "Every history runs once under a byte-ownership monitor (file snapshot before/after each call, changed bytes attributed through the allocator block list) and once per prefix into a fresh file; the dump after prefix k restricted to objects op_k does not target must equal the dump after prefix k-1. All 2688 orders of the 8-operation core set are enumerated in the thorough tier.",
  "An operation may change its target, the parent group it links into, the link target and hard-link aliases.",
  TECH + ": differential prefix runs + byte-diff ownership monitor over real executions"),
 "C05": ("exploration",
  "Hands every file produced by seeded write histories to an independent decoder written from the HDF5 specification: strict decode (each deviation = issue key), tolerant decode + extent invariants (inside file, below EOF address, disjoint), and comparison of decoded tree/shapes/types/raw bytes/attribute bytes with what was written.",
  "The decoder is the stand-in for the specification (validated on the reference corpus against h5dump output); conformance is decided only for structures it visits.",
  TECH + ": independent spec decoder as observer of the bytes the library writes"),
 "C06": ("exploration",
  "Opens every file of the bundled reference corpus with the library reader, dumps everything it offers, and compares what was returned without error with (1) the h5dump DDL files shipped with the corpus (members incl. links, kinds, shapes, datatypes, values, strings, compound members, attributes) and (2) the independent decoder for every numeric dataset. The corpus is enumerated completely.",
  "h5dump float output is compared at its printed precision; reader errors are accepted answers; a missing member is judged only under a parent the reader listed.",
  TECH + ": differential oracle (reference tool output + independent decoder) over reader executions on the whole corpus"),
 "C07": ("fault_enumeration",
  "Enumerates single-field corruptions (every structural field an independent decoder maps in a seed file x a boundary value set incl. self references) over the bundled corpus up to 256 KiB and 24 library-written files, plus seeded random mutations (bit flips, byte sets, splices, truncation, random bodies, zeroed/duplicated ranges); every input is opened and read completely through the public reader (all read APIs incl. selections and the chunk iterator) in processes under a 4 GiB address-space limit and a per-input CPU budget. Observed: recovered panics, process deaths (out of memory, stack overflow, fatal errors) classified from the runtime report, CPU overruns with goroutine dump, cumulative allocation beyond what file size and the intact seed explain (with the allocating site from the heap profile), and a canary file read after every batch.",
  "'All byte strings' is out of reach: the claim covers the listed mutation classes on the listed seeds; quick tier samples 200 field/value pairs per seed file.",
  TECH + ": fault enumeration over real reader executions under rlimits, crash classification by an external driver"),
 "C08": ("exploration",
  "Runs every ordering of the writer's filters over payloads from 0 B to 1 MiB: Apply/Remove identity, pipeline-message encode/parse identity, the reader's decoder on the writer's bytes, single-byte corruption of Fletcher-32 protected chunks on both decoders, plus filtered datasets end to end through the public API.",
  "Fletcher-32 blind spot (0x0000 vs 0xFFFF words) excluded; Apply errors accepted only for shuffle length mismatches.",
  TECH + ": identity and corruption-detection oracles over real filter executions"),
 "C09": ("exploration",
  "Enumerates hyperslab selections (start/count/stride/block per axis, ranks 1-3, contiguous/compact/chunked/filtered, chunk shapes that do not divide the extents) and ReadSlice calls against datasets with position-encoding values, computes the expected elements from the coordinates alone and compares order and values; invalid selections (out of range, zero counts, overflowing arithmetic, block>stride) must be refused; the chunk iterator must tile the dataset exactly once.",
  "Selections are bounded by the small extents (<= 12 per axis) the generator uses; float64 is the reader's documented result type.",
  TECH + ": reference-model oracle (coordinate arithmetic) over real selection reads"),
 "C12": ("exploration",
  "Writes 1-3 variable-length datasets per file (vlen strings and six sequence base types, contiguous/chunked, up to 10^4 elements, element lengths 0, small, around the 4 KiB collection capacity, >64 KiB, with NUL and multi-byte bytes, interleaved writers) and, after reopen, compares class/base type and every element decoded by an independent decoder through the global heap with the written bytes; every global heap collection reached is checked for declared size, object sizes, alignment, free-space object and overlap; values returned by the library's own readers must equal the written ones.",
  "The library has no reader for variable-length datasets (its error is an accepted answer), so the element oracle is the independent decoder.",
  TECH + ": independent decoder as observer of vlen write executions + structural invariant checks of every collection"),
 "C13": ("exploration",
  "Creates resizable chunked datasets (rank 1-3, dividing and non-dividing chunks, fixed/unlimited maxima, plain or filtered, superblock 0/2/3), applies 1-10 grow/shrink/rewrite/beyond-maximum steps in four patterns while an N-d array model is resized with the same calls; acceptance of every step is compared with the declared maximum and, after Close and reopen, shape and every element with the model (retained, zero-filled, nothing resurrected).",
  "Written values are never zero so a zero always means unwritten; extents <= 40 per axis.",
  TECH + ": executable array model stepped with call outcomes, checked after reopen"),
 "C10": ("exploration",
  "Takes base files written by the library (random histories, superblock 0/2/3, compact and dense attributes, chunked data, hard links) and copied files of the reference corpus, runs 1-6 OpenForWrite/modify/Close sessions (OpenDataset incl. two handles on one object, attribute upsert/delete, data overwrite, CreateDataset/CreateGroup) and compares the reader's dump after each session with the dump before it patched with the session's successful operations; refused operations must leave no trace; sessions without modification must leave the file byte-identical (sha256).",
  "A refused operation is an accepted answer (support is documented as partial); reference files above 1 MiB and datasets above 2^20 elements are not read.",
  TECH + ": differential oracle (previous dump + model patch) and byte-identity monitor over real reopen sessions"),
 "C11": ("exploration",
  "For 15 encoder/decoder pairs, generates well-formed values with boundary cases, encodes twice (determinism), decodes and compares every field, re-encodes where possible.",
  "Array/enum properties are read back by a direct reading of the documented layout (no library decoder exists); documented normalisations applied.",
  TECH + ": round-trip oracle over real encoder/decoder executions"),
 "C14": ("exploration",
  "Steps a map model with insert/update/delete/search/write+load histories on the real WritableBTreeV2 in all rebalancing modes up to and beyond capacity and checks records, order, header counts, searches and persistence after every operation; compares the name hash with an independent lookup3 on all strings of length 0-2 and random strings of every length 0-64.",
  "Re-inserting a present name is outside the histories; the reference lookup3 is checked against published vectors at run time.",
  TECH + ": executable map model + independent hash reference over real executions"),
 "C15": ("exploration",
  "Steps a map model (id -> bytes) with insert/overwrite/delete/write+load histories on the real WritableFractalHeap around the block capacity; after every operation all live ids are read back, ids checked for distinctness/disjointness, header counters compared, and persisted heaps are re-read through the read-only and the writable loader.",
  "Free-space judged by the writer's own accounting rule; multi-block heaps are a recorded open finding.",
  TECH + ": executable map model over real heap executions"),
 "C16": ("exploration",
  "Twin runs: a history with 1-18 calls chosen to fail (catalogue of 40 kinds: invalid names, missing parents, bad shapes/chunks/max-dims/options, wrong-length or wrong-type writes, bad resizes, unsupported attribute values, over-long names, duplicate or dangling links, calls beyond group-entry / name-heap capacity, calls on the closed writer and its handles, repeated Close) against the same history without them; compares every later call's outcome and the reopened content through the library reader and an independent decoder (tree, reference counts, header message lists, raw data, attribute bytes); any panic is a violation.",
  "Inserted calls that succeed are moved into the reference run (not alarms); orphaned allocations are not content.",
  TECH + ": differential twin runs over real executions, two independent observers"),
 "C19": ("exploration",
  "Part B: drives ConfigSelector / SmartRebalancer.Evaluate with scripted and rule-based decisions under an injected clock and checks every returned decision against a reference gate model (allowed list, confidence fallback, confidence range, stability period). Part A: twin runs of attribute histories under rebalancing configurations vs the default configuration, dumps compared.",
  "ModeNone always permitted; stability judged on non-decreasing clocks.",
  TECH + ": reference gate model / differential twin runs over real executions"),
 "C20": ("exploration",
  "Runs the real converters on every code, on the float32 neighbourhood of every representable value and midpoint and on a stratified sample (quick) or on all 2^32 float32 bit patterns per format (thorough, exhaustive) and compares each result with an exact reference (value from the format definition, nearest-even by exact distances), plus a monotonicity sweep.",
  "Trusts float64 exactness for these formats and the documented/pinned special-code convention of the FP8 formats; beyond the largest finite value saturation or Inf are both accepted.",
  TECH + ": reference-model oracle over executions of the real converters (exhaustive input enumeration in the thorough tier)"),
}

props = [json.loads(l) for l in open('/verif/properties.jsonl')]
ids = [p['id'] for p in props]
out_checks = []
for pid in ids:
    if pid not in checks:
        continue
    level, text, note, tech = checks[pid]
    out_checks.append({
        "property_id": pid,
        "quick_cmd": f"./check {pid} quick",
        "thorough_cmd": f"./check {pid} thorough",
        "evidence_file": f"/verif/evidence/{pid}.json",
        "replay_cmd_template": f"./check {pid} --replay {{path}}",
        "engine": "vcheck",
        "level_claimed": {"category": level, "text": text, "design_ref": f"DESIGN.md §3 {pid}"},
        "level_note": note,
        "technique": tech,
    })
na = [{"property_id": pid, "reason": "monitor not built yet (work in progress; DESIGN.md §8 gives the order) — runtime monitoring applies, nothing is claimed until the check exists"} for pid in ids if pid not in checks]
m = {
 "version": 1,
 "setup_cmd": "./setup.sh",
 "hooks": {
  "guard": "verif",
  "enable": "cd /repo && go1.26 build -modfile=/verif/build/go.verif.mod -overlay=/verif/build/overlay.json -tags verif ./internal/zzverif/cmd/vcheck (done by /verif/build.sh: harness packages and read-only accessor shims live in /verif/harness and are overlaid into the module at build time; nothing of it is committed to /repo)",
  "baseline_off_cmd": "cd /repo && GOPROXY=off go test -json -vet=off -count=1 -timeout 25m ./...",
  "source_commits": [],
  "add_only": True,
 },
 "engines": [{"name": "vcheck", "path": "/verif/harness", "serves_properties": [c["property_id"] for c in out_checks],
              "kind_free_text": "Go harness compiled into the module through a build overlay; driver + isolated shard processes; reference-model, differential and round-trip monitors over executions of the real code"}],
 "checks": out_checks,
 "not_applicable": na,
 "notes": "See DESIGN.md. known_findings.jsonl lists open findings (each suppresses only its exact classifier key) and fixed ones (which suppress nothing). selftest/run.sh re-runs a check against a scratch worktree with one fix: commit reverted or a seeded patch applied.",
}
json.dump(m, open('/verif/MANIFEST.json', 'w'), indent=1)
print("checks:", [c["property_id"] for c in out_checks], "na:", len(na))
