# Sourced by check/build.sh/setup.sh: the complete environment, nothing inherited is relied on.
export PATH="/opt/veriftools/go1.26.8/bin:/usr/local/go/bin:/usr/local/sbin:/usr/local/bin:/usr/sbin:/usr/bin:/sbin:/bin:$PATH"
export HOME="${HOME:-/root}"
export GOTOOLCHAIN=local
export GOFLAGS=-mod=mod
export GOPROXY=off
export GOSUMDB=off
export GONOSUMDB='*'
export GONOSUMCHECK=1
export GOCACHE="$VERIF_DIR/.cache/go-build"
export GOMODCACHE="${GOMODCACHE:-/root/go/pkg/mod}"
export CGO_ENABLED="${CGO_ENABLED:-1}"
VERIF_GO="${VERIF_GO:-go1.26}"
# Per-repo build directory so that VERIF_REPO=<scratch copy> never mixes with /repo builds.
verif_bin_suffix() {
  if [ "$VERIF_REPO" = "/repo" ]; then echo ""; else echo "-$(echo "$VERIF_REPO" | md5sum | cut -c1-8)"; fi
}
