//go:build verif

package hdf5

import (
	"sort"

	"github.com/scigolib/hdf5/internal/core"
	"github.com/scigolib/hdf5/internal/writer"
)

// Read-only accessors for the verification harness (compiled only with -tags verif
// through the build overlay; nothing here exists in the repository).

// VerifRegistryTypes lists the Datatype constants registered for writing.
func VerifRegistryTypes() []Datatype {
	var out []Datatype
	for k := range datatypeRegistry {
		out = append(out, k)
	}
	sort.Slice(out, func(i, j int) bool { return out[i] < out[j] })
	return out
}

// VerifRegistryEncode runs a registered handler: GetInfo with the given options, then
// EncodeDatatypeMessage. It returns the message bytes and the class/size the handler announced.
func VerifRegistryEncode(dt Datatype, opts ...DatasetOption) (msg []byte, class core.DatatypeClass, size uint32, err error) {
	h, ok := datatypeRegistry[dt]
	if !ok {
		return nil, 0, 0, errUnknownType
	}
	cfg := &datasetConfig{}
	for _, o := range opts {
		o(cfg)
	}
	info, err := h.GetInfo(cfg)
	if err != nil {
		return nil, 0, 0, err
	}
	msg, err = h.EncodeDatatypeMessage(info)
	return msg, info.class, info.size, err
}

type verifErr string

func (e verifErr) Error() string { return string(e) }

const errUnknownType = verifErr("verif: datatype not in registry")

// VerifAllocBlocks returns the allocator's block list (address, size) of a FileWriter.
func (fw *FileWriter) VerifAllocBlocks() [][2]uint64 {
	if fw == nil || fw.writer == nil {
		return nil
	}
	var out [][2]uint64
	for _, b := range fw.writer.Allocator().Blocks() {
		out = append(out, [2]uint64{b.Offset, b.Size})
	}
	return out
}

// VerifEOF returns the allocator's end-of-file address.
func (fw *FileWriter) VerifEOF() uint64 {
	if fw == nil || fw.writer == nil {
		return 0
	}
	return fw.writer.EndOfFile()
}

var _ = writer.ModeTruncate
