//go:build verif

package hdf5

// VerifGroupIdentity returns a value that is equal for two group objects exactly when they
// are the same group in the file (symbol table B-tree address, else object header address).
func VerifGroupIdentity(g *Group) uint64 {
	if g == nil {
		return 0
	}
	if g.symbolTable != nil {
		return g.symbolTable.BTreeAddress
	}
	return g.address
}
