//go:build verif

package structures

// Read-only accessors for the verification harness (compiled only with -tags verif
// through the build overlay; nothing here exists in the repository).

// VerifJenkinsHash exposes the name hash used by the B-tree v2 name index.
func VerifJenkinsHash(name string) uint32 { return jenkinsHash(name) }

// VerifBTreeCounts returns the header's record counts, depth and the leaf's record count.
func (bt *WritableBTreeV2) VerifBTreeCounts() (numRecordsRoot uint16, totalRecords uint64, depth uint16, leafRecords int) {
	return bt.header.NumRecordsRoot, bt.header.TotalRecords, bt.header.Depth, len(bt.leaf.Records)
}

// VerifMaxRecords exposes the single-leaf capacity.
func (bt *WritableBTreeV2) VerifMaxRecords() int { return bt.calculateMaxRecords() }

// VerifLoadedAddrs returns the addresses remembered by LoadFromFile.
func (bt *WritableBTreeV2) VerifLoadedAddrs() (header, leaf uint64) {
	return bt.loadedHeaderAddress, bt.loadedLeafAddress
}
