// Package memio provides an in-memory file with a bump allocator and deterministic fault
// injection, implementing the interfaces the library's internal packages accept
// (io.ReaderAt, io.WriterAt, structures.Writer, structures.Allocator).
package memio

import (
	"errors"
	"io"
	"sync"
)

var ErrInjected = errors.New("verif: injected I/O fault")

type Block struct{ Addr, Size uint64 }

type File struct {
	mu     sync.Mutex
	Data   []byte
	Next   uint64 // next allocation address
	Blocks []Block

	// fault injection: the k-th (1-based) read / write call fails; 0 = never
	FailReadAt  int
	FailWriteAt int
	ShortReadAt int // the k-th read returns half of the bytes with io.ErrUnexpectedEOF... as (n, io.EOF)
	Reads       int
	Writes      int
	ReadLog     []Block
	WriteLog    []Block
	LogIO       bool
}

func New(start uint64) *File { return &File{Next: start} }

func (f *File) Allocate(size uint64) (uint64, error) {
	f.mu.Lock()
	defer f.mu.Unlock()
	a := f.Next
	f.Next += size
	f.Blocks = append(f.Blocks, Block{a, size})
	return a, nil
}

func (f *File) grow(n uint64) {
	if uint64(len(f.Data)) < n {
		nd := make([]byte, n)
		copy(nd, f.Data)
		f.Data = nd
	}
}

func (f *File) WriteAtAddress(data []byte, address uint64) error {
	_, err := f.WriteAt(data, int64(address))
	return err
}

func (f *File) WriteAt(p []byte, off int64) (int, error) {
	f.mu.Lock()
	defer f.mu.Unlock()
	f.Writes++
	if f.LogIO {
		f.WriteLog = append(f.WriteLog, Block{uint64(off), uint64(len(p))})
	}
	if f.FailWriteAt > 0 && f.Writes == f.FailWriteAt {
		return 0, ErrInjected
	}
	if off < 0 {
		return 0, errors.New("memio: negative offset")
	}
	f.grow(uint64(off) + uint64(len(p)))
	copy(f.Data[off:], p)
	return len(p), nil
}

func (f *File) ReadAt(p []byte, off int64) (int, error) {
	f.mu.Lock()
	defer f.mu.Unlock()
	f.Reads++
	if f.LogIO {
		f.ReadLog = append(f.ReadLog, Block{uint64(off), uint64(len(p))})
	}
	if f.FailReadAt > 0 && f.Reads == f.FailReadAt {
		return 0, ErrInjected
	}
	if off < 0 || off >= int64(len(f.Data)) {
		return 0, io.EOF
	}
	n := copy(p, f.Data[off:])
	if f.ShortReadAt > 0 && f.Reads == f.ShortReadAt && n > 1 {
		n /= 2
		for i := n; i < len(p); i++ {
			p[i] = 0xAA // garbage tail: a caller that ignores n sees it
		}
		return n, io.ErrUnexpectedEOF
	}
	if n < len(p) {
		return n, io.EOF
	}
	return n, nil
}

func (f *File) Size() int64 { f.mu.Lock(); defer f.mu.Unlock(); return int64(len(f.Data)) }

// EndOfFile mirrors writer.FileWriter for code that asks the writer for the EOF.
func (f *File) EndOfFile() uint64 { f.mu.Lock(); defer f.mu.Unlock(); return f.Next }

// Snapshot returns a copy of the bytes.
func (f *File) Snapshot() []byte {
	f.mu.Lock()
	defer f.mu.Unlock()
	return append([]byte(nil), f.Data...)
}

// Clone returns an independent copy without fault settings.
func (f *File) Clone() *File {
	f.mu.Lock()
	defer f.mu.Unlock()
	return &File{Data: append([]byte(nil), f.Data...), Next: f.Next, Blocks: append([]Block(nil), f.Blocks...)}
}
