package ddl

import (
	"regexp"
	"strconv"
	"strings"
)

// Type is a parsed h5dump datatype expression.
type Type struct {
	// Class is one of "integer", "float", "string", "compound", "array",
	// "enum", "vlen", "opaque", "reference", "bitfield", "time", "complex",
	// "named" (reference to a committed datatype, see Path) or "unknown".
	Class string
	// Raw is the original text of the expression (trimmed).
	Raw string

	Size      int    // bytes; 0 when unknown or variable
	Signed    bool   // integer only
	Order     string // "LE", "BE", "VAX" or ""
	Precision int    // bits; only set when h5dump printed an explicit precision
	Offset    int    // bit offset; only set when printed

	// string
	Variable bool
	StrPad   string // e.g. H5T_STR_NULLTERM
	CSet     string // e.g. H5T_CSET_ASCII
	CType    string // e.g. H5T_C_S1

	Members []Member // compound
	Dims    []uint64 // array
	Base    *Type    // array, vlen, enum, complex

	EnumNames  []string // as printed between the quotes
	EnumValues []string // as printed

	Tag     string // opaque tag
	Path    string // Class "named": the path as printed
	RefType string // reference: H5T_STD_REF_OBJECT / H5T_STD_REF_DSETREG / H5T_STD_REF / ""
}

// Member is one field of a compound type.
type Member struct {
	Name string
	Type *Type
}

const maxDepth = 500

var (
	reStd     = regexp.MustCompile(`^H5T_STD_([IUB])(\d+)(LE|BE)$`)
	reIEEE    = regexp.MustCompile(`^H5T_IEEE_F(\d+)(LE|BE)$`)
	reBF16    = regexp.MustCompile(`^H5T_FLOAT_BFLOAT16(LE|BE)$`)
	reFloatX  = regexp.MustCompile(`^H5T_FLOAT_F(\d+)[A-Z0-9]*?(LE|BE)$`)
	reComplex = regexp.MustCompile(`^H5T_COMPLEX_IEEE_F(\d+)(LE|BE)$`)
	reLegacy  = regexp.MustCompile(`^H5T_(INTEL|ALPHA|MIPS)_([IUBF])(\d+)$`)
	reVax     = regexp.MustCompile(`^H5T_VAX_F(\d+)$`)
	reUnix    = regexp.MustCompile(`^H5T_UNIX_D(\d+)(LE|BE)$`)
	reBits    = regexp.MustCompile(`(\d+)-bit`)
	reBytes   = regexp.MustCompile(`^(\d+)-byte`)
)

type nativeInfo struct {
	class  string
	size   int
	signed bool
}

var nativeTypes = map[string]nativeInfo{
	"CHAR": {"integer", 1, true}, "SCHAR": {"integer", 1, true}, "UCHAR": {"integer", 1, false},
	"SHORT": {"integer", 2, true}, "USHORT": {"integer", 2, false},
	"INT": {"integer", 4, true}, "UINT": {"integer", 4, false},
	"LONG": {"integer", 8, true}, "ULONG": {"integer", 8, false},
	"LLONG": {"integer", 8, true}, "ULLONG": {"integer", 8, false},
	"FLOAT16": {"float", 2, false}, "FLOAT": {"float", 4, false}, "DOUBLE": {"float", 8, false}, "LDOUBLE": {"float", 16, false},
	"HSIZE": {"integer", 8, false}, "HSSIZE": {"integer", 8, true}, "HERR": {"integer", 4, true}, "HBOOL": {"integer", 1, false},
	"INT8": {"integer", 1, true}, "UINT8": {"integer", 1, false}, "INT16": {"integer", 2, true}, "UINT16": {"integer", 2, false},
	"INT32": {"integer", 4, true}, "UINT32": {"integer", 4, false}, "INT64": {"integer", 8, true}, "UINT64": {"integer", 8, false},
	"B8": {"bitfield", 1, false}, "B16": {"bitfield", 2, false}, "B32": {"bitfield", 4, false}, "B64": {"bitfield", 8, false},
	"OPAQUE":        {"opaque", 1, false},
	"FLOAT_COMPLEX": {"complex", 8, false}, "DOUBLE_COMPLEX": {"complex", 16, false}, "LDOUBLE_COMPLEX": {"complex", 32, false},
}

// atomicType classifies a predefined type name such as H5T_STD_I32LE. The
// boolean is false when the name is not recognised.
func atomicType(name string) (*Type, bool) {
	t := &Type{Raw: name}
	atoi := func(s string) int { n, _ := strconv.Atoi(s); return n }
	if m := reStd.FindStringSubmatch(name); m != nil {
		t.Size, t.Order = atoi(m[2])/8, m[3]
		switch m[1] {
		case "I":
			t.Class, t.Signed = "integer", true
		case "U":
			t.Class = "integer"
		case "B":
			t.Class = "bitfield"
		}
		return t, true
	}
	if m := reIEEE.FindStringSubmatch(name); m != nil {
		t.Class, t.Size, t.Order = "float", atoi(m[1])/8, m[2]
		return t, true
	}
	if m := reBF16.FindStringSubmatch(name); m != nil {
		t.Class, t.Size, t.Order = "float", 2, m[1]
		return t, true
	}
	if m := reComplex.FindStringSubmatch(name); m != nil {
		bits := atoi(m[1])
		t.Class, t.Size, t.Order = "complex", 2*bits/8, m[2]
		t.Base = &Type{Class: "float", Size: bits / 8, Order: m[2], Raw: "H5T_IEEE_F" + m[1] + m[2]}
		return t, true
	}
	if m := reFloatX.FindStringSubmatch(name); m != nil {
		t.Class, t.Size, t.Order = "float", (atoi(m[1])+7)/8, m[2]
		return t, true
	}
	if m := reLegacy.FindStringSubmatch(name); m != nil {
		t.Size = atoi(m[3]) / 8
		t.Order = "LE"
		if m[1] == "MIPS" {
			t.Order = "BE"
		}
		switch m[2] {
		case "I":
			t.Class, t.Signed = "integer", true
		case "U":
			t.Class = "integer"
		case "B":
			t.Class = "bitfield"
		case "F":
			t.Class = "float"
		}
		return t, true
	}
	if m := reVax.FindStringSubmatch(name); m != nil {
		t.Class, t.Size, t.Order = "float", atoi(m[1])/8, "VAX"
		return t, true
	}
	if m := reUnix.FindStringSubmatch(name); m != nil {
		t.Class, t.Size, t.Order = "time", atoi(m[1])/8, m[2]
		return t, true
	}
	switch name {
	case "H5T_STD_REF_OBJ", "H5T_STD_REF_OBJECT":
		t.Class, t.Size, t.RefType = "reference", 8, "H5T_STD_REF_OBJECT"
		return t, true
	case "H5T_STD_REF_DSETREG":
		t.Class, t.Size, t.RefType = "reference", 12, name
		return t, true
	case "H5T_STD_REF":
		t.Class, t.Size, t.RefType = "reference", 64, name
		return t, true
	case "H5T_C_S1", "H5T_FORTRAN_S1":
		t.Class, t.Size = "string", 1
		return t, true
	case "H5T_TIME":
		t.Class = "time"
		return t, true
	}
	if rest, ok := strings.CutPrefix(name, "H5T_NATIVE_"); ok {
		if ni, ok := nativeTypes[rest]; ok {
			t.Class, t.Size, t.Signed = ni.class, ni.size, ni.signed
			return t, true
		}
	}
	t.Class = "unknown"
	return t, false
}

// describedType parses the free-text form h5dump uses for atomic types that do
// not match a predefined type, e.g.
// "32-bit little-endian integer 17-bit precision" or
// "128-bit little-endian floating-point 80-bit precision".
func describedType(text string) *Type {
	t := &Type{Raw: text, Class: "unknown"}
	atoi := func(s string) int { n, _ := strconv.Atoi(s); return n }
	if m := reBytes.FindStringSubmatch(text); m != nil {
		t.Size = atoi(m[1])
	}
	fields := strings.Fields(text)
	first := true
	for i, f := range fields {
		if m := reBits.FindStringSubmatch(f); m != nil && m[0] == f {
			n := atoi(m[1])
			next := ""
			if i+1 < len(fields) {
				next = fields[i+1]
			}
			switch {
			case first:
				t.Size = (n + 7) / 8
				first = false
			case next == "precision":
				t.Precision = n
			case next == "offset":
				t.Offset = n
			}
			continue
		}
		switch f {
		case "little-endian":
			t.Order = "LE"
		case "big-endian":
			t.Order = "BE"
		case "vax-endian", "VAX-endian", "mixed-endian":
			t.Order = "VAX"
		case "integer":
			t.Class = "integer"
			t.Signed = true
		case "floating-point":
			t.Class = "float"
		case "bitfield":
			t.Class = "bitfield"
		case "opaque":
			t.Class = "opaque"
		case "time":
			t.Class = "time"
		}
	}
	if t.Class == "integer" && strings.Contains(text, "unsigned") {
		t.Signed = false
	}
	return t
}

func endsWithSemicolon(rest string) bool { return strings.HasPrefix(rest, ";") }

// parseType parses a datatype expression at the cursor.
func (p *parser) parseType(depth int) (*Type, error) {
	sc := &p.sc
	if depth > maxDepth {
		return nil, sc.errf(sc.pos, "datatype nesting too deep")
	}
	sc.skipSpace()
	start := sc.pos
	finish := func(t *Type) (*Type, error) {
		t.Raw = strings.TrimSpace(sc.s[start:sc.pos])
		return t, nil
	}
	c := sc.peek()
	if c == '"' {
		path, err := sc.name(func(rest string) bool {
			return rest == "" || rest[0] == '}' || rest[0] == ';' || rest[0] == '"'
		})
		if err != nil {
			return nil, err
		}
		return finish(&Type{Class: "named", Path: path})
	}
	if c >= '0' && c <= '9' {
		// free-text description up to end of line or a closing delimiter
		i := sc.pos
		for i < len(sc.s) && !strings.ContainsRune("\n{};\"", rune(sc.s[i])) {
			i++
		}
		text := strings.TrimSpace(sc.s[sc.pos:i])
		sc.pos = sc.pos + len(strings.TrimRight(sc.s[sc.pos:i], " \t\r"))
		return describedType(text), nil
	}
	w := sc.word()
	if w == "" {
		return nil, sc.errf(sc.pos, "expected datatype, got %q", string(c))
	}
	switch w {
	case "H5T_STRING":
		t := &Type{Class: "string"}
		if err := sc.expect('{'); err != nil {
			return nil, err
		}
		for {
			sc.skipSpace()
			if sc.eof() {
				return nil, sc.errf(start, "unterminated H5T_STRING")
			}
			if sc.peek() == '}' {
				sc.pos++
				break
			}
			key := sc.word()
			if key == "" {
				return nil, sc.errf(sc.pos, "unexpected %q in H5T_STRING", string(sc.peek()))
			}
			sc.skipSpace()
			val := sc.word()
			sc.skipSpace()
			if sc.peek() == ';' {
				sc.pos++
			}
			switch key {
			case "STRSIZE":
				if val == "H5T_VARIABLE" {
					t.Variable = true
				} else if n, err := strconv.Atoi(val); err == nil {
					t.Size = n
				}
			case "STRPAD":
				t.StrPad = val
			case "CSET":
				t.CSet = val
			case "CTYPE":
				t.CType = val
			}
		}
		return finish(t)

	case "H5T_COMPOUND":
		t := &Type{Class: "compound"}
		if err := sc.expect('{'); err != nil {
			return nil, err
		}
		for {
			sc.skipSpace()
			if sc.eof() {
				return nil, sc.errf(start, "unterminated H5T_COMPOUND")
			}
			if sc.peek() == '}' {
				sc.pos++
				break
			}
			mt, err := p.parseType(depth + 1)
			if err != nil {
				return nil, err
			}
			sc.skipSpace()
			name, err := sc.name(endsWithSemicolon)
			if err != nil {
				return nil, err
			}
			sc.skipSpace()
			if sc.peek() == ';' {
				sc.pos++
			}
			t.Members = append(t.Members, Member{Name: name, Type: mt})
		}
		return finish(t)

	case "H5T_ARRAY":
		t := &Type{Class: "array"}
		if err := sc.expect('{'); err != nil {
			return nil, err
		}
		for {
			sc.skipSpace()
			if sc.peek() != '[' {
				break
			}
			sc.pos++
			sc.skipSpace()
			d := sc.word()
			n, err := strconv.ParseUint(d, 10, 64)
			if err != nil {
				return nil, sc.errf(sc.pos, "bad array dimension %q", d)
			}
			t.Dims = append(t.Dims, n)
			if err := sc.expect(']'); err != nil {
				return nil, err
			}
		}
		bt, err := p.parseType(depth + 1)
		if err != nil {
			return nil, err
		}
		t.Base = bt
		if err := sc.expect('}'); err != nil {
			return nil, err
		}
		return finish(t)

	case "H5T_VLEN":
		t := &Type{Class: "vlen"}
		if err := sc.expect('{'); err != nil {
			return nil, err
		}
		bt, err := p.parseType(depth + 1)
		if err != nil {
			return nil, err
		}
		t.Base = bt
		if err := sc.expect('}'); err != nil {
			return nil, err
		}
		return finish(t)

	case "H5T_ENUM":
		t := &Type{Class: "enum"}
		if err := sc.expect('{'); err != nil {
			return nil, err
		}
		bt, err := p.parseType(depth + 1)
		if err != nil {
			return nil, err
		}
		t.Base = bt
		t.Size, t.Signed, t.Order = bt.Size, bt.Signed, bt.Order
		sc.skipSpace()
		if sc.peek() == ';' {
			sc.pos++
		}
		for {
			sc.skipSpace()
			if sc.eof() {
				return nil, sc.errf(start, "unterminated H5T_ENUM")
			}
			if sc.peek() == '}' {
				sc.pos++
				break
			}
			if sc.peek() != '"' {
				return nil, sc.errf(sc.pos, "expected enum member name, got %q", string(sc.peek()))
			}
			name, err := sc.name(func(rest string) bool { return strings.HasSuffix(rest, ";") && !strings.Contains(rest, "\"") })
			if err != nil {
				return nil, err
			}
			i := strings.IndexByte(sc.s[sc.pos:], ';')
			if i < 0 {
				return nil, sc.errf(sc.pos, "enum member %q without value", name)
			}
			val := strings.TrimSpace(sc.s[sc.pos : sc.pos+i])
			sc.pos += i + 1
			t.EnumNames = append(t.EnumNames, name)
			t.EnumValues = append(t.EnumValues, val)
		}
		return finish(t)

	case "H5T_OPAQUE":
		t := &Type{Class: "opaque"}
		sc.skipBlanks()
		if sc.peek() != '{' {
			return finish(t)
		}
		sc.pos++
		for {
			sc.skipSpace()
			if sc.eof() {
				return nil, sc.errf(start, "unterminated H5T_OPAQUE")
			}
			if sc.peek() == '}' {
				sc.pos++
				break
			}
			key := sc.word()
			if key == "" {
				if sc.peek() == ';' {
					sc.pos++
					continue
				}
				return nil, sc.errf(sc.pos, "unexpected %q in H5T_OPAQUE", string(sc.peek()))
			}
			sc.skipSpace()
			if key == "OPAQUE_TAG" && sc.peek() == '"' {
				tag, err := sc.name(endsWithSemicolon)
				if err != nil {
					return nil, err
				}
				t.Tag = tag
			} else if n, err := strconv.Atoi(key); err == nil && t.Size == 0 {
				t.Size = n
				continue
			} else if sc.peek() != ';' && sc.peek() != '}' {
				v := sc.word()
				if key == "OPAQUE_SIZE" || key == "SIZE" {
					t.Size, _ = strconv.Atoi(v)
				}
			}
			sc.skipSpace()
			if sc.peek() == ';' {
				sc.pos++
			}
		}
		return finish(t)

	case "H5T_REFERENCE":
		t := &Type{Class: "reference"}
		sc.skipBlanks()
		if sc.peek() == '{' {
			sc.pos++
			sc.skipSpace()
			t.RefType = sc.word()
			if at, ok := atomicType(t.RefType); ok {
				t.Size = at.Size
				t.RefType = at.RefType
			}
			if err := sc.expect('}'); err != nil {
				return nil, err
			}
		}
		return finish(t)
	}
	t, _ := atomicType(w)
	// Generic "{ ... }" tail for constructs not known to this parser.
	save := sc.pos
	sc.skipBlanks()
	if t.Class == "unknown" && sc.peek() == '{' {
		sc.pos++
		if _, err := sc.balanced(); err != nil {
			return nil, err
		}
	} else {
		sc.pos = save
	}
	return finish(t)
}
