package ddl

import (
	"fmt"
	"strings"
)

// ParseError is returned by Parse for structural problems. Line is 1-based.
type ParseError struct {
	Line int
	Msg  string
}

func (e *ParseError) Error() string { return fmt.Sprintf("ddl: line %d: %s", e.Line, e.Msg) }

// scanner is a byte cursor over the DDL text. The h5dump output is partly
// line oriented (object headers, property blocks) and partly token oriented
// (DATA blocks, datatype expressions), so the scanner offers both views.
type scanner struct {
	s   string
	pos int
}

func (sc *scanner) eof() bool { return sc.pos >= len(sc.s) }

func (sc *scanner) peek() byte {
	if sc.pos >= len(sc.s) {
		return 0
	}
	return sc.s[sc.pos]
}

func isSpace(c byte) bool {
	return c == ' ' || c == '\t' || c == '\n' || c == '\r' || c == '\f' || c == '\v'
}

// isPunct reports the characters that always form a token of their own.
func isPunct(c byte) bool {
	switch c {
	case '{', '}', '(', ')', '[', ']', ',', ';', '"':
		return true
	}
	return false
}

// skipSpace skips all whitespace including newlines.
func (sc *scanner) skipSpace() {
	for sc.pos < len(sc.s) && isSpace(sc.s[sc.pos]) {
		sc.pos++
	}
}

// skipBlanks skips spaces and tabs but stays on the current line.
func (sc *scanner) skipBlanks() {
	for sc.pos < len(sc.s) && (sc.s[sc.pos] == ' ' || sc.s[sc.pos] == '\t' || sc.s[sc.pos] == '\r') {
		sc.pos++
	}
}

// word reads a maximal run of non-space, non-punctuation bytes at the cursor.
// It returns "" when the cursor is at whitespace, punctuation or EOF.
func (sc *scanner) word() string {
	start := sc.pos
	for sc.pos < len(sc.s) && !isSpace(sc.s[sc.pos]) && !isPunct(sc.s[sc.pos]) {
		sc.pos++
	}
	return sc.s[start:sc.pos]
}

// peekWord returns the next word after whitespace without consuming anything.
func (sc *scanner) peekWord() string {
	save := sc.pos
	sc.skipSpace()
	w := sc.word()
	sc.pos = save
	return w
}

// lineEnd returns the index of the newline terminating the line that contains
// position p (or len(s)).
func (sc *scanner) lineEnd(p int) int {
	if i := strings.IndexByte(sc.s[p:], '\n'); i >= 0 {
		return p + i
	}
	return len(sc.s)
}

// restOfLine consumes and returns the remainder of the current line (without
// the newline, right-trimmed).
func (sc *scanner) restOfLine() string {
	e := sc.lineEnd(sc.pos)
	r := sc.s[sc.pos:e]
	sc.pos = e
	return strings.TrimRight(r, " \t\r")
}

// line returns the 1-based line number of position p.
func (sc *scanner) line(p int) int {
	if p > len(sc.s) {
		p = len(sc.s)
	}
	return 1 + strings.Count(sc.s[:p], "\n")
}

// col returns the 0-based column of position p within its line.
func (sc *scanner) col(p int) int {
	if p > len(sc.s) {
		p = len(sc.s)
	}
	i := strings.LastIndexByte(sc.s[:p], '\n')
	return p - i - 1
}

func (sc *scanner) errf(p int, format string, a ...any) *ParseError {
	return &ParseError{Line: sc.line(p), Msg: fmt.Sprintf(format, a...)}
}

// expect skips whitespace and consumes the single byte c.
func (sc *scanner) expect(c byte) error {
	sc.skipSpace()
	if sc.peek() != c {
		got := "EOF"
		if !sc.eof() {
			got = fmt.Sprintf("%q", sc.s[sc.pos:min(len(sc.s), sc.pos+12)])
		}
		return sc.errf(sc.pos, "expected %q, got %s", string(c), got)
	}
	sc.pos++
	return nil
}

// quoted reads a quoted data string at the cursor (which must be at the
// opening quote). The string may span lines. It returns the text between the
// quotes exactly as printed.
//
// h5dump only escapes '"' and '\\' when run with -e; by default they are
// printed raw, so a quote is accepted as the closing one only when it is not
// backslash-escaped and is followed (after blanks) by something that can
// follow a value: ',', a closing bracket, "//", end of line or end of text.
// If no quote qualifies the first unescaped quote is used.
func (sc *scanner) quoted() (string, error) {
	if sc.peek() != '"' {
		return "", sc.errf(sc.pos, "expected quoted string")
	}
	start := sc.pos + 1
	first := -1
	for i := start; i < len(sc.s); i++ {
		switch sc.s[i] {
		case '\\':
			i++
			continue
		case '"':
			if first < 0 {
				first = i
			}
			j := i + 1
			for j < len(sc.s) && (sc.s[j] == ' ' || sc.s[j] == '\t' || sc.s[j] == '\r') {
				j++
			}
			if j >= len(sc.s) || strings.IndexByte(",\n}])", sc.s[j]) >= 0 || strings.HasPrefix(sc.s[j:], "//") {
				sc.pos = i + 1
				return sc.s[start:i], nil
			}
		}
	}
	if first >= 0 {
		sc.pos = first + 1
		return sc.s[start:first], nil
	}
	return "", sc.errf(sc.pos, "unterminated quoted string")
}

// name reads a quoted object/member name at the cursor. h5dump prints names
// verbatim between double quotes, so a name containing a double quote or a
// backslash is ambiguous. The closing quote is chosen as the first quote
// (escape-aware first, then any) after which the rest of the line satisfies
// okAfter; failing that the last quote on the line; failing that the string is
// read escape-aware across lines.
func (sc *scanner) name(okAfter func(rest string) bool) (string, error) {
	if sc.peek() != '"' {
		return "", sc.errf(sc.pos, "expected quoted name")
	}
	start := sc.pos + 1
	e := sc.lineEnd(start)
	line := sc.s[start:e]
	// escape-aware first closing quote
	for i := 0; i < len(line); i++ {
		if line[i] == '\\' {
			i++
			continue
		}
		if line[i] == '"' {
			if okAfter == nil || okAfter(strings.TrimSpace(line[i+1:])) {
				sc.pos = start + i + 1
				return line[:i], nil
			}
			break
		}
	}
	for i := 0; i < len(line); i++ {
		if line[i] == '"' && (okAfter == nil || okAfter(strings.TrimSpace(line[i+1:]))) {
			sc.pos = start + i + 1
			return line[:i], nil
		}
	}
	if i := strings.LastIndexByte(line, '"'); i >= 0 {
		sc.pos = start + i + 1
		return line[:i], nil
	}
	return sc.quoted()
}

// balanced consumes a brace-balanced block. The cursor must be just after the
// opening '{'. It returns the text between the braces and leaves the cursor
// after the closing '}'. Quoted strings (closed on the same line) are skipped,
// and free-text "COMMENT ..." lines are ignored for brace counting.
func (sc *scanner) balanced() (string, error) {
	start := sc.pos
	depth := 1
	i := sc.pos
	atLineStart := false
	for i < len(sc.s) {
		c := sc.s[i]
		if atLineStart {
			if c == ' ' || c == '\t' {
				i++
				continue
			}
			atLineStart = false
			if strings.HasPrefix(sc.s[i:], "COMMENT ") {
				rest := strings.TrimLeft(sc.s[i+8:sc.lineEnd(i)], " ")
				if !strings.HasPrefix(rest, "\"") {
					i = sc.lineEnd(i)
					continue
				}
			}
		}
		switch c {
		case '\n':
			atLineStart = true
		case '"':
			// find closing quote on the same line
			e := sc.lineEnd(i)
			j := i + 1
			closed := -1
			for j < e {
				if sc.s[j] == '\\' {
					j += 2
					continue
				}
				if sc.s[j] == '"' {
					closed = j
					break
				}
				j++
			}
			if closed >= 0 {
				i = closed
			}
		case '{':
			depth++
		case '}':
			depth--
			if depth == 0 {
				sc.pos = i + 1
				return sc.s[start:i], nil
			}
		}
		i++
	}
	return "", sc.errf(start, "unbalanced '{'")
}

// Unescape converts the escape sequences h5dump uses inside quoted strings
// (\" \\ \n \t \r \b \f \v \a \ooo octal, \xHH) into raw bytes. Unknown
// escapes are kept verbatim.
func Unescape(s string) []byte {
	if strings.IndexByte(s, '\\') < 0 {
		return []byte(s)
	}
	out := make([]byte, 0, len(s))
	for i := 0; i < len(s); i++ {
		c := s[i]
		if c != '\\' || i+1 >= len(s) {
			out = append(out, c)
			continue
		}
		i++
		switch d := s[i]; d {
		case 'n':
			out = append(out, '\n')
		case 't':
			out = append(out, '\t')
		case 'r':
			out = append(out, '\r')
		case 'b':
			out = append(out, '\b')
		case 'f':
			out = append(out, '\f')
		case 'v':
			out = append(out, '\v')
		case 'a':
			out = append(out, '\a')
		case '"', '\\', '\'', '?':
			out = append(out, d)
		case 'x':
			v, n := 0, 0
			for n < 2 && i+1+n < len(s) && hexVal(s[i+1+n]) >= 0 {
				v = v*16 + hexVal(s[i+1+n])
				n++
			}
			if n == 0 {
				out = append(out, '\\', 'x')
			} else {
				out = append(out, byte(v))
				i += n
			}
		default:
			if d >= '0' && d <= '7' {
				v, n := 0, 0
				for n < 3 && i+n < len(s) && s[i+n] >= '0' && s[i+n] <= '7' {
					v = v*8 + int(s[i+n]-'0')
					n++
				}
				out = append(out, byte(v))
				i += n - 1
			} else {
				out = append(out, '\\', d)
			}
		}
	}
	return out
}

func hexVal(c byte) int {
	switch {
	case c >= '0' && c <= '9':
		return int(c - '0')
	case c >= 'a' && c <= 'f':
		return int(c-'a') + 10
	case c >= 'A' && c <= 'F':
		return int(c-'A') + 10
	}
	return -1
}
