package ddl

import (
	"regexp"
	"strconv"
	"strings"
)

// Value kinds.
const (
	KindNum      = "num"      // numeric literal; Text is the original token ("-1", "1e+20", "nan", "0x1f", "1+2i")
	KindHex      = "hex"      // colon separated hex bytes ("de:ad:be:ef"), opaque / wide bitfield
	KindWord     = "word"     // any other bare token (e.g. enum symbol when the type is unknown)
	KindEnum     = "enum"     // bare token that names a member of the element's enum type
	KindStr      = "str"      // quoted string; Text is the printed text, Bytes the unescaped bytes
	KindCompound = "compound" // { v1, v2, ... }
	KindArray    = "array"    // [ v1, v2, ... ] (multi-dimensional arrays are printed flat)
	KindVlen     = "vlen"     // ( v1, v2, ... )
	KindRef      = "ref"      // object / region / attribute reference; Text is the raw text
	KindNull     = "null"     // NULL
)

// Value is one element of a DATA block.
type Value struct {
	Kind  string
	Text  string  // original token text (see Kind); for KindRef the complete raw text of the element
	Bytes []byte  // KindStr: unescaped bytes
	Elems []Value // compound / array / vlen members; KindRef: values of the nested DATA block, if any

	// KindRef only.
	RefKind   string // GROUP, DATASET, DATATYPE, ATTRIBUTE or UNKNOWN (dangling reference)
	RefAddr   string // object address/token when printed ("1400"), else ""
	RefPath   string // path as printed ("/G1", "file.h5/Group1/Dataset1")
	RefRegion string // region description when printed ("REGION_TYPE BLOCK (2,2)-(7,7)" or "{(2,2)-(7,7)}")
}

// String renders the value canonically (for debugging and comparisons).
func (v Value) String() string {
	var b strings.Builder
	v.write(&b)
	return b.String()
}

func (v Value) write(b *strings.Builder) {
	list := func(open, close string) {
		b.WriteString(open)
		for i, e := range v.Elems {
			if i > 0 {
				b.WriteString(", ")
			}
			e.write(b)
		}
		b.WriteString(close)
	}
	switch v.Kind {
	case KindStr:
		b.WriteString(strconv.Quote(string(v.Bytes)))
	case KindCompound:
		list("{ ", " }")
	case KindArray:
		list("[ ", " ]")
	case KindVlen:
		list("( ", " )")
	case KindNull:
		b.WriteString("NULL")
	case KindRef:
		b.WriteString("REF<")
		b.WriteString(v.RefKind)
		if v.RefAddr != "" {
			b.WriteString(" " + v.RefAddr)
		}
		b.WriteString(" " + strconv.Quote(v.RefPath))
		if v.RefRegion != "" {
			b.WriteString(" " + v.RefRegion)
		}
		if len(v.Elems) > 0 {
			list(" DATA{ ", " }")
		}
		b.WriteString(">")
	default:
		b.WriteString(v.Text)
	}
}

var (
	reNumPart = `[+-]?(?:\d+\.?\d*(?:[eE][+-]?\d+)?|\.\d+(?:[eE][+-]?\d+)?|[nN][aA][nN](?:\([^)]*\))?|[iI][nN][fF](?:[iI][nN][iI][tT][yY])?)`
	reNum     = regexp.MustCompile(`^(?:` + reNumPart + `|[+-]?0[xX][0-9a-fA-F]+)$`)
	reCplx    = regexp.MustCompile(`^` + reNumPart + `[+-](?:\d+\.?\d*(?:[eE][+-]?\d+)?|\.\d+(?:[eE][+-]?\d+)?|[nN][aA][nN]|[iI][nN][fF])[ij]$`)
	reHexB    = regexp.MustCompile(`^(?:0[xX])?[0-9a-fA-F]{2}(?::(?:0[xX])?[0-9a-fA-F]{2})+$`)
	reHex1    = regexp.MustCompile(`^[0-9a-fA-F]{2}$`)
)

func classifyToken(tok string) string {
	switch {
	case reNum.MatchString(tok), reCplx.MatchString(tok):
		return KindNum
	case reHexB.MatchString(tok):
		return KindHex
	}
	return KindWord
}

func isRefKeyword(w string) bool {
	switch w {
	case "GROUP", "DATASET", "DATATYPE", "ATTRIBUTE", "UNKNOWN":
		return true
	}
	return false
}

// tryIndex consumes an index prefix "(i,j,...):" at the cursor. It returns
// the coordinates and true on success and leaves the cursor untouched
// otherwise.
func (sc *scanner) tryIndex() ([]uint64, bool) {
	if sc.peek() != '(' {
		return nil, false
	}
	save := sc.pos
	i := sc.pos + 1
	var idx []uint64
	for {
		for i < len(sc.s) && sc.s[i] == ' ' {
			i++
		}
		st := i
		for i < len(sc.s) && sc.s[i] >= '0' && sc.s[i] <= '9' {
			i++
		}
		if i == st {
			sc.pos = save
			return nil, false
		}
		n, err := strconv.ParseUint(sc.s[st:i], 10, 64)
		if err != nil {
			sc.pos = save
			return nil, false
		}
		idx = append(idx, n)
		for i < len(sc.s) && sc.s[i] == ' ' {
			i++
		}
		if i < len(sc.s) && sc.s[i] == ',' {
			i++
			continue
		}
		break
	}
	if i >= len(sc.s) || sc.s[i] != ')' {
		sc.pos = save
		return nil, false
	}
	i++
	for i < len(sc.s) && sc.s[i] == ' ' {
		i++
	}
	if i >= len(sc.s) || sc.s[i] != ':' {
		sc.pos = save
		return nil, false
	}
	sc.pos = i + 1
	return idx, true
}

// dataCtx carries what is known about the block being parsed, for index
// validation.
type dataCtx struct {
	dims     []uint64 // nil when unknown / not applicable
	validate bool
}

// parseData parses the body of a DATA block. The cursor must be just after
// the opening '{'; it is left after the closing '}'.
func (p *parser) parseData(ctx dataCtx, depth int) ([]Value, error) {
	sc := &p.sc
	var out []Value
	for {
		sc.skipSpace()
		if sc.eof() {
			return out, sc.errf(sc.pos, "unterminated DATA block")
		}
		switch sc.peek() {
		case '}':
			sc.pos++
			return out, nil
		case ',':
			sc.pos++
			continue
		}
		at := sc.pos
		if idx, ok := sc.tryIndex(); ok {
			if ctx.validate && len(idx) == len(ctx.dims) && len(idx) > 0 {
				lin, valid := uint64(0), true
				for k, d := range ctx.dims {
					if idx[k] >= d {
						valid = false
						break
					}
					lin = lin*d + idx[k]
				}
				if !valid || lin != uint64(len(out)) {
					p.warnf(at, "index prefix %v does not match element position %d", idx, len(out))
					ctx.validate = false
				}
			}
			continue
		}
		v, err := p.parseValue(depth)
		if err != nil {
			return out, err
		}
		out = append(out, v)
	}
}

// parseList parses comma separated values up to the closing byte.
func (p *parser) parseList(closer byte, depth int) ([]Value, error) {
	sc := &p.sc
	var out []Value
	for {
		sc.skipSpace()
		if sc.eof() {
			return out, sc.errf(sc.pos, "unterminated list, expected %q", string(closer))
		}
		c := sc.peek()
		if c == closer {
			sc.pos++
			return out, nil
		}
		if c == ',' {
			sc.pos++
			continue
		}
		v, err := p.parseValue(depth)
		if err != nil {
			return out, err
		}
		out = append(out, v)
	}
}

func (p *parser) parseValue(depth int) (Value, error) {
	sc := &p.sc
	if depth > maxDepth {
		return Value{}, sc.errf(sc.pos, "value nesting too deep")
	}
	sc.skipSpace()
	switch c := sc.peek(); c {
	case '{':
		sc.pos++
		el, err := p.parseList('}', depth+1)
		return Value{Kind: KindCompound, Elems: el}, err
	case '[':
		sc.pos++
		el, err := p.parseList(']', depth+1)
		return Value{Kind: KindArray, Elems: el}, err
	case '(':
		sc.pos++
		el, err := p.parseList(')', depth+1)
		return Value{Kind: KindVlen, Elems: el}, err
	case '"':
		return p.parseString()
	case 0, '}', ']', ')', ';':
		return Value{}, sc.errf(sc.pos, "unexpected %q in DATA", string(c))
	}
	start := sc.pos
	w := sc.word()
	if w == "" {
		return Value{}, sc.errf(sc.pos, "unexpected %q in DATA", string(sc.peek()))
	}
	if w == "NULL" {
		return Value{Kind: KindNull, Text: w}, nil
	}
	if isRefKeyword(w) {
		save := sc.pos
		sc.skipBlanks()
		c := sc.peek()
		if sc.pos > save && (c == '"' || c == '/' || (c >= '0' && c <= '9')) {
			return p.parseRef(w, start, depth)
		}
		sc.pos = save
	}
	// Join further bare words on the same line ("A B" enum symbols, and
	// tokens h5dump printed with embedded blanks).
	for {
		save := sc.pos
		sc.skipBlanks()
		if sc.pos == save || sc.eof() || isPunct(sc.peek()) || sc.peek() == '\n' {
			sc.pos = save
			break
		}
		if sc.word() == "" {
			sc.pos = save
			break
		}
	}
	tok := sc.s[start:sc.pos]
	return Value{Kind: classifyToken(tok), Text: tok}, nil
}

// parseString parses a quoted string and any `//` continuations.
func (p *parser) parseString() (Value, error) {
	sc := &p.sc
	txt, err := sc.quoted()
	if err != nil {
		return Value{}, err
	}
	for {
		save := sc.pos
		sc.skipSpace()
		if !strings.HasPrefix(sc.s[sc.pos:], "//") {
			sc.pos = save
			break
		}
		sc.pos += 2
		sc.skipSpace()
		if sc.peek() != '"' {
			sc.pos = save
			break
		}
		more, err := sc.quoted()
		if err != nil {
			return Value{}, err
		}
		txt += more
	}
	return Value{Kind: KindStr, Text: txt, Bytes: Unescape(txt)}, nil
}

func refNameOK(rest string) bool {
	return rest == "" || rest[0] == '{' || rest[0] == ',' || rest[0] == ')' || rest[0] == ']' || rest[0] == '}'
}

// parseRef parses a reference element. The keyword has been consumed and the
// cursor is at the first non-blank byte after it. Forms handled:
//
//	GROUP 1400 /G1                         (1.8/1.10, unquoted)
//	DATASET 800 "/DS2"                     (optionally followed by DATA { ... })
//	DATASET /DS2 {(0,1), (2,11)}           (old region form)
//	DATASET "file.h5/DS2" { REGION_TYPE ... DATATYPE ... DATASPACE ... [DATA {...}] }
//	ATTRIBUTE "file.h5/G/Attr" { ... }
func (p *parser) parseRef(kw string, start, depth int) (Value, error) {
	sc := &p.sc
	v := Value{Kind: KindRef, RefKind: kw}
	// optional address
	if c := sc.peek(); c >= '0' && c <= '9' {
		save := sc.pos
		w := sc.word()
		if _, err := strconv.ParseUint(w, 10, 64); err == nil {
			v.RefAddr = w
			sc.skipBlanks()
		} else {
			sc.pos = save
		}
	}
	if sc.peek() == '"' {
		name, err := sc.name(refNameOK)
		if err != nil {
			return v, err
		}
		v.RefPath = name
	} else {
		// unquoted path: up to " {", ",", closing bracket or end of line
		e := sc.lineEnd(sc.pos)
		i := sc.pos
		for i < e {
			c := sc.s[i]
			if c == ',' || c == ')' || c == ']' || c == '}' {
				break
			}
			if c == '{' && i > sc.pos && sc.s[i-1] == ' ' {
				break
			}
			i++
		}
		v.RefPath = strings.TrimSpace(sc.s[sc.pos:i])
		sc.pos = i
	}
	sc.skipBlanks()
	if sc.peek() == '{' {
		sc.pos++
		bodyStart := sc.pos
		body, err := sc.balanced()
		if err != nil {
			return v, err
		}
		p.parseRefBody(&v, body, bodyStart, depth)
	}
	// trailing "DATA { ... }" (dereferenced object data)
	save := sc.pos
	sc.skipSpace()
	if sc.word() == "DATA" {
		sc.skipBlanks()
		if sc.peek() == '{' {
			sc.pos++
			el, err := p.parseData(dataCtx{}, depth+1)
			if err != nil {
				return v, err
			}
			v.Elems = append(v.Elems, el...)
			save = sc.pos
		}
	}
	sc.pos = save
	v.Text = strings.TrimSpace(sc.s[start:sc.pos])
	return v, nil
}

// parseRefBody extracts region description and nested data from the braces
// block of a reference element (best effort; failures are ignored because the
// raw text is retained in Value.Text).
func (p *parser) parseRefBody(v *Value, body string, bodyStart, depth int) {
	trim := strings.TrimSpace(body)
	if strings.HasPrefix(trim, "(") {
		v.RefRegion = "{" + strings.Join(strings.Fields(trim), " ") + "}"
		return
	}
	if i := strings.Index(body, "REGION_TYPE"); i >= 0 {
		rest := body[i:]
		end := len(rest)
		for _, kw := range []string{"DATATYPE", "DATASPACE", "DATA {", "DATA{"} {
			if j := strings.Index(rest, kw); j >= 0 && j < end {
				end = j
			}
		}
		v.RefRegion = strings.Join(strings.Fields(rest[:end]), " ")
	}
	// nested DATA block: re-scan in place so that line numbers stay right.
	for off := 0; off < len(body); {
		j := strings.Index(body[off:], "DATA")
		if j < 0 {
			break
		}
		j += off
		off = j + 4
		if j > 0 && !isSpace(body[j-1]) {
			continue
		}
		k := j + 4
		for k < len(body) && (body[k] == ' ' || body[k] == '\t') {
			k++
		}
		if k >= len(body) || body[k] != '{' {
			continue
		}
		sub := &parser{sc: scanner{s: p.sc.s, pos: bodyStart + k + 1}, file: p.file}
		el, err := sub.parseData(dataCtx{}, depth+1)
		if err == nil {
			v.Elems = append(v.Elems, el...)
		}
		break
	}
}
