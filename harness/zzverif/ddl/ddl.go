// Package ddl parses the DDL text printed by h5dump (HDF5 1.10 - 2.0) into a
// tree of nodes, parsed datatypes and generic data values.
//
// The parser is tolerant: it never panics, always terminates, and keeps the
// raw text of everything it does not understand. Files that do not contain an
// `HDF5 "<name>" {` block (tool usage messages, error transcripts, h5stat
// output, ...) yield ErrNotDDL together with an empty, non-nil *File.
package ddl

import (
	"errors"
	"fmt"
	"path"
	"strconv"
	"strings"
)

// ErrNotDDL is returned by Parse when the text has no `HDF5 "<file>" {` block.
var ErrNotDDL = errors.New("ddl: no HDF5 \"<file>\" { block found")

// Node kinds.
const (
	KindGroup     = "GROUP"
	KindDataset   = "DATASET"
	KindDatatype  = "DATATYPE" // committed (named) datatype
	KindAttribute = "ATTRIBUTE"
	KindSoftLink  = "SOFTLINK"
	KindExtLink   = "EXTERNAL_LINK"
	KindUDLink    = "USERDEFINED_LINK"
	// KindHardlink is never used for a tree node: `HARDLINK "<path>"` inside
	// a GROUP / DATASET / DATATYPE block sets Node.HardlinkTo on that node.
	KindHardlink   = "HARDLINK"
	KindSuperBlock = "SUPER_BLOCK" // only File.SuperBlock
	KindUserBlock  = "USER_BLOCK"  // only File.UserBlock
)

// File is one `HDF5 "<name>" { ... }` block.
type File struct {
	Name string // as printed between the quotes
	// Root is the GROUP "/" block, nil for partial dumps.
	Root *Node
	// Blocks are the object/link blocks directly under the HDF5 block in
	// printed order (Root included). For partial dumps (h5dump -d/-g/-a/-N/-t/-l)
	// the names are the paths exactly as printed.
	Blocks     []*Node
	SuperBlock *Node
	UserBlock  *Node
	// Props holds any other top-level block (e.g. FILE_CONTENTS from h5dump -n).
	Props []Prop

	Preamble string  // text before the HDF5 line (e.g. "Using revision 3")
	Trailer  string  // text after the closing brace (error stack, ...)
	Others   []*File // further HDF5 blocks in the same text (multi-file dumps)

	// Warnings lists recoverable oddities (index prefix mismatch, skipped
	// unknown constructs); each has the form "line N: message".
	Warnings []string

	named map[string]*Type
}

// Prop is an uninterpreted key / text pair.
type Prop struct {
	Key  string
	Text string
}

// Space is a dataspace.
type Space struct {
	Kind    string   // "SIMPLE", "SCALAR" or "NULL"
	Dims    []uint64 // SIMPLE only
	MaxDims []uint64 // SIMPLE only; ^uint64(0) for H5S_UNLIMITED
}

// Unlimited is the MaxDims value of H5S_UNLIMITED.
const Unlimited = ^uint64(0)

// Subset is the hyperslab of a SUBSET dump.
type Subset struct {
	Start, Stride, Count, Block []uint64
}

// Node is a block of the tree.
type Node struct {
	Kind     string
	Name     string  // as printed between the quotes (no unescaping)
	Children []*Node // in printed order (attributes, members, links, target of followed external links)

	Type  *Type  // DATASET, ATTRIBUTE, DATATYPE
	Space *Space // DATASET, ATTRIBUTE

	Data    []Value // top-level elements in row-major order
	HasData bool    // a DATA block was present (possibly empty)
	// MoreData holds the 2nd, 3rd, ... DATA block (packed-bits dumps print one
	// DATA block per PACKED_BITS mask).
	MoreData   [][]Value
	PackedBits []string // text of PACKED_BITS lines ("OFFSET=0 LENGTH=1")
	Subset     *Subset

	HardlinkTo string // object already shown under this path
	LinkTarget string // SOFTLINK
	TargetFile string // EXTERNAL_LINK
	TargetPath string // EXTERNAL_LINK
	LinkClass  string // USERDEFINED_LINK
	Comment    string

	Layout    string   // CONTIGUOUS, COMPACT, CHUNKED, VIRTUAL or ""
	ChunkDims []uint64 // CHUNKED only
	Filters   []string // one normalised entry per filter; empty for NONE
	FillTime  string
	FillValue string
	AllocTime string
	Props     []Prop // every property block / unknown line, uninterpreted

	Raw  string // complete text of the block
	Line int    // 1-based line of the keyword

	col int
}

type parser struct {
	sc   scanner
	file *File
}

func (p *parser) warnf(pos int, format string, a ...any) {
	if len(p.file.Warnings) < 100 {
		p.file.Warnings = append(p.file.Warnings, fmt.Sprintf("line %d: %s", p.sc.line(pos), fmt.Sprintf(format, a...)))
	}
}

func findHeader(s string, from int) int {
	for from <= len(s) {
		i := strings.Index(s[from:], "HDF5 \"")
		if i < 0 {
			return -1
		}
		i += from
		if i == 0 || s[i-1] == '\n' {
			return i
		}
		from = i + 1
	}
	return -1
}

// Parse parses one DDL text. When the text holds several HDF5 blocks (h5dump
// with several input files) the first is returned and the rest is in Others.
// On a structural error the partially built File is returned with the error.
// Parse never panics.
func Parse(text string) (f *File, err error) {
	defer func() {
		if r := recover(); r != nil {
			if f == nil {
				f = &File{}
			}
			err = fmt.Errorf("ddl: internal error: %v", r)
		}
	}()
	var files []*File
	pos := 0
	for {
		i := findHeader(text, pos)
		if i < 0 {
			break
		}
		noise := strings.TrimSpace(text[pos:i])
		nf := &File{}
		if len(files) == 0 {
			nf.Preamble = noise
		} else if noise != "" {
			files[len(files)-1].Trailer = noise
		}
		p := &parser{sc: scanner{s: text, pos: i}, file: nf}
		perr := p.parseFile()
		files = append(files, nf)
		if perr != nil && err == nil {
			err = perr
		}
		pos = p.sc.pos
		if pos < i+6 {
			pos = i + 6
		}
		if perr != nil {
			// resynchronise on the next header, if any
			if j := findHeader(text, pos); j >= 0 {
				pos = j
			} else {
				pos = len(text)
			}
		}
	}
	if len(files) == 0 {
		return &File{Preamble: text}, ErrNotDDL
	}
	if pos < len(text) {
		files[len(files)-1].Trailer = strings.TrimSpace(text[pos:])
	}
	f = files[0]
	f.Others = files[1:]
	for _, x := range files {
		x.retype()
	}
	return f, err
}

func (p *parser) parseFile() error {
	sc := &p.sc
	sc.word() // HDF5
	sc.skipBlanks()
	name, err := sc.name(func(rest string) bool { return rest == "{" || rest == "" })
	if err != nil {
		return err
	}
	p.file.Name = name
	if err := sc.expect('{'); err != nil {
		return err
	}
	return p.parseItems(nil, 0)
}

func (p *parser) parseItems(parent *Node, depth int) error {
	sc := &p.sc
	if depth > maxDepth {
		return sc.errf(sc.pos, "blocks nested too deep")
	}
	for {
		sc.skipSpace()
		if sc.eof() {
			return sc.errf(sc.pos, "unexpected end of text (missing '}')")
		}
		if sc.peek() == '}' {
			sc.pos++
			return nil
		}
		before := sc.pos
		if err := p.parseItem(parent, depth); err != nil {
			return err
		}
		if sc.pos <= before { // guarantee progress
			sc.pos = before + 1
		}
	}
}

func (p *parser) attach(parent, n *Node) {
	if parent != nil {
		parent.Children = append(parent.Children, n)
		return
	}
	p.file.Blocks = append(p.file.Blocks, n)
	if n.Kind == KindGroup && n.Name == "/" && p.file.Root == nil {
		p.file.Root = n
	}
}

func blockNameOK(rest string) bool { return rest == "" || rest[0] == '{' }

func (p *parser) parseItem(parent *Node, depth int) error {
	sc := &p.sc
	start := sc.pos
	kw := sc.word()
	if kw == "" {
		switch sc.peek() {
		case ';', ',':
			sc.pos++
		case '{':
			p.warnf(start, "skipping anonymous block")
			sc.pos++
			if _, err := sc.balanced(); err != nil {
				return err
			}
		default:
			p.warnf(start, "skipping unexpected text %q", sc.restOfLine())
		}
		return nil
	}
	ctx := ""
	if parent != nil {
		ctx = parent.Kind
	}
	switch kw {
	case KindGroup, KindDataset, KindAttribute, KindSoftLink, KindExtLink, KindUDLink:
		sc.skipBlanks()
		if sc.peek() != '"' {
			break // not an object header; treat as property line
		}
		name, err := sc.name(blockNameOK)
		if err != nil {
			return err
		}
		n := &Node{Kind: kw, Name: name, Line: sc.line(start), col: sc.col(start)}
		target := parent
		if kw == KindAttribute {
			// Attributes of a committed datatype are printed after the
			// (brace-less) DATATYPE line, indented one level deeper.
			sibs := p.file.Blocks
			if parent != nil {
				sibs = parent.Children
			}
			if len(sibs) > 0 {
				if last := sibs[len(sibs)-1]; last.Kind == KindDatatype && n.col > last.col {
					target = last
				}
			}
		}
		p.attach(target, n)
		sc.skipBlanks()
		if sc.peek() == '{' {
			sc.pos++
			if err := p.parseItems(n, depth+1); err != nil {
				n.Raw = sc.s[start:min(sc.pos, len(sc.s))]
				return err
			}
		}
		n.Raw = sc.s[start:sc.pos]
		return nil

	case KindDatatype:
		sc.skipBlanks()
		if (ctx == KindDataset || ctx == KindAttribute) && parent.Type == nil {
			t, err := p.parseType(0)
			if err != nil {
				return err
			}
			parent.Type = t
			return nil
		}
		if sc.peek() != '"' {
			break
		}
		name, err := sc.name(func(rest string) bool {
			return rest == "" || strings.HasPrefix(rest, "H5T_") || strings.HasPrefix(rest, "HARDLINK") ||
				rest[0] == '{' || rest[0] == '"' || (rest[0] >= '0' && rest[0] <= '9')
		})
		if err != nil {
			return err
		}
		n := &Node{Kind: kw, Name: name, Line: sc.line(start), col: sc.col(start)}
		p.attach(parent, n)
		sc.skipBlanks()
		switch {
		case strings.HasPrefix(sc.s[sc.pos:], "HARDLINK"):
			sc.word()
			sc.skipBlanks()
			if sc.peek() == '"' {
				if n.HardlinkTo, err = sc.name(nil); err != nil {
					return err
				}
			}
		case sc.peek() == '\n' || sc.eof():
			// name only
		case sc.peek() == '{':
			// old style: DATATYPE "name" { members }
			sc.pos++
			body, err := sc.balanced()
			if err != nil {
				return err
			}
			n.Type = &Type{Class: "unknown", Raw: "{" + body + "}"}
		default:
			t, err := p.parseType(0)
			if err != nil {
				return err
			}
			n.Type = t
			sc.skipBlanks()
			if sc.peek() == ';' {
				sc.pos++
			}
		}
		n.Raw = sc.s[start:sc.pos]
		return nil

	case "DATASPACE":
		if parent == nil {
			break
		}
		sp, err := p.parseSpace()
		if err != nil {
			return err
		}
		if parent.Space == nil {
			parent.Space = sp
		}
		return nil

	case "DATA":
		sc.skipBlanks()
		if sc.peek() != '{' || parent == nil {
			break
		}
		sc.pos++
		return p.dataBlock(parent, false, depth)

	case "SUBSET":
		sc.skipBlanks()
		if sc.peek() != '{' || parent == nil {
			break
		}
		sc.pos++
		return p.parseSubset(parent, depth)

	case KindHardlink:
		sc.skipBlanks()
		if sc.peek() != '"' || parent == nil {
			break
		}
		s, err := sc.name(nil)
		if err != nil {
			return err
		}
		parent.HardlinkTo = s
		return nil

	case "LINKTARGET", "TARGETFILE", "TARGETPATH", "COMMENT":
		sc.skipBlanks()
		if sc.peek() != '"' || parent == nil {
			break
		}
		s, err := sc.name(func(rest string) bool { return rest == "" })
		if err != nil {
			return err
		}
		switch kw {
		case "LINKTARGET":
			parent.LinkTarget = s
		case "TARGETFILE":
			parent.TargetFile = s
		case "TARGETPATH":
			parent.TargetPath = s
		case "COMMENT":
			parent.Comment = s
		}
		return nil

	case "LINKCLASS":
		if parent == nil {
			break
		}
		sc.skipBlanks()
		parent.LinkClass = sc.restOfLine()
		return nil
	}

	// Property block or unknown line: `KEY ... {` balanced `}` or `KEY rest`.
	sc.pos = start + len(kw)
	e := sc.lineEnd(sc.pos)
	brace := -1
	inq := false
	for i := sc.pos; i < e; i++ {
		c := sc.s[i]
		if c == '\\' && inq {
			i++
			continue
		}
		if c == '"' {
			inq = !inq
		}
		if c == '{' && !inq {
			brace = i
			break
		}
		if c == '}' && !inq {
			// closing brace of the enclosing block on the same line
			e = i
			break
		}
	}
	var text string
	if brace >= 0 {
		head := strings.TrimSpace(sc.s[sc.pos:brace])
		sc.pos = brace + 1
		body, err := sc.balanced()
		if err != nil {
			return err
		}
		text = body
		if head != "" {
			text = head + " {" + body + "}"
		}
	} else {
		text = strings.TrimSpace(sc.s[sc.pos:e])
		sc.pos = e
	}
	p.property(parent, kw, text, start)
	return nil
}

func (p *parser) dataBlock(n *Node, inSubset bool, depth int) error {
	ctx := dataCtx{}
	if !inSubset && n.Space != nil && n.Space.Kind == "SIMPLE" && len(n.PackedBits) == 0 {
		ctx.dims, ctx.validate = n.Space.Dims, true
	}
	vals, err := p.parseData(ctx, 0)
	if !n.HasData {
		n.Data, n.HasData = vals, true
	} else {
		n.MoreData = append(n.MoreData, vals)
	}
	return err
}

func (p *parser) parseSpace() (*Space, error) {
	sc := &p.sc
	sc.skipBlanks()
	kind := sc.word()
	sp := &Space{Kind: kind}
	switch kind {
	case "SCALAR", "NULL":
		return sp, nil
	case "SIMPLE":
	default:
		return nil, sc.errf(sc.pos, "unknown dataspace kind %q", kind)
	}
	if err := sc.expect('{'); err != nil {
		return nil, err
	}
	var err error
	if sp.Dims, err = p.parseDimList(); err != nil {
		return nil, err
	}
	sc.skipSpace()
	if w := sc.word(); w != "/" {
		return nil, sc.errf(sc.pos, "expected '/' in dataspace, got %q", w)
	}
	if sp.MaxDims, err = p.parseDimList(); err != nil {
		return nil, err
	}
	if err := sc.expect('}'); err != nil {
		return nil, err
	}
	return sp, nil
}

// parseDimList parses "( a, b, H5S_UNLIMITED )".
func (p *parser) parseDimList() ([]uint64, error) {
	sc := &p.sc
	if err := sc.expect('('); err != nil {
		return nil, err
	}
	var out []uint64
	for {
		sc.skipSpace()
		switch sc.peek() {
		case ')':
			sc.pos++
			return out, nil
		case ',':
			sc.pos++
			continue
		}
		w := sc.word()
		if w == "" {
			return nil, sc.errf(sc.pos, "bad dimension list")
		}
		if w == "H5S_UNLIMITED" {
			out = append(out, Unlimited)
			continue
		}
		n, err := strconv.ParseUint(w, 10, 64)
		if err != nil {
			return nil, sc.errf(sc.pos, "bad dimension %q", w)
		}
		out = append(out, n)
	}
}

func (p *parser) parseSubset(n *Node, depth int) error {
	sc := &p.sc
	sub := &Subset{}
	n.Subset = sub
	for {
		sc.skipSpace()
		if sc.eof() {
			return sc.errf(sc.pos, "unterminated SUBSET")
		}
		switch sc.peek() {
		case '}':
			sc.pos++
			return nil
		case ';', ',':
			sc.pos++
			continue
		}
		at := sc.pos
		w := sc.word()
		switch w {
		case "START", "STRIDE", "COUNT", "BLOCK":
			l, err := p.parseDimList()
			if err != nil {
				return err
			}
			switch w {
			case "START":
				sub.Start = l
			case "STRIDE":
				sub.Stride = l
			case "COUNT":
				sub.Count = l
			case "BLOCK":
				sub.Block = l
			}
		case "DATA":
			if err := sc.expect('{'); err != nil {
				return err
			}
			if err := p.dataBlock(n, true, depth); err != nil {
				return err
			}
		case "":
			p.warnf(at, "skipping unexpected %q in SUBSET", string(sc.peek()))
			sc.pos++
		default:
			p.warnf(at, "skipping unknown SUBSET entry %q", w)
			sc.restOfLine()
		}
	}
}

// property records a property block / line on the node (or file).
func (p *parser) property(n *Node, key, text string, pos int) {
	if n == nil {
		switch key {
		case KindSuperBlock, "BOOT_BLOCK":
			sb := &Node{Kind: KindSuperBlock, Raw: text, Line: p.sc.line(pos), Props: parseKV(text)}
			p.file.SuperBlock = sb
			for _, kv := range sb.Props {
				if kv.Key == KindUserBlock {
					inner := strings.TrimSuffix(strings.TrimPrefix(kv.Text, "{"), "}")
					p.file.UserBlock = &Node{Kind: KindUserBlock, Raw: inner, Line: sb.Line, Props: parseKV(inner)}
				}
			}
		case KindUserBlock:
			p.file.UserBlock = &Node{Kind: KindUserBlock, Raw: text, Line: p.sc.line(pos), Props: parseKV(text)}
		default:
			p.file.Props = append(p.file.Props, Prop{key, text})
		}
		return
	}
	n.Props = append(n.Props, Prop{key, text})
	switch key {
	case "STORAGE_LAYOUT":
		kv := parseKV(text)
		if len(kv) > 0 {
			n.Layout = kv[0].Key
			switch n.Layout {
			case "MAPPING", "VIRTUAL":
				n.Layout = "VIRTUAL"
			case "CHUNKED":
				t := kv[0].Text
				if i, j := strings.IndexByte(t, '('), strings.IndexByte(t, ')'); i >= 0 && j > i {
					for _, f := range strings.Split(t[i+1:j], ",") {
						if d, err := strconv.ParseUint(strings.TrimSpace(f), 10, 64); err == nil {
							n.ChunkDims = append(n.ChunkDims, d)
						}
					}
				}
			}
		}
	case "FILTERS":
		for _, kv := range parseKV(text) {
			if kv.Key == "NONE" {
				continue
			}
			s := kv.Key
			if kv.Text != "" {
				s += " " + kv.Text
			}
			n.Filters = append(n.Filters, s)
		}
	case "FILLVALUE":
		for _, kv := range parseKV(text) {
			switch kv.Key {
			case "FILL_TIME":
				n.FillTime = kv.Text
			case "VALUE":
				n.FillValue = kv.Text
			}
		}
	case "ALLOCATION_TIME":
		n.AllocTime = strings.Join(strings.Fields(text), " ")
	case "PACKED_BITS":
		n.PackedBits = append(n.PackedBits, text)
	}
}

// parseKV splits the body of a property block into top-level entries. An
// entry is a line `KEY rest`; when the line opens more braces than it closes
// the entry extends to the line restoring the balance. Text is whitespace
// normalised.
func parseKV(body string) []Prop {
	var out []Prop
	depth := 0
	var cur *Prop
	for _, line := range strings.Split(body, "\n") {
		t := strings.TrimSpace(line)
		if t == "" {
			continue
		}
		net := 0
		if !strings.HasPrefix(t, "COMMENT ") {
			inq := false
			for i := 0; i < len(t); i++ {
				switch t[i] {
				case '\\':
					if inq {
						i++
					}
				case '"':
					inq = !inq
				case '{':
					if !inq {
						net++
					}
				case '}':
					if !inq {
						net--
					}
				}
			}
		}
		t = strings.Join(strings.Fields(t), " ")
		if depth == 0 || cur == nil {
			key, rest, _ := strings.Cut(t, " ")
			out = append(out, Prop{Key: key, Text: rest})
			cur = &out[len(out)-1]
		} else {
			if cur.Text != "" {
				cur.Text += " "
			}
			cur.Text += t
		}
		depth += net
		if depth < 0 {
			depth = 0
		}
	}
	return out
}

// ---------------------------------------------------------------------------
// Tree helpers

// JoinPath joins an absolute HDF5 path prefix and a link / attribute name.
// With an empty prefix the name is returned unchanged (top-level blocks of
// partial dumps are printed with their path as name).
func JoinPath(prefix, name string) string {
	switch {
	case prefix == "":
		return name
	case strings.HasSuffix(prefix, "/"):
		return prefix + name
	}
	return prefix + "/" + name
}

// Walk calls f for n and all its descendants in printed order. The path of n
// is JoinPath(prefix, n.Name), so Root.Walk("", f) yields "/", "/g1",
// "/g1/dset", ... and a path-addressed top-level block keeps its printed name.
// Attributes get the path of their owner joined with the attribute name;
// check n.Kind to tell them apart.
func (n *Node) Walk(prefix string, f func(path string, n *Node)) {
	n.walk(prefix, f, 0)
}

func (n *Node) walk(prefix string, f func(path string, n *Node), depth int) {
	if n == nil || depth > maxDepth+10 {
		return
	}
	p := JoinPath(prefix, n.Name)
	f(p, n)
	for _, c := range n.Children {
		c.walk(p, f, depth+1)
	}
}

// Walk visits every block of the file (and of no other file in Others).
func (f *File) Walk(fn func(path string, n *Node)) {
	if f == nil {
		return
	}
	for _, b := range f.Blocks {
		b.Walk("", fn)
	}
}

// Child returns the first direct child with the given kind ("" = any) and name.
func (n *Node) Child(kind, name string) *Node {
	if n == nil {
		return nil
	}
	for _, c := range n.Children {
		if (kind == "" || c.Kind == kind) && c.Name == name {
			return c
		}
	}
	return nil
}

// Attr returns the attribute with the given name, or nil.
func (n *Node) Attr(name string) *Node { return n.Child(KindAttribute, name) }

// Attributes returns the ATTRIBUTE children in printed order.
func (n *Node) Attributes() []*Node {
	var out []*Node
	if n == nil {
		return nil
	}
	for _, c := range n.Children {
		if c.Kind == KindAttribute {
			out = append(out, c)
		}
	}
	return out
}

// Lookup resolves an absolute path ("/g1/g1.1/dset1.1.1") to a non-attribute
// node. It first descends from Root, then looks for a top-level block printed
// with exactly that name (partial dumps). It does not follow HardlinkTo.
func (f *File) Lookup(p string) *Node {
	if f == nil {
		return nil
	}
	if f.Root != nil {
		n := f.Root
		ok := true
		for _, part := range strings.Split(strings.Trim(p, "/"), "/") {
			if part == "" {
				continue
			}
			var next *Node
			for _, c := range n.Children {
				if c.Kind != KindAttribute && c.Name == part {
					next = c
					break
				}
			}
			if next == nil {
				ok = false
				break
			}
			n = next
		}
		if ok {
			return n
		}
	}
	for _, b := range f.Blocks {
		if b.Kind != KindAttribute && b.Name == p {
			return b
		}
	}
	return nil
}

// NumElements returns the number of elements of the dataspace: 0 for NULL,
// 1 for SCALAR, the product of Dims for SIMPLE.
func (s *Space) NumElements() uint64 {
	if s == nil {
		return 0
	}
	switch s.Kind {
	case "SCALAR":
		return 1
	case "SIMPLE":
		n := uint64(1)
		for _, d := range s.Dims {
			n *= d
		}
		return n
	}
	return 0
}

// ExpectedCount returns the number of top-level values a complete DATA block
// of this node holds: the dataspace size or, for SUBSET dumps, the product of
// COUNT*BLOCK. ok is false when the node has no dataspace.
func (n *Node) ExpectedCount() (count uint64, ok bool) {
	if n == nil || n.Space == nil {
		return 0, false
	}
	if n.Subset != nil && len(n.Subset.Count) > 0 {
		c := uint64(1)
		for i, k := range n.Subset.Count {
			c *= k
			if i < len(n.Subset.Block) {
				c *= n.Subset.Block[i]
			}
		}
		return c, true
	}
	return n.Space.NumElements(), true
}

// DataComplete reports whether the node has a DATA block whose number of
// top-level values equals ExpectedCount.
func (n *Node) DataComplete() bool {
	want, ok := n.ExpectedCount()
	return ok && n.HasData && uint64(len(n.Data)) == want
}

// ---------------------------------------------------------------------------
// Classification

// Classes returned by Classify.
const (
	ClassFull       = "full"
	ClassHeaderOnly = "header-only"
	ClassPartial    = "partial"
	ClassOther      = "other"
)

// Classify describes what kind of dump f is:
//
//   - "full": there is a GROUP "/" block, nothing else addressed by path, no
//     SUBSET / packed-bits output, at least one DATASET or ATTRIBUTE has data
//     (or there are none at all), and every DATASET / ATTRIBUTE that has a DATA
//     block holds exactly as many top-level values as its dataspace has
//     elements (NULL = 0, SCALAR = 1).
//   - "header-only": GROUP "/" present but no DATASET has data (absent DATA
//     block as with h5dump -H / -A, or an empty `DATA { }` for a non-empty
//     dataspace as with -y -o / -b); when there are no datasets, the same rule
//     is applied to attributes. Attribute data may still be present (-A).
//   - "partial": object blocks addressed by path directly under the HDF5 block
//     (h5dump -d/-g/-a/-t/-l/-N, also with a SUPER_BLOCK), multi-file dumps,
//     SUBSET dumps and packed-bits dumps.
//   - "other": no object blocks at all (error transcripts, h5dump -n contents
//     listings, other tools' output, empty `HDF5 "f" { }`), or a count mismatch.
func Classify(f *File) string {
	if f == nil || len(f.Blocks) == 0 {
		return ClassOther
	}
	if f.Root == nil || len(f.Others) > 0 {
		return ClassPartial
	}
	for _, b := range f.Blocks {
		if b != f.Root {
			return ClassPartial
		}
	}
	var nDS, nDSData, nAttr, nAttrData, bad int
	special := false
	f.Root.Walk("", func(_ string, n *Node) {
		if n.Subset != nil || len(n.PackedBits) > 0 || len(n.MoreData) > 0 {
			special = true
		}
		if (n.Kind != KindDataset && n.Kind != KindAttribute) || n.Space == nil {
			return
		}
		want, _ := n.ExpectedCount()
		state := 0 // 0 = no usable data, 1 = complete, 2 = mismatch
		if n.HasData {
			switch {
			case uint64(len(n.Data)) == want:
				state = 1
			case len(n.Data) > 0:
				state = 2
			}
		}
		if state == 2 {
			bad++
		}
		if n.Kind == KindDataset {
			nDS++
			if state == 1 {
				nDSData++
			}
		} else {
			nAttr++
			if state == 1 {
				nAttrData++
			}
		}
	})
	switch {
	case special:
		return ClassPartial
	case bad > 0:
		return ClassOther
	case nDS > 0 && nDSData == 0:
		return ClassHeaderOnly
	case nDS == 0 && nAttr > 0 && nAttrData == 0:
		return ClassHeaderOnly
	}
	// A dataset with an empty DATA block for a non-empty space next to
	// datasets with data means the tool failed to read it.
	mixed := false
	f.Root.Walk("", func(_ string, n *Node) {
		if (n.Kind == KindDataset || n.Kind == KindAttribute) && n.Space != nil && n.HasData && !n.DataComplete() {
			mixed = true
		}
	})
	if mixed {
		return ClassOther
	}
	return ClassFull
}

// FileNameFor returns the base name of the HDF5 file the dump was taken from:
// the name inside `HDF5 "<name>"` without directories ('/' or '\\'). It returns
// "" when f is nil or has no name (not a DDL). ddlFileName is not needed for
// that and is ignored; see RepackSourceFor for the one case where it matters.
func FileNameFor(ddlFileName string, f *File) string {
	if f == nil || f.Name == "" {
		return ""
	}
	return path.Base(strings.ReplaceAll(f.Name, "\\", "/"))
}

// RepackSourceFor handles expected outputs of the h5repack / h5copy test
// suites, which dump a freshly written copy named "out-<label>.<file>": it
// returns <file>, the name of the input the copy was made from, using the DDL
// file name ("<label>.<file>.ddl" or "<file>-<label>[-opts].ddl") to split
// label and file. It returns "" for every other dump. Note that such a dump describes
// the copy: data, types and attributes equal the source, but STORAGE_LAYOUT,
// FILTERS and link structure may have been changed by the tool.
func RepackSourceFor(ddlFileName string, f *File) string {
	name := FileNameFor(ddlFileName, f)
	rest, ok := strings.CutPrefix(name, "out-")
	if !ok {
		return ""
	}
	base := strings.TrimSuffix(path.Base(strings.ReplaceAll(ddlFileName, "\\", "/")), ".ddl")
	for i := 0; i < len(rest); i++ {
		if rest[i] != '.' {
			continue
		}
		label, file := rest[:i], rest[i+1:]
		if !strings.Contains(file, ".") {
			break
		}
		if base == label+"."+file || base == file+"-"+label || strings.HasPrefix(base, file+"-"+label+"-") || strings.HasSuffix(base, "."+file) {
			return file
		}
	}
	return ""
}

// ---------------------------------------------------------------------------
// Post pass: refine leaf value kinds using the datatype.

// ResolveType follows Class "named" types to the committed datatype printed
// elsewhere in the same dump (matched by absolute path, or by the name as
// printed). It returns nil when the target is not part of the dump, and t
// itself when t is not a named type.
func (f *File) ResolveType(t *Type) *Type {
	for i := 0; t != nil && t.Class == "named" && i < 8; i++ {
		nt, ok := f.named[t.Path]
		if !ok {
			return nil
		}
		t = nt
	}
	return t
}

func (f *File) retype() {
	f.named = map[string]*Type{}
	f.Walk(func(p string, n *Node) {
		if n.Kind == KindDatatype && n.Type != nil {
			if _, dup := f.named[n.Name]; !dup {
				f.named[n.Name] = n.Type
			}
			f.named[p] = n.Type
		}
	})
	resolve := f.ResolveType
	var fix func(v *Value, t *Type, depth int)
	fix = func(v *Value, t *Type, depth int) {
		t = resolve(t)
		if t == nil || depth > maxDepth {
			return
		}
		switch t.Class {
		case "enum":
			if v.Kind == KindWord || v.Kind == KindNum || v.Kind == KindHex {
				for _, nm := range t.EnumNames {
					if nm == v.Text {
						v.Kind = KindEnum
						break
					}
				}
			}
		case "opaque":
			if (v.Kind == KindWord || v.Kind == KindNum) && reHex1.MatchString(v.Text) {
				v.Kind = KindHex
			}
		case "compound":
			if v.Kind == KindCompound && len(v.Elems) == len(t.Members) {
				for i := range v.Elems {
					fix(&v.Elems[i], t.Members[i].Type, depth+1)
				}
			}
		case "array", "vlen":
			if v.Kind == KindArray || v.Kind == KindVlen {
				for i := range v.Elems {
					fix(&v.Elems[i], t.Base, depth+1)
				}
			}
		}
	}
	needs := func(t *Type) bool {
		// cheap pre-check: only walk data when the type can contain enum/opaque/named
		var has func(t *Type, d int) bool
		has = func(t *Type, d int) bool {
			if t == nil || d > maxDepth {
				return false
			}
			switch t.Class {
			case "enum", "opaque", "named":
				return true
			case "compound":
				for _, m := range t.Members {
					if has(m.Type, d+1) {
						return true
					}
				}
			case "array", "vlen":
				return has(t.Base, d+1)
			}
			return false
		}
		return has(t, 0)
	}
	f.Walk(func(_ string, n *Node) {
		if n.Type == nil || !n.HasData || !needs(n.Type) {
			return
		}
		for i := range n.Data {
			fix(&n.Data[i], n.Type, 0)
		}
		for _, d := range n.MoreData {
			for i := range d {
				fix(&d[i], n.Type, 0)
			}
		}
	})
}
