package specdec

import (
	"bytes"
	"compress/gzip"
	"compress/zlib"
	"fmt"
	"io"
)

// elemSize returns the dataset element size in bytes.
func (o *Object) elemSize() uint64 {
	if o.Type == nil {
		return 0
	}
	return uint64(o.Type.Size)
}

// finishLayout validates the layout of a dataset against its dataspace and
// datatype, enumerates the chunk index and records the raw data extents.
func (f *File) finishLayout(o *Object, owner string) {
	l := o.Layout
	at := f.abs(o.Addr)
	es := o.elemSize()
	n := o.Space.NumElements()
	total, ovf := mulOverflow(n, es)
	switch l.Class {
	case "compact":
		if o.Type != nil && o.Space.Present && !ovf && uint64(len(l.CompactData)) != total {
			f.issue("size-field:layout", at, "%s: compact data of %d bytes, dataspace x datatype = %d", owner, len(l.CompactData), total)
		}
	case "contiguous":
		if len(o.External) > 0 {
			return
		}
		if f.isUndef(l.Address) {
			return
		}
		size := l.Size
		if l.Version < 3 {
			if ovf {
				f.issue("size-field:layout", at, "%s: dataset size overflows", owner)
				return
			}
			size = total
			l.Size = size
		} else if o.Type != nil && o.Space.Present && !ovf && size != total {
			f.issue("size-field:layout", at, "%s: contiguous size %d, dataspace x datatype = %d", owner, size, total)
		}
		a := f.abs(l.Address)
		f.extent(a, a+size, "data-contiguous", owner)
	case "chunked":
		if o.Type == nil || !o.Space.Present {
			l.ChunksErr = "dataset without datatype or dataspace"
			return
		}
		rank := len(o.Space.Dims)
		l.KeyDims = len(l.ChunkDims)
		if l.Version <= 3 && len(l.ChunkDims) == rank && rank > 0 {
			f.issue("chunk-dims-no-elemsize:layout", at, "%s: chunked layout has %d dimensions for a rank %d dataspace; the trailing element-size dimension is missing", owner, len(l.ChunkDims), rank)
			if f.tolerate(TolChunkNoElemSize) {
				l.ChunkShape = nil
				for _, d := range l.ChunkDims {
					l.ChunkShape = append(l.ChunkShape, uint64(d))
				}
			}
		}
		if len(l.ChunkShape) != rank {
			f.issue("size-field:layout", at, "%s: chunk rank %d, dataspace rank %d", owner, len(l.ChunkShape), rank)
			l.ChunksErr = "chunk rank differs from dataspace rank"
			return
		}
		for _, d := range l.ChunkShape {
			if d == 0 {
				f.issue("size-field:layout", at, "%s: chunk dimension 0", owner)
				l.ChunksErr = "zero chunk dimension"
				return
			}
		}
		if last := uint64(l.ChunkDims[len(l.ChunkDims)-1]); last != es && len(l.ChunkDims) == rank+1 {
			f.issue("size-field:layout", at, "%s: chunk element-size dimension %d, datatype size %d", owner, last, es)
		}
		if err := f.enumerateChunks(o, owner); err != nil {
			l.ChunksErr = err.Error()
			if isUnsupported(err) {
				l.Unsupported = err.Error()
			} else {
				f.issue("decode:chunk-index", at, "%s: %v", owner, err)
			}
		}
		for _, ch := range l.Chunks {
			a := f.abs(ch.Addr)
			if a == Undef {
				continue
			}
			f.extent(a, a+ch.Size, "data-chunk", owner)
		}
	case "virtual":
		f.issue("unsupported:layout-virtual", at, "%s: virtual dataset", owner)
		l.Unsupported = "unsupported: virtual dataset"
	}
}

func (l *Layout) chunkBytes(es uint64) (uint64, bool) {
	n := es
	for _, d := range l.ChunkShape {
		var o bool
		n, o = mulOverflow(n, d)
		if o {
			return 0, false
		}
	}
	return n, true
}

// chunkGrid returns the number of chunks per dimension for dims.
func chunkGrid(dims, shape []uint64) []uint64 {
	g := make([]uint64, len(dims))
	for i := range dims {
		g[i] = (dims[i] + shape[i] - 1) / shape[i]
	}
	return g
}

func (f *File) enumerateChunks(o *Object, owner string) error {
	l := o.Layout
	es := o.elemSize()
	cbytes, ok := l.chunkBytes(es)
	if !ok || cbytes == 0 {
		return fmt.Errorf("chunk byte size overflows or is zero")
	}
	if f.isUndef(l.BTreeAddr) {
		return nil // no storage allocated
	}
	rank := len(l.ChunkShape)
	if l.Version <= 3 {
		w := &chunkWalk{f: f, o: o, owner: owner, seen: map[uint64]bool{}, rank: rank}
		w.node(l.BTreeAddr, -1, 0)
		w.finish()
		return nil
	}
	// version 4 index types
	maxd := o.Space.Dims
	if len(o.Space.MaxDims) == rank {
		md := make([]uint64, rank)
		for i := range md {
			md[i] = o.Space.MaxDims[i]
			if md[i] == Undef || md[i] < o.Space.Dims[i] {
				md[i] = o.Space.Dims[i]
			}
		}
		maxd = md
	}
	grid := chunkGrid(maxd, l.ChunkShape)
	nchunks := uint64(1)
	for _, g := range grid {
		var ov bool
		nchunks, ov = mulOverflow(nchunks, g)
		if ov {
			return fmt.Errorf("chunk count overflows")
		}
	}
	unlinear := func(idx uint64) []uint64 {
		off := make([]uint64, rank)
		for i := rank - 1; i >= 0; i-- {
			if grid[i] == 0 {
				continue
			}
			off[i] = (idx % grid[i]) * l.ChunkShape[i]
			idx /= grid[i]
		}
		return off
	}
	filtered := len(o.Filters) > 0
	switch l.IndexType {
	case 1:
		ch := Chunk{Offset: make([]uint64, rank), Addr: l.BTreeAddr, Size: cbytes}
		if l.V4Flags&2 != 0 {
			ch.Size = l.SingleFilteredSize
			ch.FilterMask = l.SingleFilterMask
		}
		l.Chunks = append(l.Chunks, ch)
	case 2:
		if nchunks > uint64(f.Size)/cbytes+1 {
			return fmt.Errorf("implicit index: %d chunks of %d bytes exceed the file", nchunks, cbytes)
		}
		for i := uint64(0); i < nchunks; i++ {
			l.Chunks = append(l.Chunks, Chunk{Offset: unlinear(i), Addr: l.BTreeAddr + i*cbytes, Size: cbytes})
		}
	case 3:
		return f.fixedArrayChunks(o, owner, nchunks, cbytes, filtered, unlinear)
	case 4:
		return f.extensibleArrayChunks(o, owner, cbytes, filtered)
	case 5:
		return f.btree2Chunks(o, owner, cbytes, filtered)
	default:
		f.issue(fmt.Sprintf("unsupported:layout-v4-index-%d", l.IndexType), f.abs(o.Addr), "%s: chunk index type %d", owner, l.IndexType)
		return unsupportedErr{fmt.Sprintf("unsupported: version 4 chunk index type %d", l.IndexType)}
	}
	return nil
}

type rawChunk struct {
	size uint32
	mask uint32
	offs []uint64
	addr uint64
	koff uint64
}

type chunkWalk struct {
	f     *File
	o     *Object
	owner string
	seen  map[uint64]bool
	rank  int
	raw   []rawChunk
	nodes int
}

func (w *chunkWalk) node(addr uint64, expectLevel, depth int) {
	f := w.f
	a := f.abs(addr)
	if a == Undef {
		f.issue("decode:TREE:undefined-address", 0, "%s", w.owner)
		return
	}
	if w.seen[a] || depth > 64 {
		f.issue("decode:TREE:loop", a, "%s: B-tree node reached twice", w.owner)
		return
	}
	w.seen[a] = true
	if w.nodes++; w.nodes > 1<<22 {
		return
	}
	O := uint64(f.Super.OffsetSize)
	hl := 8 + 2*O
	head, err := f.read(a, hl)
	if err != nil {
		f.issue("decode:TREE:read", a, "%s: %v", w.owner, err)
		return
	}
	c := f.cursor(head, a, "TREE")
	if !c.sig("TREE") {
		f.issue("bad-signature:TREE", a, "%s: chunk B-tree node starts with % x", w.owner, head[:4])
		f.issue("decode:TREE:signature", a, "%s", w.owner)
		return
	}
	nt := c.u8("type")
	level := int(c.u8("count"))
	used := uint64(c.u16("count"))
	c.addr()
	c.addr()
	if nt != 1 {
		f.issue("node-type:TREE", a, "%s: chunk B-tree node has type %d", w.owner, nt)
		f.issue("decode:TREE:node-type", a, "%s", w.owner)
		return
	}
	if expectLevel >= 0 && level != expectLevel {
		f.issue("level:TREE", a, "%s: node level %d, expected %d", w.owner, level, expectLevel)
	}
	kd := w.o.Layout.KeyDims
	if kd < w.rank {
		kd = w.rank
	}
	ksz := 8 + 8*uint64(kd)
	K := uint64(f.Super.ChunkInternalK)
	full := hl + 2*K*O + (2*K+1)*ksz
	usedLen := hl + used*O + (used+1)*ksz
	if used > 2*K {
		f.issue("entries-exceed-2k:TREE", a, "%s: %d entries with K=%d", w.owner, used, K)
		full = usedLen
	}
	f.extent(a, a+full, "TREE", w.owner)
	body, err := f.read(a+hl, usedLen-hl)
	if err != nil {
		f.issue("decode:TREE:read", a, "%s: %v", w.owner, err)
		return
	}
	bc := f.cursor(body, a+hl, "TREE")
	for i := uint64(0); i < used; i++ {
		var rc rawChunk
		rc.koff = bc.off()
		rc.size = bc.u32("size")
		rc.mask = bc.u32("flags")
		for d := 0; d < kd; d++ {
			rc.offs = append(rc.offs, bc.u64("offset"))
		}
		rc.addr = bc.addr()
		if bc.err != nil {
			f.issue("decode:TREE:truncated", a, "%s: %v", w.owner, bc.err)
			return
		}
		if level > 0 {
			w.node(rc.addr, level-1, depth+1)
		} else {
			w.raw = append(w.raw, rc)
		}
	}
}

func (w *chunkWalk) finish() {
	f, l := w.f, w.o.Layout
	dims := w.o.Space.Dims
	// Are the keys element offsets (specification) or chunk indices?
	aligned := true
	scaledOK := true
	for _, rc := range w.raw {
		for d := 0; d < w.rank; d++ {
			if rc.offs[d]%l.ChunkShape[d] != 0 {
				aligned = false
			}
			g := (dims[d] + l.ChunkShape[d] - 1) / l.ChunkShape[d]
			if rc.offs[d] >= g && !(g == 0 && rc.offs[d] == 0) {
				scaledOK = false
			}
		}
	}
	scaled := false
	if !aligned {
		at := f.abs(l.BTreeAddr)
		if scaledOK {
			f.issue("chunk-key-scaled", at, "%s: chunk B-tree keys are not multiples of the chunk dimensions; they look like chunk indices", w.owner)
			if f.tolerate(TolChunkKeyScaled) {
				scaled = true
			}
		} else {
			f.issue("chunk-key-unaligned:TREE", at, "%s: chunk B-tree key offsets are not multiples of the chunk dimensions", w.owner)
		}
	}
	for _, rc := range w.raw {
		ch := Chunk{Addr: rc.addr, Size: uint64(rc.size), FilterMask: rc.mask}
		ch.Offset = append([]uint64{}, rc.offs[:w.rank]...)
		if scaled {
			for d := range ch.Offset {
				ch.Offset[d] *= l.ChunkShape[d]
			}
		}
		if len(rc.offs) > w.rank && rc.offs[w.rank] != 0 {
			f.issue("chunk-key:TREE", rc.koff, "%s: element-size dimension of the chunk offset is %d, not 0", w.owner, rc.offs[w.rank])
		}
		l.Chunks = append(l.Chunks, ch)
	}
}

// fixedArrayChunks enumerates a version 4 fixed array chunk index.
func (f *File) fixedArrayChunks(o *Object, owner string, nchunks, cbytes uint64, filtered bool, unlinear func(uint64) []uint64) error {
	l := o.Layout
	O, L := uint64(f.Super.OffsetSize), uint64(f.Super.LengthSize)
	a := f.abs(l.BTreeAddr)
	hl := 4 + 1 + 1 + 1 + 1 + L + O + 4
	buf, err := f.read(a, hl)
	if err != nil {
		return fmt.Errorf("fixed array header: %v", err)
	}
	c := f.cursor(buf, a, "FAHD")
	if !c.sig("FAHD") {
		f.issue("bad-signature:FAHD", a, "%s: fixed array header starts with % x", owner, buf[:4])
		return fmt.Errorf("fixed array header signature")
	}
	if v := c.u8("version"); v != 0 {
		f.issue("version:FAHD", a, "fixed array version %d", v)
	}
	client := c.u8("type")
	esz := uint64(c.u8("size"))
	pageBits := uint(c.u8("size"))
	nelem := c.length("count")
	dblk := c.addr()
	end := c.pos
	stored := c.u32("checksum")
	f.extent(a, a+hl, "fixed-array", owner)
	f.checksum("FAHD", a, buf[:end], stored)
	if (client == 1) != filtered {
		f.issue("client-id:FAHD", a, "%s: client id %d, dataset filtered=%v", owner, client, filtered)
	}
	filt := client == 1
	minE := O
	if filt {
		minE = O + 4 + 1
	}
	if esz < minE || esz > O+12 || pageBits > 32 {
		return fmt.Errorf("fixed array entry size %d / page bits %d", esz, pageBits)
	}
	if nelem != nchunks {
		f.issue("size-field:FAHD", a, "%s: %d entries, dataspace needs %d chunks", owner, nelem, nchunks)
	}
	if f.isUndef(dblk) {
		return nil
	}
	if nelem > uint64(f.Size)/esz {
		return fmt.Errorf("fixed array of %d entries exceeds the file", nelem)
	}
	da := f.abs(dblk)
	pageN := uint64(1) << pageBits
	paged := nelem > pageN
	pre := 4 + 1 + 1 + O
	var bitmapLen, npages uint64
	if paged {
		npages = (nelem + pageN - 1) / pageN
		bitmapLen = (npages + 7) / 8
	}
	var size uint64
	if paged {
		size = pre + bitmapLen + 4 + nelem*esz + npages*4
	} else {
		size = pre + nelem*esz + 4
	}
	db, err := f.read(da, size)
	if err != nil {
		return fmt.Errorf("fixed array data block: %v", err)
	}
	f.extent(da, da+size, "fixed-array", owner)
	dc := f.cursor(db, da, "FADB")
	if !dc.sig("FADB") {
		f.issue("bad-signature:FADB", da, "%s: fixed array data block starts with % x", owner, db[:4])
		return fmt.Errorf("fixed array data block signature")
	}
	dc.u8("version")
	dc.u8("type")
	if ha := dc.addr(); ha != l.BTreeAddr {
		f.issue("back-pointer:FADB", da, "%s: header address %d, expected %d", owner, ha, l.BTreeAddr)
	}
	readElems := func(first, count uint64) {
		for i := uint64(0); i < count; i++ {
			ch := Chunk{Size: cbytes}
			ch.Addr = dc.addr()
			if filt {
				ch.Size = dc.uN(int(esz-O-4), "size")
				ch.FilterMask = dc.u32("flags")
			}
			if dc.err != nil {
				return
			}
			if f.isUndef(ch.Addr) {
				continue
			}
			ch.Offset = unlinear(first + i)
			l.Chunks = append(l.Chunks, ch)
		}
	}
	if !paged {
		readElems(0, nelem)
		e := dc.pos
		st := dc.u32("checksum")
		if dc.err != nil {
			return dc.err
		}
		f.checksum("FADB", da, db[:e], st)
		return nil
	}
	bitmap := dc.bytes(int(bitmapLen))
	e := dc.pos
	st := dc.u32("checksum")
	if dc.err != nil {
		return dc.err
	}
	f.checksum("FADB", da, db[:e], st)
	for p := uint64(0); p < npages; p++ {
		cnt := pageN
		if (p+1)*pageN > nelem {
			cnt = nelem - p*pageN
		}
		ps := dc.pos
		if bitmap[p/8]&(0x80>>(p%8)) == 0 {
			dc.skip(int(cnt*esz+4), "")
			continue
		}
		readElems(p*pageN, cnt)
		pe := dc.pos
		pst := dc.u32("checksum")
		if dc.err != nil {
			return dc.err
		}
		f.checksum("FADB", da+uint64(ps), db[ps:pe], pst)
	}
	return dc.err
}

// btree2Chunks enumerates a version 4 "v2 B-tree" chunk index.
func (f *File) btree2Chunks(o *Object, owner string, cbytes uint64, filtered bool) error {
	l := o.Layout
	O := f.Super.OffsetSize
	rank := len(l.ChunkShape)
	var perr error
	typ, ok := f.walkBTree2(l.BTreeAddr, owner, -1, func(rec []byte, off uint64) {
		c := f.cursor(rec, off, "BTLF")
		ch := Chunk{Size: cbytes}
		ch.Addr = c.addr()
		if filtered {
			n := len(rec) - O - 4 - 8*rank
			if n < 1 || n > 8 {
				perr = fmt.Errorf("filtered chunk record of %d bytes", len(rec))
				return
			}
			ch.Size = c.uN(n, "size")
			ch.FilterMask = c.u32("flags")
		}
		for d := 0; d < rank; d++ {
			ch.Offset = append(ch.Offset, c.u64("offset")*l.ChunkShape[d])
		}
		if c.err != nil {
			perr = c.err
			return
		}
		l.Chunks = append(l.Chunks, ch)
	})
	if !ok {
		return fmt.Errorf("v2 B-tree chunk index not decodable")
	}
	want := 10
	if filtered {
		want = 11
	}
	if typ != want {
		f.issue("record-type:BTHD", f.abs(l.BTreeAddr), "%s: chunk index B-tree type %d, expected %d", owner, typ, want)
	}
	return perr
}

// unfilter undoes the filter pipeline on one chunk.
func (f *File) unfilter(data []byte, filters []Filter, mask uint32, es uint64, at uint64) ([]byte, error) {
	for i := len(filters) - 1; i >= 0; i-- {
		if i < 32 && mask&(1<<uint(i)) != 0 {
			continue
		}
		fl := filters[i]
		switch fl.ID {
		case 1:
			out, err := f.inflate(data, at)
			if err != nil {
				return nil, err
			}
			data = out
		case 2:
			sz := es
			if len(fl.ClientData) > 0 {
				sz = uint64(fl.ClientData[0])
			}
			data = unshuffle(data, int(sz))
		case 3:
			if len(data) < 4 {
				return nil, fmt.Errorf("fletcher32: chunk of %d bytes", len(data))
			}
			n := len(data) - 4
			stored := uint32(data[n]) | uint32(data[n+1])<<8 | uint32(data[n+2])<<16 | uint32(data[n+3])<<24
			calc := Fletcher32(data[:n])
			rev := (calc&0x00ff00ff)<<8 | (calc&0xff00ff00)>>8
			if stored != calc && stored != rev {
				f.issue("bad-checksum:fletcher32", at, "stored %#08x computed %#08x", stored, calc)
				return nil, fmt.Errorf("fletcher32 mismatch: stored %#08x computed %#08x", stored, calc)
			}
			if stored == calc {
				f.Stats["fletcher32-ok"]++
			} else {
				f.Stats["fletcher32-ok-byteswapped"]++
			}
			data = data[:n]
		default:
			return nil, unsupportedErr{fmt.Sprintf("unsupported: filter %d (%s)", fl.ID, fl.Name)}
		}
	}
	return data, nil
}

func (f *File) inflate(data []byte, at uint64) ([]byte, error) {
	limit := int64(len(data))*1100 + 1<<20
	if len(data) >= 2 && data[0] == 0x1f && data[1] == 0x8b {
		f.issue("gzip-container", at, "deflate filter data uses the gzip container instead of zlib")
		if !f.tolerate(TolGzipContainer) {
			return nil, fmt.Errorf("deflate: gzip container instead of zlib")
		}
		zr, err := gzip.NewReader(bytes.NewReader(data))
		if err != nil {
			return nil, fmt.Errorf("deflate(gzip): %v", err)
		}
		out, err := io.ReadAll(io.LimitReader(zr, limit))
		if err != nil {
			return nil, fmt.Errorf("deflate(gzip): %v", err)
		}
		return out, nil
	}
	zr, err := zlib.NewReader(bytes.NewReader(data))
	if err != nil {
		return nil, fmt.Errorf("deflate: %v", err)
	}
	out, err := io.ReadAll(io.LimitReader(zr, limit))
	if err != nil {
		return nil, fmt.Errorf("deflate: %v", err)
	}
	return out, nil
}

func unshuffle(in []byte, es int) []byte {
	if es <= 1 || len(in) < es {
		return in
	}
	n := len(in) / es
	out := make([]byte, len(in))
	for j := 0; j < es; j++ {
		src := in[j*n : (j+1)*n]
		for i, b := range src {
			out[i*es+j] = b
		}
	}
	copy(out[n*es:], in[n*es:])
	return out
}

// ReadData returns the raw element bytes of dataset o in row-major order.
func (f *File) ReadData(o *Object) (data []byte, err error) {
	defer func() {
		if p := recover(); p != nil {
			data, err = nil, fmt.Errorf("specdec: panic in ReadData: %v", p)
		}
	}()
	if o == nil || o.Layout == nil {
		return nil, fmt.Errorf("not a dataset")
	}
	if o.Type == nil || !o.Space.Present {
		return nil, fmt.Errorf("dataset without decodable datatype or dataspace")
	}
	if o.PipelineErr != "" {
		return nil, fmt.Errorf("filter pipeline not decodable: %s", o.PipelineErr)
	}
	l := o.Layout
	es := o.elemSize()
	n := o.Space.NumElements()
	total, ovf := mulOverflow(n, es)
	if ovf || total > 1<<28+1024*uint64(f.Size) {
		return nil, fmt.Errorf("dataset of %d x %d bytes is too large for this file", n, es)
	}
	fillOut := func() []byte {
		out := make([]byte, total)
		if o.FillDefined && uint64(len(o.Fill)) == es && es > 0 && !allZero(o.Fill) {
			if total >= es {
				copy(out, o.Fill)
				for n := es; n < total; n *= 2 {
					copy(out[n:], out[:n])
				}
			}
		}
		return out
	}
	switch l.Class {
	case "compact":
		if uint64(len(l.CompactData)) < total {
			return nil, fmt.Errorf("compact data has %d bytes, need %d", len(l.CompactData), total)
		}
		return append([]byte{}, l.CompactData[:total]...), nil
	case "contiguous":
		if len(o.External) > 0 {
			return nil, unsupportedErr{"unsupported: external raw data storage"}
		}
		if f.isUndef(l.Address) || total == 0 {
			return fillOut(), nil
		}
		if l.Version >= 3 && l.Size < total {
			return nil, fmt.Errorf("contiguous storage of %d bytes, need %d", l.Size, total)
		}
		return f.read(f.abs(l.Address), total)
	case "chunked":
		if l.ChunksErr != "" {
			if l.Unsupported != "" {
				return nil, unsupportedErr{l.Unsupported}
			}
			return nil, fmt.Errorf("chunk index: %s", l.ChunksErr)
		}
		out := fillOut()
		if total == 0 {
			return out, nil
		}
		cbytes, ok := l.chunkBytes(es)
		if !ok || cbytes > 1<<28+1024*uint64(f.Size) {
			return nil, fmt.Errorf("chunk size too large")
		}
		dims := o.Space.Dims
		rank := len(dims)
		for ci := range l.Chunks {
			ch := &l.Chunks[ci]
			a := f.abs(ch.Addr)
			if a == Undef {
				continue
			}
			raw, err := f.read(a, ch.Size)
			if err != nil {
				return nil, fmt.Errorf("chunk %v: %v", ch.Offset, err)
			}
			partial := false
			for d := 0; d < rank && d < len(ch.Offset); d++ {
				if ch.Offset[d]+l.ChunkShape[d] > dims[d] {
					partial = true
				}
			}
			if len(o.Filters) > 0 && !(l.Version == 4 && l.V4Flags&1 != 0 && partial) {
				raw, err = f.unfilter(raw, o.Filters, ch.FilterMask, es, a)
				if err != nil {
					return nil, fmt.Errorf("chunk %v: %w", ch.Offset, err)
				}
			}
			if uint64(len(raw)) != cbytes {
				return nil, fmt.Errorf("chunk %v has %d bytes after filtering, expected %d", ch.Offset, len(raw), cbytes)
			}
			outside := false
			for d := 0; d < rank; d++ {
				if ch.Offset[d] >= dims[d] {
					outside = true
				}
			}
			if outside {
				continue
			}
			copyChunk(out, raw, dims, l.ChunkShape, ch.Offset, es)
		}
		return out, nil
	case "virtual":
		return nil, unsupportedErr{"unsupported: virtual dataset"}
	}
	return nil, fmt.Errorf("layout class %q", l.Class)
}

// copyChunk copies the part of one chunk that lies inside the dataset.
func copyChunk(out, chunk []byte, dims, shape, off []uint64, es uint64) {
	rank := len(dims)
	if rank == 0 {
		copy(out, chunk)
		return
	}
	// extent of the chunk inside the dataset per dimension
	cnt := make([]uint64, rank)
	for d := 0; d < rank; d++ {
		cnt[d] = shape[d]
		if off[d]+cnt[d] > dims[d] {
			cnt[d] = dims[d] - off[d]
		}
	}
	rowLen := cnt[rank-1] * es
	idx := make([]uint64, rank) // position inside the chunk (last dim always 0)
	for {
		var src, dst uint64
		for d := 0; d < rank; d++ {
			src = src*shape[d] + idx[d]
			dst = dst*dims[d] + off[d] + idx[d]
		}
		src *= es
		dst *= es
		copy(out[dst:dst+rowLen], chunk[src:src+rowLen])
		d := rank - 2
		for ; d >= 0; d-- {
			idx[d]++
			if idx[d] < cnt[d] {
				break
			}
			idx[d] = 0
		}
		if d < 0 {
			break
		}
	}
}

// CheckExtents validates the recorded extents against the file bounds, the
// end-of-file address and each other.
func (f *File) CheckExtents() []Issue {
	var out []Issue
	type ek struct {
		s, e uint64
		k    string
	}
	seen := map[ek]bool{}
	var list []Extent
	eof := f.Super.EOFAddress // absolute file address
	for _, e := range f.Extents {
		k := ek{e.Start, e.End, e.Kind}
		if seen[k] {
			continue
		}
		seen[k] = true
		if e.End > uint64(f.Size) || e.Start > uint64(f.Size) {
			out = append(out, Issue{Key: "oob:" + e.Kind, Addr: e.Start, Detail: fmt.Sprintf("[%d,%d) of %s outside the file of %d bytes", e.Start, e.End, e.Owner, f.Size)})
		}
		if !f.isUndef(f.Super.EOFAddress) && e.End > eof {
			out = append(out, Issue{Key: "beyond-eof:" + e.Kind, Addr: e.Start, Detail: fmt.Sprintf("[%d,%d) of %s beyond the end-of-file address %d", e.Start, e.End, e.Owner, eof)})
		}
		if e.End > e.Start {
			list = append(list, e)
		}
	}
	sortExtents(list)
	// sweep: compare each extent with the following ones that start before its end
	reported := 0
	for i := 0; i < len(list) && reported < 1000; i++ {
		for j := i + 1; j < len(list) && list[j].Start < list[i].End; j++ {
			a, b := list[i].Kind, list[j].Kind
			if b < a {
				a, b = b, a
			}
			out = append(out, Issue{Key: "overlap:" + a + ":" + b, Addr: list[j].Start,
				Detail: fmt.Sprintf("%s [%d,%d) of %s overlaps %s [%d,%d) of %s", list[i].Kind, list[i].Start, list[i].End, list[i].Owner, list[j].Kind, list[j].Start, list[j].End, list[j].Owner)})
			reported++
			if reported >= 1000 {
				break
			}
		}
	}
	return out
}
