package specdec

import "sort"

func sortExtents(l []Extent) {
	sort.Slice(l, func(i, j int) bool {
		if l[i].Start != l[j].Start {
			return l[i].Start < l[j].Start
		}
		if l[i].End != l[j].End {
			return l[i].End < l[j].End
		}
		return l[i].Kind < l[j].Kind
	})
}
