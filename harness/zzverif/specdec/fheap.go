package specdec

import "fmt"

type fhBlock struct {
	heapOff uint64 // offset of the block in the heap's address space
	addr    uint64 // absolute file offset
	size    uint64 // block size in heap space
	data    []byte // decoded (unfiltered) block contents, lazily read for unfiltered blocks
}

type fractalHeap struct {
	addr        uint64
	abs         uint64
	idLen       int
	filterLen   int
	flags       uint8
	maxManaged  uint32
	hugeBTree   uint64
	nManaged    uint64
	nHuge       uint64
	nTiny       uint64
	width       uint64
	startSize   uint64
	maxDirect   uint64
	maxHeapBits int
	startRows   int
	curRows     int
	rootAddr    uint64
	offBytes    int
	lenBytes    int
	filters     []Filter
	rootFSize   uint64
	rootFMask   uint32
	blocks      []fhBlock
	dirHdr      int
	maxDirRows  int
	seen        map[uint64]bool
	owner       string
	budget      int
	noHdrOffset bool // tolerated deviation: managed offsets do not count the direct block header
}

func (h *fractalHeap) rowSize(r int) uint64 {
	if r <= 1 {
		return h.startSize
	}
	if r-1 >= 63 {
		return 0
	}
	return h.startSize << uint(r-1)
}

func (h *fractalHeap) rowOff(r int) uint64 {
	if r == 0 {
		return 0
	}
	if r-1 >= 63 {
		return 0
	}
	return (h.width * h.startSize) << uint(r-1)
}

// fractalHeap decodes (once) the fractal heap whose header is at addr and maps all its blocks.
func (f *File) fractalHeap(addr uint64, owner string) *fractalHeap {
	if h, ok := f.fheaps[addr]; ok {
		return h
	}
	f.fheaps[addr] = nil
	a := f.abs(addr)
	if a == Undef {
		f.issue("decode:FRHP:undefined-address", 0, "%s", owner)
		return nil
	}
	O, L := f.Super.OffsetSize, f.Super.LengthSize
	fixed := 4 + 1 + 2 + 2 + 1 + 4 + L + O + L + O + 8*L + 2 + 2*L + 2 + 2 + O + 2
	buf, err := f.readUpTo(a, uint64(fixed)+4+uint64(L)+4+1024)
	if err != nil || len(buf) < fixed+4 {
		f.issue("decode:FRHP:read", a, "%s: %v", owner, err)
		return nil
	}
	c := f.cursor(buf, a, "FRHP")
	if !c.sig("FRHP") {
		f.issue("bad-signature:FRHP", a, "%s: fractal heap header starts with % x", owner, buf[:4])
		f.issue("decode:FRHP:signature", a, "%s", owner)
		return nil
	}
	if v := c.u8("version"); v != 0 {
		f.issue("version:FRHP", a, "fractal heap version %d", v)
	}
	h := &fractalHeap{addr: addr, abs: a, owner: owner, seen: map[uint64]bool{}, budget: 1 << 20}
	h.idLen = int(c.u16("size"))
	h.filterLen = int(c.u16("size"))
	h.flags = c.u8("flags")
	h.maxManaged = c.u32("size")
	c.length("id") // next huge object id
	h.hugeBTree = c.addr()
	c.length("size") // free space in managed blocks
	c.addr()         // free space manager
	c.length("size") // managed space
	c.length("size") // allocated managed space
	c.length("offset")
	h.nManaged = c.length("count")
	c.length("size")
	h.nHuge = c.length("count")
	c.length("size")
	h.nTiny = c.length("count")
	h.width = uint64(c.u16("count"))
	h.startSize = c.length("size")
	h.maxDirect = c.length("size")
	h.maxHeapBits = int(c.u16("size"))
	h.startRows = int(c.u16("count"))
	h.rootAddr = c.addr()
	h.curRows = int(c.u16("count"))
	if h.filterLen > 0 {
		h.rootFSize = c.length("size")
		h.rootFMask = c.u32("flags")
		fb := c.bytes(h.filterLen)
		if c.err == nil {
			fl, _, err := f.decodePipeline(fb, c.off()-uint64(h.filterLen), owner)
			if err != nil {
				f.issue("decode:FRHP:filters", a, "%s: %v", owner, err)
			}
			h.filters = fl
		}
	}
	end := c.pos
	stored := c.u32("checksum")
	if c.err != nil {
		f.issue("decode:FRHP:truncated", a, "%s: %v", owner, c.err)
		return nil
	}
	f.extent(a, a+uint64(c.pos), "FRHP", owner)
	f.checksum("FRHP", a, buf[:end], stored)
	// parameter sanity
	if !isPow2(h.width) || !isPow2(h.startSize) || !isPow2(h.maxDirect) || h.maxDirect < h.startSize ||
		h.maxHeapBits < 1 || h.maxHeapBits > 64 || h.width > 1<<16 {
		f.issue("size-field:FRHP", a, "%s: doubling table width %d start %d max direct %d max heap bits %d", owner, h.width, h.startSize, h.maxDirect, h.maxHeapBits)
		f.issue("decode:FRHP:parameters", a, "%s", owner)
		return nil
	}
	h.offBytes = (h.maxHeapBits + 7) / 8
	lb := (log2floor(h.maxDirect) + 7) / 8
	if m := limitEncSize(uint64(h.maxManaged)); m < lb {
		lb = m
	}
	h.lenBytes = lb
	h.dirHdr = 4 + 1 + O + h.offBytes
	if h.flags&2 != 0 {
		h.dirHdr += 4
	}
	h.maxDirRows = log2floor(h.maxDirect) - log2floor(h.startSize) + 2
	if f.isUndef(h.rootAddr) {
		if h.nManaged != 0 {
			f.issue("size-field:FRHP", a, "%s: %d managed objects but no root block", owner, h.nManaged)
		}
	} else if h.curRows == 0 {
		fsize := uint64(0)
		if h.filterLen > 0 {
			fsize = h.rootFSize
		}
		f.fhDirect(h, h.rootAddr, 0, h.startSize, fsize, h.rootFMask)
	} else {
		f.fhIndirect(h, h.rootAddr, 0, h.curRows, 0)
	}
	f.fheaps[addr] = h
	return h
}

func (f *File) fhDirect(h *fractalHeap, addr, heapOff, size, filteredSize uint64, mask uint32) {
	a := f.abs(addr)
	if a == Undef {
		return
	}
	if h.seen[a] {
		f.issue("decode:FHDB:loop", a, "%s: direct block reached twice", h.owner)
		return
	}
	h.seen[a] = true
	if h.budget--; h.budget < 0 {
		return
	}
	disk := size
	if h.filterLen > 0 {
		disk = filteredSize
	}
	f.extent(a, a+disk, "FHDB", h.owner)
	raw, err := f.read(a, disk)
	if err != nil {
		f.issue("size-field:FHDB", a, "%s: direct block of %d bytes: %v", h.owner, disk, err)
		f.issue("decode:FHDB:read", a, "%s", h.owner)
		return
	}
	data := raw
	if h.filterLen > 0 {
		d, err := f.unfilter(raw, h.filters, mask, 1, a)
		if err != nil {
			f.issue("decode:FHDB:filter", a, "%s: %v", h.owner, err)
			return
		}
		data = d
		if uint64(len(data)) != size {
			f.issue("size-field:FHDB", a, "%s: unfiltered direct block has %d bytes, expected %d", h.owner, len(data), size)
		}
	}
	if len(data) < h.dirHdr {
		f.issue("size-field:FHDB", a, "%s: direct block smaller than its header", h.owner)
		return
	}
	c := f.cursor(data[:h.dirHdr], a, "FHDB")
	if h.filterLen > 0 {
		// offsets inside a filtered block do not map to file offsets: do not record fields
		c = (&File{Super: f.Super, fieldSeen: map[Field]struct{}{}}).cursor(data[:h.dirHdr], a, "FHDB")
	}
	if !c.sig("FHDB") {
		f.issue("bad-signature:FHDB", a, "%s: direct block starts with % x", h.owner, data[:4])
		f.issue("decode:FHDB:signature", a, "%s", h.owner)
		return
	}
	if v := c.u8("version"); v != 0 {
		f.issue("version:FHDB", a, "direct block version %d", v)
	}
	if ha := c.addr(); ha != h.addr {
		f.issue("back-pointer:FHDB", a, "%s: heap header address %d, expected %d", h.owner, ha, h.addr)
	}
	bo := c.uN(h.offBytes, "offset")
	if bo != heapOff {
		f.issue("block-offset:FHDB", a, "%s: block offset %d, expected %d", h.owner, bo, heapOff)
	}
	if h.flags&2 != 0 {
		p := c.pos
		stored := c.u32("checksum")
		tmp := append([]byte{}, data...)
		tmp[p], tmp[p+1], tmp[p+2], tmp[p+3] = 0, 0, 0, 0
		f.checksum("FHDB", a, tmp, stored)
	}
	blk := fhBlock{heapOff: heapOff, addr: a, size: size, data: data}
	h.blocks = append(h.blocks, blk)
}

func (f *File) fhIndirect(h *fractalHeap, addr, heapOff uint64, nrows int, depth int) {
	a := f.abs(addr)
	if a == Undef {
		return
	}
	if h.seen[a] || depth > 64 {
		f.issue("decode:FHIB:loop", a, "%s: indirect block reached twice", h.owner)
		return
	}
	h.seen[a] = true
	if h.budget--; h.budget < 0 {
		return
	}
	O, L := uint64(f.Super.OffsetSize), uint64(f.Super.LengthSize)
	if nrows < 0 || nrows > 64 {
		f.issue("size-field:FHIB", a, "%s: %d rows", h.owner, nrows)
		return
	}
	dirRows := nrows
	if dirRows > h.maxDirRows {
		dirRows = h.maxDirRows
	}
	indRows := nrows - dirRows
	dent := O
	if h.filterLen > 0 {
		dent += L + 4
	}
	size := 5 + O + uint64(h.offBytes) + uint64(dirRows)*h.width*dent + uint64(indRows)*h.width*O + 4
	buf, err := f.read(a, size)
	if err != nil {
		f.issue("size-field:FHIB", a, "%s: indirect block of %d rows (%d bytes): %v", h.owner, nrows, size, err)
		f.issue("decode:FHIB:read", a, "%s", h.owner)
		return
	}
	f.extent(a, a+size, "FHIB", h.owner)
	c := f.cursor(buf, a, "FHIB")
	if !c.sig("FHIB") {
		f.issue("bad-signature:FHIB", a, "%s: indirect block starts with % x", h.owner, buf[:4])
		f.issue("decode:FHIB:signature", a, "%s", h.owner)
		return
	}
	if v := c.u8("version"); v != 0 {
		f.issue("version:FHIB", a, "indirect block version %d", v)
	}
	if ha := c.addr(); ha != h.addr {
		f.issue("back-pointer:FHIB", a, "%s: heap header address %d, expected %d", h.owner, ha, h.addr)
	}
	bo := c.uN(h.offBytes, "offset")
	if bo != heapOff {
		f.issue("block-offset:FHIB", a, "%s: block offset %d, expected %d", h.owner, bo, heapOff)
	}
	type ent struct {
		addr, fsize uint64
		mask        uint32
	}
	var dents []ent
	for i := uint64(0); i < uint64(dirRows)*h.width; i++ {
		var e ent
		e.addr = c.addr()
		if h.filterLen > 0 {
			e.fsize = c.length("size")
			e.mask = c.u32("flags")
		}
		dents = append(dents, e)
	}
	var ients []uint64
	for i := uint64(0); i < uint64(indRows)*h.width; i++ {
		ients = append(ients, c.addr())
	}
	end := c.pos
	stored := c.u32("checksum")
	if c.err != nil {
		f.issue("decode:FHIB:truncated", a, "%s: %v", h.owner, c.err)
		return
	}
	f.checksum("FHIB", a, buf[:end], stored)
	for i, e := range dents {
		if f.isUndef(e.addr) {
			continue
		}
		r := i / int(h.width)
		col := uint64(i) % h.width
		f.fhDirect(h, e.addr, heapOff+h.rowOff(r)+col*h.rowSize(r), h.rowSize(r), e.fsize, e.mask)
	}
	firstBits := log2floor(h.startSize) + log2floor(h.width)
	for i, ia := range ients {
		if f.isUndef(ia) {
			continue
		}
		r := dirRows + i/int(h.width)
		col := uint64(i) % h.width
		rs := h.rowSize(r)
		if rs == 0 {
			continue
		}
		childRows := log2floor(rs) - firstBits + 1
		f.fhIndirect(h, ia, heapOff+h.rowOff(r)+col*rs, childRows, depth+1)
	}
}

// object returns the bytes of the heap object identified by id.
func (f *File) fhObject(h *fractalHeap, id []byte, at uint64) ([]byte, uint64, error) {
	if len(id) < 1 {
		return nil, 0, fmt.Errorf("empty heap id")
	}
	if id[0]&0xC0 != 0 {
		return nil, 0, fmt.Errorf("heap id version %d", id[0]>>6)
	}
	switch (id[0] >> 4) & 3 {
	case 0: // managed
		if len(id) < 1+h.offBytes+h.lenBytes {
			return nil, 0, fmt.Errorf("heap id of %d bytes too short for %d offset + %d length bytes", len(id), h.offBytes, h.lenBytes)
		}
		var off, ln uint64
		for i := h.offBytes - 1; i >= 0; i-- {
			off = off<<8 | uint64(id[1+i])
		}
		for i := h.lenBytes - 1; i >= 0; i-- {
			ln = ln<<8 | uint64(id[1+h.offBytes+i])
		}
		if h.noHdrOffset {
			off += uint64(h.dirHdr)
		}
		for i := range h.blocks {
			b := &h.blocks[i]
			if off >= b.heapOff && off < b.heapOff+b.size {
				rel := off - b.heapOff
				if rel < uint64(h.dirHdr) || rel+ln > b.size || rel+ln > uint64(len(b.data)) || ln == 0 {
					return nil, 0, fmt.Errorf("managed object offset %d length %d does not fit direct block [%d,+%d)", off, ln, b.heapOff, b.size)
				}
				return b.data[rel : rel+ln], b.addr + rel, nil
			}
		}
		return nil, 0, fmt.Errorf("managed object offset %d is not inside an allocated direct block", off)
	case 2: // tiny
		var ln, skip int
		if h.idLen <= 18 {
			ln = int(id[0]&0x0f) + 1
			skip = 1
		} else {
			if len(id) < 2 {
				return nil, 0, fmt.Errorf("tiny id too short")
			}
			ln = (int(id[0]&0x0f)<<8 | int(id[1])) + 1
			skip = 2
		}
		if skip+ln > len(id) {
			return nil, 0, fmt.Errorf("tiny object of %d bytes does not fit the %d-byte id", ln, len(id))
		}
		return id[skip : skip+ln], at + uint64(skip), nil
	case 1:
		return nil, 0, fmt.Errorf("unsupported: huge fractal heap object")
	}
	return nil, 0, fmt.Errorf("heap id type %d", (id[0]>>4)&3)
}

// readDenseLinks enumerates the links of a new-style group in dense storage.
func (f *File) readDenseLinks(li *LinkInfo, owner string) []Link {
	h := f.fractalHeap(li.HeapAddr, owner)
	if h == nil {
		f.issue("decode:group:no-heap", f.abs(li.HeapAddr), "%s: dense links skipped, fractal heap not decodable", owner)
		return nil
	}
	var links []Link
	if f.isUndef(li.NameBTree) {
		f.issue("decode:group:no-btree", 0, "%s: name index B-tree address undefined", owner)
		return nil
	}
	n := 0
	type recT struct {
		rec []byte
		off uint64
	}
	var recs []recT
	var ids [][]byte
	typ, _ := f.walkBTree2(li.NameBTree, owner, -1, func(rec []byte, off uint64) {
		recs = append(recs, recT{rec, off})
		if len(rec) >= 11 {
			ids = append(ids, rec[4:11])
		}
	})
	if typ != 5 {
		f.issue("record-type:BTHD", f.abs(li.NameBTree), "%s: link name index has record type %d, expected 5", owner, typ)
		f.issue("decode:group:record-type", f.abs(li.NameBTree), "%s: dense links skipped", owner)
		return nil
	}
	f.checkHeapOffsets(h, ids, owner)
	if total := h.nManaged + h.nTiny + h.nHuge; total != uint64(len(recs)) {
		f.issue("object-count:FRHP", h.abs, "%s: heap header counts %d objects, the name index has %d records", owner, total, len(recs))
	}
	var prevHash uint32
	for ri, r := range recs {
		rec, off := r.rec, r.off
		n++
		c := f.cursor(rec, off, "BTLF")
		hash := c.u32("hash")
		if ri > 0 && hash < prevHash {
			f.issue("unsorted:BTLF", off, "%s: record hash %#08x follows %#08x", owner, hash, prevHash)
		}
		prevHash = hash
		idOff := c.off()
		id := c.bytes(7)
		if c.err != nil {
			f.issue("decode:BTLF:record", off, "%s: %v", owner, c.err)
			continue
		}
		f.field(idOff, 7, "id", "BTLF")
		obj, objOff, err := f.fhObject(h, id, idOff)
		if err != nil {
			if isUnsupported(err) {
				f.issue("unsupported:fheap-huge", off, "%s: %v", owner, err)
			} else {
				f.issue("decode:heap-id", off, "%s: link record: %v", owner, err)
			}
			continue
		}
		f.hv = 2
		l, err := f.decodeLinkMessage(obj, objOff)
		if err != nil {
			f.issue("decode:msg:link", objOff, "%s: dense link: %v", owner, err)
			continue
		}
		if hv := Lookup3([]byte(l.Name), 0); hv != hash {
			f.issue("bad-namehash:BTLF", off, "%s: link %q hash %#08x, record has %#08x", owner, l.Name, hv, hash)
		}
		links = append(links, *l)
	}
	if !f.isUndef(li.CorderBTree) {
		m := 0
		f.walkBTree2(li.CorderBTree, owner, 6, func(rec []byte, off uint64) {
			m++
			c := f.cursor(rec, off, "BTLF")
			c.u64("count")
			f.field(c.off(), 7, "id", "BTLF")
		})
		if m != n {
			f.issue("index-count:BTHD", f.abs(li.CorderBTree), "%s: creation order index has %d records, name index %d", owner, m, n)
		}
	}
	return links
}

// readDenseAttrs enumerates the attributes of an object in dense storage.
func (f *File) readDenseAttrs(ai *AttrInfo, owner string) []Attr {
	h := f.fractalHeap(ai.HeapAddr, owner)
	if h == nil {
		f.issue("decode:attrs:no-heap", f.abs(ai.HeapAddr), "%s: dense attributes skipped, fractal heap not decodable", owner)
		return nil
	}
	if f.isUndef(ai.NameBTree) {
		f.issue("decode:attrs:no-btree", 0, "%s: attribute name index B-tree address undefined", owner)
		return nil
	}
	var attrs []Attr
	n := 0
	type recT struct {
		rec []byte
		off uint64
	}
	var recs []recT
	var ids [][]byte
	typ, _ := f.walkBTree2(ai.NameBTree, owner, -1, func(rec []byte, off uint64) {
		recs = append(recs, recT{rec, off})
	})
	asType5 := false
	if typ != 8 {
		f.issue("record-type:BTHD", f.abs(ai.NameBTree), "%s: attribute name index has record type %d, expected 8", owner, typ)
		if typ == 5 && f.tolerate(TolAttrIndexType5) {
			asType5 = true
		} else {
			f.issue("decode:attrs:record-type", f.abs(ai.NameBTree), "%s: dense attributes skipped", owner)
			return nil
		}
	}
	for _, r := range recs {
		if asType5 && len(r.rec) >= 11 {
			ids = append(ids, r.rec[4:11])
		} else if len(r.rec) >= 8 {
			ids = append(ids, r.rec[:8])
		}
	}
	f.checkHeapOffsets(h, ids, owner)
	if total := h.nManaged + h.nTiny + h.nHuge; total != uint64(len(recs)) {
		f.issue("object-count:FRHP", h.abs, "%s: heap header counts %d objects, the name index has %d records", owner, total, len(recs))
	}
	var prevHash uint32
	for ri, r := range recs {
		rec, off := r.rec, r.off
		n++
		c := f.cursor(rec, off, "BTLF")
		var idOff uint64
		var id []byte
		var mflags uint8
		var corder, hash uint32
		if asType5 {
			hash = c.u32("hash")
			idOff = c.off()
			id = c.bytes(7)
		} else {
			idOff = c.off()
			id = c.bytes(8)
			mflags = c.u8("flags")
			corder = c.u32("count")
			hash = c.u32("hash")
		}
		if c.err != nil {
			f.issue("decode:BTLF:record", off, "%s: %v", owner, c.err)
			continue
		}
		if ri > 0 && hash < prevHash {
			f.issue("unsorted:BTLF", off, "%s: record hash %#08x follows %#08x", owner, hash, prevHash)
		}
		prevHash = hash
		f.field(idOff, len(id), "id", "BTLF")
		obj, objOff, err := f.fhObject(h, id, idOff)
		if err != nil {
			if isUnsupported(err) {
				f.issue("unsupported:fheap-huge", off, "%s: %v", owner, err)
			} else {
				f.issue("decode:heap-id", off, "%s: attribute record: %v", owner, err)
			}
			continue
		}
		if mflags&2 != 0 {
			f.issue("unsupported:sohm", off, "%s: dense attribute stored as a shared message", owner)
			continue
		}
		f.hv = 2
		a, err := f.decodeAttribute(obj, objOff, owner)
		if err != nil {
			f.issue("decode:msg:attribute", objOff, "%s: dense attribute: %v", owner, err)
			continue
		}
		a.CreationOrder = corder
		a.HasCreationOrder = ai.Flags&1 != 0
		if hv := Lookup3([]byte(a.Name), 0); hv != hash {
			f.issue("bad-namehash:BTLF", off, "%s: attribute %q hash %#08x, record has %#08x", owner, a.Name, hv, hash)
		}
		attrs = append(attrs, *a)
	}
	if !f.isUndef(ai.CorderBTree) {
		m := 0
		f.walkBTree2(ai.CorderBTree, owner, 9, func(rec []byte, off uint64) {
			m++
			c := f.cursor(rec, off, "BTLF")
			f.field(c.off(), 8, "id", "BTLF")
			c.skip(8, "")
			c.u8("flags")
			c.u32("count")
		})
		if m != n {
			f.issue("index-count:BTHD", f.abs(ai.CorderBTree), "%s: creation order index has %d records, name index %d", owner, m, n)
		}
	}
	return attrs
}

type unsupportedErr struct{ s string }

func (e unsupportedErr) Error() string { return e.s }

func isUnsupported(err error) bool {
	if err == nil {
		return false
	}
	s := err.Error()
	return len(s) >= 11 && s[:11] == "unsupported"
}

// managedOffsetInHeader reports whether id is a managed id whose offset points
// into the header of the direct block that contains it.
func (h *fractalHeap) managedOffsetInHeader(id []byte) bool {
	if len(id) < 1+h.offBytes || id[0]&0xF0 != 0 {
		return false
	}
	var off uint64
	for i := h.offBytes - 1; i >= 0; i-- {
		off = off<<8 | uint64(id[1+i])
	}
	for i := range h.blocks {
		b := &h.blocks[i]
		if off >= b.heapOff && off < b.heapOff+b.size {
			return off-b.heapOff < uint64(h.dirHdr)
		}
	}
	return false
}

// checkHeapOffsets looks for managed ids that point into a direct block header.
func (f *File) checkHeapOffsets(h *fractalHeap, ids [][]byte, owner string) {
	if h.noHdrOffset {
		return
	}
	for _, id := range ids {
		if h.managedOffsetInHeader(id) {
			f.issue("fheap-offset-in-header:FHDB", h.abs, "%s: a managed heap id points into a direct block header; offsets seem not to count the block header", owner)
			if len(h.blocks) == 1 && f.tolerate(TolFHeapOffset) {
				h.noHdrOffset = true
			}
			return
		}
	}
	// Second detection (added by the harness author): after the first heap object has been
	// deleted no live id points into the header any more. Heap objects of dense storage are
	// attribute or link messages, whose first byte is a version in 1..3; if that holds for
	// every object only when the offsets are taken not to count the block header, the
	// deviation is the same one.
	if len(h.blocks) != 1 || !f.tolerate(TolFHeapOffset) || len(ids) == 0 {
		return
	}
	plausible := func() bool {
		for _, id := range ids {
			obj, _, err := f.fhObject(h, id, 0)
			if err != nil || len(obj) == 0 || obj[0] < 1 || obj[0] > 3 {
				return false
			}
		}
		return true
	}
	if plausible() {
		return
	}
	h.noHdrOffset = true
	if plausible() {
		f.issue("fheap-offset-in-header:FHDB", h.abs, "%s: managed heap objects only decode when offsets do not count the block header", owner)
		return
	}
	h.noHdrOffset = false
}
