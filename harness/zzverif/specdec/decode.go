package specdec

import (
	"fmt"
	"io"
	"strings"
)

const sbSignature = "\x89HDF\r\n\x1a\n"

// Decode decodes the HDF5 file in r.  An error is returned only when nothing
// can be decoded (no superblock); everything else is reported in File.Issues.
func Decode(r io.ReaderAt, size int64, opt Options) (f *File, err error) {
	if opt.MaxObjects <= 0 {
		opt.MaxObjects = 100000
	}
	if size < 0 {
		size = 0
	}
	f = &File{
		Size: size, r: r, opt: opt,
		Objects:        map[uint64]*Object{},
		TolerancesUsed: map[string]int{},
		Stats:          map[string]int{},
		fieldSeen:      map[Field]struct{}{},
		extSeen:        map[extKey]struct{}{},
		issueSeen:      map[Issue]struct{}{},
		gcols:          map[uint64]*GCOL{},
		lheaps:         map[uint64]*localHeap{},
		fheaps:         map[uint64]*fractalHeap{},
		headers:        map[uint64]*Object{},
	}
	f.Super.OffsetSize = 8
	f.Super.LengthSize = 8
	defer func() {
		if p := recover(); p != nil {
			f.issue("decode:panic", 0, "%v", p)
			if f.Super.Length == 0 {
				err = fmt.Errorf("specdec: panic before superblock: %v", p)
			}
		}
	}()
	if e := f.decodeSuperblock(); e != nil {
		return f, e
	}
	f.decodeTree()
	return f, nil
}

func (f *File) decodeSuperblock() error {
	var off uint64
	found := false
	for off = 0; off+8 <= uint64(f.Size); {
		b, err := f.read(off, 8)
		if err == nil && string(b) == sbSignature {
			found = true
			break
		}
		if off == 0 {
			off = 512
		} else {
			if off > uint64(1)<<62 {
				break
			}
			off *= 2
		}
	}
	if !found {
		return fmt.Errorf("specdec: no HDF5 superblock signature found")
	}
	sb := &f.Super
	sb.UserBlockOffset = off
	buf, err := f.readUpTo(off, 256)
	if err != nil {
		return fmt.Errorf("specdec: superblock: %v", err)
	}
	c := f.cursor(buf, off, "superblock")
	c.sig(sbSignature)
	ver := int(c.u8("version"))
	sb.Version = ver
	switch ver {
	case 0, 1:
		sb.FreeSpaceVersion = int(c.u8("version"))
		sb.RootGroupVersion = int(c.u8("version"))
		c.skip(1, "reserved")
		sb.SharedHeaderVersion = int(c.u8("version"))
		osz := int(c.u8("size"))
		lsz := int(c.u8("size"))
		c.skip(1, "reserved")
		if c.err != nil {
			return fmt.Errorf("specdec: superblock truncated")
		}
		if !validSize(osz) || !validSize(lsz) {
			return fmt.Errorf("specdec: superblock: invalid size of offsets/lengths %d/%d", osz, lsz)
		}
		sb.OffsetSize, sb.LengthSize = osz, lsz
		sb.GroupLeafK = int(c.u16("count"))
		sb.GroupInternalK = int(c.u16("count"))
		sb.ConsistencyFlags = c.u32("flags")
		sb.ChunkInternalK = 32
		if ver == 1 {
			sb.ChunkInternalK = int(c.u16("count"))
			c.skip(2, "reserved")
		}
		sb.BaseAddress = c.addr()
		sb.FreeSpaceAddress = c.addr()
		sb.EOFAddress = c.addr()
		sb.DriverInfoAddress = c.addr()
		// root group symbol table entry
		sb.RootLinkNameOffset = c.addr()
		sb.RootAddress = c.addr()
		sb.RootCacheType = c.u32("type")
		c.skip(4, "reserved")
		sp := c.pos
		sb.RootBTreeAddr, sb.RootHeapAddr = Undef, Undef
		if sb.RootCacheType == 1 {
			sb.RootBTreeAddr = c.addr()
			sb.RootHeapAddr = c.addr()
		}
		c.pos = sp
		c.skip(16, "")
		sb.ChecksumOK = true
		if c.err != nil {
			return fmt.Errorf("specdec: superblock truncated: %v", c.err)
		}
		if sb.GroupLeafK == 0 {
			f.issue("size-field:superblock", off, "group leaf node K is 0")
		}
		if sb.GroupInternalK == 0 {
			f.issue("size-field:superblock", off, "group internal node K is 0")
		}
	case 2, 3:
		osz := int(c.u8("size"))
		lsz := int(c.u8("size"))
		sb.ConsistencyFlags = uint32(c.u8("flags"))
		if c.err != nil {
			return fmt.Errorf("specdec: superblock truncated")
		}
		if !validSize(osz) || !validSize(lsz) {
			return fmt.Errorf("specdec: superblock: invalid size of offsets/lengths %d/%d", osz, lsz)
		}
		sb.OffsetSize, sb.LengthSize = osz, lsz
		sb.BaseAddress = c.addr()
		sb.ExtensionAddress = c.addr()
		sb.EOFAddress = c.addr()
		sb.RootAddress = c.addr()
		end := c.pos
		sb.Checksum = c.u32("checksum")
		if c.err != nil {
			return fmt.Errorf("specdec: superblock truncated: %v", c.err)
		}
		sb.ChecksumOK = f.checksum("superblock", off, buf[:end], sb.Checksum)
		sb.GroupLeafK, sb.GroupInternalK, sb.ChunkInternalK = 4, 16, 32
		sb.RootBTreeAddr, sb.RootHeapAddr = Undef, Undef
		sb.FreeSpaceAddress, sb.DriverInfoAddress = Undef, Undef
	default:
		return fmt.Errorf("specdec: unsupported superblock version %d", ver)
	}
	sb.Length = c.pos
	f.extent(off, off+uint64(c.pos), "superblock", "/")
	f.base = sb.BaseAddress
	if f.isUndef(sb.BaseAddress) {
		f.issue("size-field:superblock", off, "undefined base address")
		f.base = off
	} else if sb.BaseAddress != off {
		// The reference implementation always takes the superblock location as the base.
		f.issue("base-address:superblock", off, "base address %d differs from superblock offset %d", sb.BaseAddress, off)
		if sb.BaseAddress > uint64(f.Size) {
			f.base = off
		}
	}
	if f.isUndef(sb.EOFAddress) {
		f.issue("size-field:superblock", off, "undefined end-of-file address")
	} else if sb.EOFAddress > uint64(f.Size) {
		// The end-of-file address is an absolute file address.
		f.issue("eof-beyond-file:superblock", off, "end-of-file address %d exceeds the file size %d", sb.EOFAddress, f.Size)
	}
	if ver <= 1 && !f.isUndef(sb.DriverInfoAddress) {
		f.decodeDriverInfo(sb.DriverInfoAddress)
	}
	return nil
}

func validSize(n int) bool { return n == 2 || n == 4 || n == 8 }

func (f *File) decodeDriverInfo(addr uint64) {
	a := f.abs(addr)
	buf, err := f.read(a, 16)
	if err != nil {
		f.issue("decode:driverinfo:read", a, "%v", err)
		return
	}
	c := f.cursor(buf, a, "driverinfo")
	c.u8("version")
	c.skip(3, "reserved")
	sz := c.u32("size")
	c.skip(8, "id")
	if uint64(sz) > uint64(f.Size) {
		f.issue("size-field:driverinfo", a, "driver information size %d", sz)
		sz = 0
	}
	f.extent(a, a+16+uint64(sz), "driverinfo", "/")
}

// decodeTree walks the group hierarchy from the root depth-first.
func (f *File) decodeTree() {
	sb := &f.Super
	if (sb.Version >= 2) && !f.isUndef(sb.ExtensionAddress) {
		ext := f.decodeObjectHeader(sb.ExtensionAddress, "/", true)
		f.SuperExt = ext
		if ext != nil && ext.BTreeK != nil {
			sb.ChunkInternalK = int(ext.BTreeK[0])
			sb.GroupInternalK = int(ext.BTreeK[1])
			sb.GroupLeafK = int(ext.BTreeK[2])
		}
	}
	if f.isUndef(sb.RootAddress) {
		f.issue("decode:superblock:no-root", sb.UserBlockOffset, "root object header address undefined")
		return
	}
	f.Root = f.decodeObject(sb.RootAddress, "/")
	if f.Root == nil {
		return
	}
	if sb.Version <= 1 && sb.RootCacheType == 1 && f.Root.HasSymTab {
		if f.Root.SymTabBTree != sb.RootBTreeAddr || f.Root.SymTabHeap != sb.RootHeapAddr {
			f.issue("root-symtab-mismatch:superblock", sb.UserBlockOffset,
				"superblock scratch (%d,%d) != symbol table message (%d,%d)", sb.RootBTreeAddr, sb.RootHeapAddr, f.Root.SymTabBTree, f.Root.SymTabHeap)
		}
	}
	type frame struct {
		o    *Object
		path string
		next int
	}
	stack := []frame{{f.Root, "/", 0}}
	for len(stack) > 0 {
		fr := &stack[len(stack)-1]
		if fr.next >= len(fr.o.Links) {
			stack = stack[:len(stack)-1]
			continue
		}
		l := fr.o.Links[fr.next]
		fr.next++
		if l.Kind != "hard" {
			continue
		}
		if _, seen := f.Objects[l.Target]; seen {
			continue
		}
		p := joinPath(fr.path, l.Name)
		o := f.decodeObject(l.Target, p)
		if o != nil && len(o.Links) > 0 {
			stack = append(stack, frame{o, p, 0})
		}
	}
}

func joinPath(dir, name string) string {
	if strings.HasSuffix(dir, "/") {
		return dir + name
	}
	return dir + "/" + name
}

// Resolve follows hard links from the root; "/" is the root group.
func (f *File) Resolve(path string) (*Object, error) {
	if f.Root == nil {
		return nil, fmt.Errorf("no root group")
	}
	o := f.Root
	for _, part := range strings.Split(path, "/") {
		if part == "" || part == "." {
			continue
		}
		var next *Object
		found := false
		for i := range o.Links {
			l := &o.Links[i]
			if l.Name != part {
				continue
			}
			found = true
			if l.Kind != "hard" {
				return nil, fmt.Errorf("%q: component %q is a %s link", path, part, l.Kind)
			}
			next = f.Objects[l.Target]
			break
		}
		if !found {
			return nil, fmt.Errorf("%q: component %q not found", path, part)
		}
		if next == nil {
			return nil, fmt.Errorf("%q: component %q could not be decoded", path, part)
		}
		o = next
	}
	return o, nil
}

// Walk visits the hierarchy depth-first from the root in on-disk order.  Every
// object is visited once per path; hard-link cycles are cut (the link that
// closes the cycle is reported, its target is not descended into again).
// Soft, external and user-defined links are reported with o == nil.
func (f *File) Walk(fn func(path string, o *Object, l *Link)) {
	if f.Root == nil {
		return
	}
	anc := map[uint64]bool{}
	budget := 10 * f.opt.MaxObjects
	if budget <= 0 {
		budget = 1000000
	}
	var rec func(path string, o *Object, l *Link)
	rec = func(path string, o *Object, l *Link) {
		if budget <= 0 {
			return
		}
		budget--
		fn(path, o, l)
		if o == nil || anc[o.Addr] {
			return
		}
		anc[o.Addr] = true
		for i := range o.Links {
			lk := &o.Links[i]
			p := joinPath(path, lk.Name)
			if lk.Kind == "hard" {
				rec(p, f.Objects[lk.Target], lk)
			} else {
				rec(p, nil, lk)
			}
		}
		delete(anc, o.Addr)
	}
	rec("/", f.Root, nil)
}
