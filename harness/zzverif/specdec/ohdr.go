package specdec

import "hash/crc32"

// decodeObject decodes (once) the object whose header is at addr and registers it.
func (f *File) decodeObject(addr uint64, path string) *Object {
	if o, ok := f.Objects[addr]; ok {
		return o
	}
	if f.nobjects >= f.opt.MaxObjects {
		f.issue("limit:objects", f.abs(addr), "more than %d objects", f.opt.MaxObjects)
		return nil
	}
	f.nobjects++
	o := f.decodeObjectHeader(addr, path, false)
	if o != nil {
		f.Objects[addr] = o
	}
	return o
}

func (f *File) decodeObjectHeader(addr uint64, path string, isExt bool) *Object {
	o := f.readHeader(addr, path)
	if o == nil {
		return nil
	}
	o.Path = path
	f.interpret(o, path, isExt)
	return o
}

// readHeader reads the raw messages of the object header at addr.
func (f *File) readHeader(addr uint64, owner string) *Object {
	a := f.abs(addr)
	if a == Undef {
		f.issue("decode:OHDR:undefined-address", 0, "object header address undefined (%s)", owner)
		return nil
	}
	head, err := f.readUpTo(a, 64)
	if err != nil || len(head) < 12 {
		f.issue("decode:OHDR:read", a, "cannot read object header of %s: %v", owner, err)
		return nil
	}
	o := &Object{Addr: addr, Kind: "unknown", RefCount: 1}
	if string(head[:4]) == "OHDR" {
		if !f.readHeaderV2(o, a, head, owner) {
			return nil
		}
		return o
	}
	if head[0] == 1 {
		if !f.readHeaderV1(o, a, head, owner) {
			return nil
		}
		return o
	}
	f.field(a, 4, "signature", "OHDR")
	f.issue("bad-signature:OHDR", a, "neither \"OHDR\" nor version 1 at object header of %s: % x", owner, head[:4])
	f.issue("decode:OHDR:signature", a, "object %s skipped", owner)
	return nil
}

type contBlock struct {
	off, length uint64 // stored address, length
}

func (f *File) readHeaderV1(o *Object, a uint64, head []byte, owner string) bool {
	if len(head) < 16 {
		// A header with no messages may legitimately end after 12 bytes.
		head = append(append([]byte{}, head...), make([]byte, 16-len(head))...)
	}
	c := f.cursor(head, a, "OHDR")
	o.HeaderVersion = int(c.u8("version"))
	c.skip(1, "reserved")
	nmsgs := int(c.u16("count"))
	o.RefCount = c.u32("count")
	hsize := uint64(c.u32("size"))
	o.NumMessagesV1 = nmsgs
	start := a + 16
	if hsize > uint64(f.Size) || start+hsize > uint64(f.Size) {
		f.issue("size-field:OHDR", a, "object header size %d runs past the end of the file", hsize)
		f.issue("decode:OHDR:size", a, "object %s skipped", owner)
		f.extent(a, a+16, "OHDR", owner)
		return false
	}
	f.extent(a, start+hsize, "OHDR", owner)
	buf, err := f.read(start, hsize)
	if err != nil {
		f.issue("decode:OHDR:read", a, "%v", err)
		return false
	}
	seen := map[uint64]bool{a: true}
	queue := f.parseMessagesV1(o, buf, start, 0, "OHDR")
	chunk := 0
	for len(queue) > 0 {
		cb := queue[0]
		queue = queue[1:]
		ca := f.abs(cb.off)
		if ca == Undef || seen[ca] {
			f.issue("decode:OCHK:loop", ca, "continuation block address undefined or repeated in %s", owner)
			continue
		}
		seen[ca] = true
		if len(seen) > 4096 {
			f.issue("decode:OCHK:too-many", ca, "too many continuation blocks in %s", owner)
			break
		}
		cbuf, err := f.read(ca, cb.length)
		if err != nil {
			f.issue("size-field:continuation", ca, "continuation block of %s: %v", owner, err)
			continue
		}
		chunk++
		f.extent(ca, ca+cb.length, "OCHK", owner)
		queue = append(queue, f.parseMessagesV1(o, cbuf, ca, chunk, "OCHK")...)
	}
	o.chunks = chunk + 1
	if len(o.Messages) != nmsgs {
		f.issue("msg-count:OHDR", a, "header says %d messages, chunks contain %d (%s)", nmsgs, len(o.Messages), owner)
	}
	return true
}

func (f *File) parseMessagesV1(o *Object, buf []byte, base uint64, chunk int, st string) []contBlock {
	var conts []contBlock
	c := f.cursor(buf, base, st)
	for c.left() >= 8 {
		mstart := c.off()
		typ := c.u16("type")
		size := int(c.u16("size"))
		flags := c.u8("flags")
		c.skip(3, "reserved")
		if size > c.left() {
			f.issue("size-field:message", mstart, "message type %#x size %d exceeds the %d bytes left in the header chunk", typ, size, c.left())
			break
		}
		if size%8 != 0 {
			f.issue("align:message", mstart, "version 1 message type %#x has size %d, not a multiple of 8", typ, size)
		}
		m := Message{Type: typ, Flags: flags, Offset: c.off(), Data: c.bytes(size), Chunk: chunk}
		o.Messages = append(o.Messages, m)
		if typ == 0x0010 && flags&2 == 0 {
			mc := f.cursor(m.Data, m.Offset, "msg:continuation")
			off := mc.addr()
			ln := mc.length("size")
			if mc.err != nil {
				f.issue("decode:msg:continuation", m.Offset, "%v", mc.err)
			} else {
				conts = append(conts, contBlock{off, ln})
			}
		}
	}
	return conts
}

func (f *File) readHeaderV2(o *Object, a uint64, head []byte, owner string) bool {
	c := f.cursor(head, a, "OHDR")
	c.sig("OHDR")
	o.HeaderVersion = int(c.u8("version"))
	if o.HeaderVersion != 2 {
		f.issue("version:OHDR", a, "object header version %d after OHDR signature", o.HeaderVersion)
	}
	flags := c.u8("flags")
	o.HeaderFlags = flags
	if flags&0x20 != 0 {
		o.AccessTime = c.u32("time")
		o.ModTime = c.u32("time")
		o.ChangeTime = c.u32("time")
		o.BirthTime = c.u32("time")
		o.HasModTime = true
	}
	if flags&0x10 != 0 {
		o.MaxCompact = c.u16("count")
		o.MinDense = c.u16("count")
	}
	size0 := c.uN(1<<(flags&3), "size")
	if c.err != nil {
		f.issue("decode:OHDR:truncated", a, "%v", c.err)
		return false
	}
	if flags&0xC0 != 0 {
		f.issue("reserved-flags:OHDR", a, "flags %#x", flags)
	}
	prefix := uint64(c.pos)
	total := prefix + size0 + 4
	hasTrailer := true
	if size0 > uint64(f.Size) || a+total > uint64(f.Size) {
		if size0 <= uint64(f.Size) && a+prefix+size0 <= uint64(f.Size) {
			// The message area fits but the file ends before the 4 checksum bytes.
			f.issue("ohdr2-no-checksum", a, "OHDR chunk of %s: the file ends right after the message area, the checksum bytes are missing", owner)
			hasTrailer = false
			if f.tolerate(TolOhdr2NoChecksum) {
				f.extent(a, a+prefix+size0, "OHDR", owner)
			} else {
				f.extent(a, a+total, "OHDR", owner)
			}
			total = prefix + size0
		} else {
			f.issue("size-field:OHDR", a, "chunk 0 size %d runs past the end of the file", size0)
			f.issue("decode:OHDR:size", a, "object %s skipped", owner)
			f.extent(a, a+prefix, "OHDR", owner)
			return false
		}
	}
	buf, err := f.read(a, total)
	if err != nil {
		f.issue("decode:OHDR:read", a, "%v", err)
		return false
	}
	withOrder := flags&4 != 0
	seen := map[uint64]bool{a: true}
	queue := f.parseChunkV2(o, buf, a, int(prefix), 0, withOrder, "OHDR", owner, hasTrailer)
	chunk := 0
	for len(queue) > 0 {
		cb := queue[0]
		queue = queue[1:]
		ca := f.abs(cb.off)
		if ca == Undef || seen[ca] {
			f.issue("decode:OCHK:loop", ca, "continuation chunk address undefined or repeated in %s", owner)
			continue
		}
		seen[ca] = true
		if len(seen) > 4096 {
			f.issue("decode:OCHK:too-many", ca, "too many continuation chunks in %s", owner)
			break
		}
		cbuf, err := f.read(ca, cb.length)
		if err != nil {
			f.issue("size-field:continuation", ca, "continuation chunk of %s: %v", owner, err)
			continue
		}
		if len(cbuf) < 8 {
			f.issue("size-field:continuation", ca, "continuation chunk of %d bytes", len(cbuf))
			continue
		}
		cc := f.cursor(cbuf, ca, "OCHK")
		if !cc.sig("OCHK") {
			f.issue("bad-signature:OCHK", ca, "continuation chunk of %s starts with % x", owner, cbuf[:4])
			f.extent(ca, ca+cb.length, "OCHK", owner)
			continue
		}
		chunk++
		queue = append(queue, f.parseChunkV2(o, cbuf, ca, 4, chunk, withOrder, "OCHK", owner, true)...)
	}
	o.chunks = chunk + 1
	return true
}

// parseChunkV2 parses one version 2 header chunk.  buf covers the whole chunk
// (prefix or signature, messages, gap, checksum); msgStart is the offset of the
// first message.
func (f *File) parseChunkV2(o *Object, buf []byte, base uint64, msgStart, chunk int, withOrder bool, st, owner string, hasTrailer bool) []contBlock {
	hdr := 4
	if withOrder {
		hdr = 6
	}
	// Strict interpretation: the last four bytes are the lookup3 checksum.
	msgEnd := len(buf) - 4
	extEnd := len(buf)
	switch {
	case !hasTrailer:
		// already reported by the caller: the buffer ends with the message area
		msgEnd = len(buf)
		extEnd = -1
	case msgEnd < msgStart:
		msgEnd = len(buf)
		f.issue("size-field:"+st, base, "chunk too small for a checksum")
	default:
		stored := uint32(buf[msgEnd]) | uint32(buf[msgEnd+1])<<8 | uint32(buf[msgEnd+2])<<16 | uint32(buf[msgEnd+3])<<24
		switch {
		case Lookup3(buf[:msgEnd], 0) == stored:
			f.field(base+uint64(msgEnd), 4, "checksum", st)
			f.Stats["checksum-ok:"+st]++
		case crc32.ChecksumIEEE(buf[:msgEnd]) == stored:
			f.field(base+uint64(msgEnd), 4, "checksum", st)
			f.checksum(st, base, buf[:msgEnd], stored)
		case st == "OCHK" && f.chunkParsesExactly(buf[msgStart:], hdr) && !f.chunkParsesExactly(buf[msgStart:msgEnd], hdr):
			// The continuation length covers messages only: they fill the chunk completely.
			f.issue("ohdr2-no-checksum", base, "OCHK chunk of %s: messages fill the chunk completely, no room for the checksum", owner)
			if f.tolerate(TolOhdr2NoChecksum) {
				msgEnd = len(buf)
			} else {
				f.field(base+uint64(msgEnd), 4, "checksum", st)
			}
		case st == "OHDR" && f.tolerate(TolOhdr2NoChecksum):
			// Tolerated reading: the four bytes after the message area are not a
			// checksum at all but belong to whatever structure follows.
			f.issue("ohdr2-no-checksum", base, "OHDR chunk of %s: bytes after the message area (%#08x) are not the lookup3 checksum; treated as absent", owner, stored)
			extEnd = msgEnd
		default:
			f.field(base+uint64(msgEnd), 4, "checksum", st)
			f.checksum(st, base, buf[:msgEnd], stored)
		}
	}
	if extEnd >= 0 {
		f.extent(base, base+uint64(extEnd), st, owner)
	}
	var conts []contBlock
	c := f.cursor(buf[:msgEnd], base, st)
	c.pos = msgStart
	for c.left() >= hdr {
		mstart := c.off()
		typ := uint16(c.u8("type"))
		size := int(c.u16("size"))
		flags := c.u8("flags")
		var order uint16
		if withOrder {
			order = c.u16("count")
		}
		if size > c.left() {
			f.issue("size-field:message", mstart, "message type %#x size %d exceeds the %d bytes left in the header chunk", typ, size, c.left())
			break
		}
		m := Message{Type: typ, Flags: flags, Offset: c.off(), Data: c.bytes(size), CreationOrder: order, HasCreationOrder: withOrder, Chunk: chunk}
		o.Messages = append(o.Messages, m)
		if typ == 0x0010 && flags&2 == 0 {
			mc := f.cursor(m.Data, m.Offset, "msg:continuation")
			off := mc.addr()
			ln := mc.length("size")
			if mc.err != nil {
				f.issue("decode:msg:continuation", m.Offset, "%v", mc.err)
			} else {
				conts = append(conts, contBlock{off, ln})
			}
		}
	}
	// gap: must be zero bytes
	for i := c.pos; i < msgEnd; i++ {
		if buf[i] != 0 {
			f.issue("nonzero-gap:"+st, base+uint64(i), "gap byte %#x in chunk of %s", buf[i], owner)
			break
		}
	}
	return conts
}

// chunkParsesExactly reports whether area is an exact sequence of version 2
// messages with plausible types (no gap, no overrun).
func (f *File) chunkParsesExactly(area []byte, hdr int) bool {
	pos := 0
	n := 0
	for pos < len(area) {
		if len(area)-pos < hdr {
			return false
		}
		typ := area[pos]
		size := int(area[pos+1]) | int(area[pos+2])<<8
		if typ > 0x18 {
			return false
		}
		pos += hdr + size
		n++
	}
	return pos == len(area) && n > 0
}
