package specdec

/*
Overview

Decode walks an HDF5 file from the superblock: superblock (v0-v3), the
superblock extension, and depth-first every object reachable through hard
links.  For each object the header (version 1 or 2, with continuation
chunks) is read, all messages are decoded, group contents are enumerated
(symbol table B-tree/SNOD/local heap, link messages, or fractal heap + v2
B-tree), dense attributes are enumerated and the chunk index of chunked
datasets is walked (v1 B-tree; v4: single chunk, implicit, fixed array,
extensible array, v2 B-tree).  Raw data is only read by ReadData; global heap
collections only by DecodeGlobalHeap / GlobalHeapObject / VLenElements /
TouchGlobalHeaps.

Issue keys

	bad-signature:<STRUCT>       OHDR OCHK HEAP TREE SNOD GCOL FRHP FHDB FHIB BTHD BTIN BTLF FAHD FADB EAHD EAIB EADB EASB
	bad-checksum:<STRUCT>        lookup3 mismatch (superblock OHDR OCHK FRHP FHDB FHIB BTHD BTIN BTLF FAHD FADB EA*), bad-checksum:fletcher32
	crc32-instead-of-lookup3:<STRUCT>  the stored checksum is the IEEE CRC-32 of the covered bytes
	ohdr2-no-checksum            v2 header chunk without its 4 checksum bytes (see tolerance)
	version:<what>               unexpected version number (OHDR, localheap, SNOD, GCOL, FRHP, FHDB, FHIB, BTHD, pipeline, fill, linkinfo, ...)
	size-field:<what>            a size/count field that contradicts the file or another structure
	                             (superblock OHDR message continuation localheap SNOD GCOL FRHP FHDB FHIB BTHD BTIN BTLF FAHD layout attribute)
	decode:<struct>:<reason>     the structure/object/message could not be decoded and was skipped (decode:msg:<name> for messages, decode:panic)
	unsorted:SNOD, unsorted:BTLF, key:TREE, level:TREE, node-type:TREE, entries-exceed-2k:TREE|SNOD, cache-type:SNOD, undefined-address:SNOD
	bad-namehash:BTLF, record-type:BTHD|BTIN|BTLF, record-count:BTHD|BTIN, index-count:BTHD, object-count:FRHP
	back-pointer:FHDB|FHIB|FADB|EAIB, block-offset:FHDB|FHIB, fheap-offset-in-header:FHDB
	msg-count:OHDR, align:message, nonzero-gap:OHDR|OCHK, reserved-flags:OHDR, unknown-message:OHDR, trailing-bytes:msg:<name>
	misplaced-message:sohmtable, attrinfo-as-0x000f, extlink-value:msg:link, unterminated:attribute-name
	pipeline-v2-with-v1-body, chunk-dims-no-elemsize:layout, chunk-key-scaled, chunk-key-unaligned:TREE, chunk-key:TREE
	vlen-ref-layout, gzip-container
	align:GCOL, free-space:GCOL, duplicate-index:GCOL
	base-address:superblock, eof-beyond-file:superblock, root-symtab-mismatch:superblock
	unsupported:sohm, unsupported:fheap-huge, unsupported:layout-virtual, unsupported:layout-v4-index-N, limit:objects
	oob:<kind>, beyond-eof:<kind>, overlap:<kindA>:<kindB>   (CheckExtents only)

Extent kinds

	superblock driverinfo OHDR OCHK localheap localheap-data TREE SNOD GCOL FRHP FHDB FHIB BTHD BTIN BTLF
	fixed-array extensible-array data-contiguous data-chunk

Deviations from the text of the specification that the reference
implementation's files require (and that this decoder therefore follows):
the version 1 shared message body is a symbol table entry (reserved bytes, a
length-sized name offset, then the object header address); the end-of-file
address of the superblock is an absolute file address; the local heap free
list is terminated by the value 1; version 1/2 layout messages store the
element size as the last of "dimensionality" dimension sizes; datatype
messages may be followed by unused bytes inside their message; compound,
enumeration and array datatypes with version > 3 use the version 3 encoding.
*/
