package specdec

import "fmt"

// extensibleArrayChunks enumerates a version 4 extensible array chunk index
// (index type 4).  Elements are chunk records in linear chunk-index order
// where the unlimited dimension varies slowest.
func (f *File) extensibleArrayChunks(o *Object, owner string, cbytes uint64, filtered bool) error {
	l := o.Layout
	O, L := uint64(f.Super.OffsetSize), uint64(f.Super.LengthSize)
	rank := len(l.ChunkShape)
	a := f.abs(l.BTreeAddr)
	hl := 4 + 1 + 1 + 1 + 1 + 1 + 1 + 1 + 1 + 6*L + O + 4
	buf, err := f.read(a, hl)
	if err != nil {
		return fmt.Errorf("extensible array header: %v", err)
	}
	c := f.cursor(buf, a, "EAHD")
	if !c.sig("EAHD") {
		f.issue("bad-signature:EAHD", a, "%s: extensible array header starts with % x", owner, buf[:4])
		return fmt.Errorf("extensible array header signature")
	}
	if v := c.u8("version"); v != 0 {
		f.issue("version:EAHD", a, "extensible array version %d", v)
	}
	client := c.u8("type")
	esz := uint64(c.u8("size"))
	maxBits := uint(c.u8("size"))
	idxElmts := uint64(c.u8("count"))
	dblkMin := uint64(c.u8("count"))
	sblkMinPtrs := uint64(c.u8("count"))
	pageBits := uint(c.u8("size"))
	c.length("count") // number of secondary blocks
	c.length("size")
	c.length("count") // number of data blocks
	c.length("size")
	maxIdxSet := c.length("count")
	c.length("count")
	iblk := c.addr()
	end := c.pos
	stored := c.u32("checksum")
	f.extent(a, a+hl, "extensible-array", owner)
	f.checksum("EAHD", a, buf[:end], stored)
	filt := client == 1
	if filt != filtered {
		f.issue("client-id:EAHD", a, "%s: client id %d, dataset filtered=%v", owner, client, filtered)
	}
	minE := O
	if filt {
		minE = O + 5
	}
	if esz < minE || esz > O+12 || maxBits == 0 || maxBits > 64 || !isPow2(dblkMin) || !isPow2(sblkMinPtrs) || sblkMinPtrs < 2 || pageBits > 32 ||
		uint(log2floor(dblkMin)) > maxBits {
		return fmt.Errorf("extensible array parameters: element size %d, max bits %d, data block min %d, super block min pointers %d", esz, maxBits, dblkMin, sblkMinPtrs)
	}
	if f.isUndef(iblk) {
		return nil
	}
	offSize := uint64((maxBits + 7) / 8)
	nsblksTotal := 1 + int(maxBits) - log2floor(dblkMin)
	iblkNsblks := 2 * log2floor(sblkMinPtrs)
	ndblkAddrs := 2 * (sblkMinPtrs - 1)
	nsblkAddrs := 0
	if nsblksTotal > iblkNsblks {
		nsblkAddrs = nsblksTotal - iblkNsblks
	}
	// chunk coordinates from the linear index: the unlimited dimension is moved to the front
	unlim := -1
	for i, m := range o.Space.MaxDims {
		if m == Undef {
			unlim = i
			break
		}
	}
	order := make([]int, 0, rank)
	if unlim > 0 {
		order = append(order, unlim)
	}
	for i := 0; i < rank; i++ {
		if !(unlim > 0 && i == unlim) {
			order = append(order, i)
		}
	}
	// Chunks per (swizzled) dimension, [0] unused.  Releases of the reference
	// implementation differ in whether the maximum or the current dimensions
	// are used when the unlimited dimension is not the slowest one; both
	// variants are computed and the one that places every allocated chunk
	// inside the dataset wins (maximum dimensions preferred).
	gridMax := make([]uint64, rank)
	gridCur := make([]uint64, rank)
	for k, d := range order {
		cd := o.Space.Dims[d]
		md := cd
		if len(o.Space.MaxDims) == rank && o.Space.MaxDims[d] != Undef && o.Space.MaxDims[d] > md {
			md = o.Space.MaxDims[d]
		}
		gridMax[k] = (md + l.ChunkShape[d] - 1) / l.ChunkShape[d]
		gridCur[k] = (cd + l.ChunkShape[d] - 1) / l.ChunkShape[d]
		if gridMax[k] == 0 {
			gridMax[k] = 1
		}
		if gridCur[k] == 0 {
			gridCur[k] = 1
		}
	}
	coordsWith := func(grid []uint64, idx uint64) []uint64 {
		sw := make([]uint64, rank)
		for k := rank - 1; k >= 1; k-- {
			sw[k] = idx % grid[k]
			idx /= grid[k]
		}
		if rank > 0 {
			sw[0] = idx
		}
		out := make([]uint64, rank)
		for k, d := range order {
			out[d] = sw[k] * l.ChunkShape[d]
		}
		return out
	}
	var linear []uint64 // linear index of each chunk appended to l.Chunks
	coords := func(idx uint64) []uint64 {
		linear = append(linear, idx)
		return coordsWith(gridMax, idx)
	}
	defer func() {
		inside := func(off []uint64) bool {
			for d := range off {
				if off[d] >= o.Space.Dims[d] && o.Space.Dims[d] > 0 {
					return false
				}
			}
			return true
		}
		n := len(l.Chunks)
		if len(linear) > n {
			linear = linear[:n]
		}
		base := n - len(linear)
		okMax, okCur := true, true
		for i, idx := range linear {
			if !inside(l.Chunks[base+i].Offset) {
				okMax = false
			}
			if !inside(coordsWith(gridCur, idx)) {
				okCur = false
			}
		}
		if !okMax && okCur {
			for i, idx := range linear {
				l.Chunks[base+i].Offset = coordsWith(gridCur, idx)
			}
		}
	}()
	next := uint64(0) // linear index of the next element
	budget := uint64(f.Size)/esz + 16
	readElems := func(ec *cur, count uint64) {
		for i := uint64(0); i < count && ec.err == nil; i++ {
			ch := Chunk{Size: cbytes}
			ch.Addr = ec.addr()
			if filt {
				ch.Size = ec.uN(int(esz-O-4), "size")
				ch.FilterMask = ec.u32("flags")
			}
			idx := next
			next++
			if ec.err != nil || f.isUndef(ch.Addr) || idx >= maxIdxSet {
				continue
			}
			ch.Offset = coords(idx)
			l.Chunks = append(l.Chunks, ch)
		}
	}
	// index block
	ia := f.abs(iblk)
	isz := 4 + 1 + 1 + O + idxElmts*esz + ndblkAddrs*O + uint64(nsblkAddrs)*O + 4
	ib, err := f.read(ia, isz)
	if err != nil {
		return fmt.Errorf("extensible array index block: %v", err)
	}
	f.extent(ia, ia+isz, "extensible-array", owner)
	ic := f.cursor(ib, ia, "EAIB")
	if !ic.sig("EAIB") {
		f.issue("bad-signature:EAIB", ia, "%s: index block starts with % x", owner, ib[:4])
		return fmt.Errorf("extensible array index block signature")
	}
	ic.u8("version")
	ic.u8("type")
	if ha := ic.addr(); ha != l.BTreeAddr {
		f.issue("back-pointer:EAIB", ia, "%s: header address %d, expected %d", owner, ha, l.BTreeAddr)
	}
	readElems(ic, idxElmts)
	dblkAddrs := make([]uint64, 0, ndblkAddrs)
	for i := uint64(0); i < ndblkAddrs; i++ {
		dblkAddrs = append(dblkAddrs, ic.addr())
	}
	sblkAddrs := make([]uint64, 0, nsblkAddrs)
	for i := 0; i < nsblkAddrs; i++ {
		sblkAddrs = append(sblkAddrs, ic.addr())
	}
	ie := ic.pos
	ist := ic.u32("checksum")
	if ic.err != nil {
		return ic.err
	}
	f.checksum("EAIB", ia, ib[:ie], ist)
	pageN := uint64(1) << pageBits
	// readDataBlock reads one data block of nelmts elements.
	readDataBlock := func(addr uint64, nelmts uint64) error {
		if f.isUndef(addr) {
			next += nelmts
			return nil
		}
		if nelmts > budget {
			return fmt.Errorf("data block of %d elements exceeds the file", nelmts)
		}
		da := f.abs(addr)
		pre := 4 + 1 + 1 + O + offSize
		paged := nelmts > pageN
		size := pre + nelmts*esz + 4
		if paged {
			npages := nelmts / pageN
			size = pre + 4 + npages*(pageN*esz+4)
		}
		db, err := f.read(da, size)
		if err != nil {
			return fmt.Errorf("extensible array data block: %v", err)
		}
		f.extent(da, da+size, "extensible-array", owner)
		dc := f.cursor(db, da, "EADB")
		if !dc.sig("EADB") {
			f.issue("bad-signature:EADB", da, "%s: data block starts with % x", owner, db[:4])
			return fmt.Errorf("extensible array data block signature")
		}
		dc.u8("version")
		dc.u8("type")
		dc.addr()
		dc.uN(int(offSize), "offset")
		if !paged {
			readElems(dc, nelmts)
			e := dc.pos
			st := dc.u32("checksum")
			if dc.err != nil {
				return dc.err
			}
			f.checksum("EADB", da, db[:e], st)
			return nil
		}
		e := dc.pos
		st := dc.u32("checksum")
		if dc.err != nil {
			return dc.err
		}
		f.checksum("EADB", da, db[:e], st)
		for p := uint64(0); p < nelmts/pageN; p++ {
			ps := dc.pos
			// pages that were never initialised are all zero on disk; their
			// elements decode as address 0 which no chunk can have
			if allZero(db[ps:minInt(len(db), ps+int(pageN*esz+4))]) {
				dc.skip(int(pageN*esz+4), "")
				next += pageN
				continue
			}
			readElems(dc, pageN)
			pe := dc.pos
			pst := dc.u32("checksum")
			if dc.err != nil {
				return dc.err
			}
			f.checksum("EADB", da+uint64(ps), db[ps:pe], pst)
		}
		return dc.err
	}
	// data blocks addressed from the index block, then those in secondary blocks
	di := 0
	for s := 0; s < nsblksTotal && next < maxIdxSet; s++ {
		ndblks := uint64(1) << uint(s/2)
		dnel := (uint64(1) << uint((s+1)/2)) * dblkMin
		if s < iblkNsblks {
			for k := uint64(0); k < ndblks && next < maxIdxSet; k++ {
				if di >= len(dblkAddrs) {
					break
				}
				if err := readDataBlock(dblkAddrs[di], dnel); err != nil {
					return err
				}
				di++
			}
			continue
		}
		sa := sblkAddrs[s-iblkNsblks]
		if f.isUndef(sa) {
			next += ndblks * dnel
			continue
		}
		if ndblks > budget {
			return fmt.Errorf("secondary block with %d data blocks exceeds the file", ndblks)
		}
		sabs := f.abs(sa)
		var pageInit uint64
		if dnel > pageN {
			pageInit = ((dnel / pageN) + 7) / 8 * ndblks
		}
		ssz := 4 + 1 + 1 + O + offSize + pageInit + ndblks*O + 4
		sb, err := f.read(sabs, ssz)
		if err != nil {
			return fmt.Errorf("extensible array secondary block: %v", err)
		}
		f.extent(sabs, sabs+ssz, "extensible-array", owner)
		sc := f.cursor(sb, sabs, "EASB")
		if !sc.sig("EASB") {
			f.issue("bad-signature:EASB", sabs, "%s: secondary block starts with % x", owner, sb[:4])
			return fmt.Errorf("extensible array secondary block signature")
		}
		sc.u8("version")
		sc.u8("type")
		sc.addr()
		sc.uN(int(offSize), "offset")
		sc.skip(int(pageInit), "")
		addrs := make([]uint64, 0, ndblks)
		for k := uint64(0); k < ndblks; k++ {
			addrs = append(addrs, sc.addr())
		}
		se := sc.pos
		sst := sc.u32("checksum")
		if sc.err != nil {
			return sc.err
		}
		f.checksum("EASB", sabs, sb[:se], sst)
		for _, da := range addrs {
			if next >= maxIdxSet {
				break
			}
			if err := readDataBlock(da, dnel); err != nil {
				return err
			}
		}
	}
	return nil
}
