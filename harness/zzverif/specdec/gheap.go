package specdec

import "fmt"

// DecodeGlobalHeap decodes (once) the global heap collection at addr (as stored).
// Structural problems are recorded as issues; an error is returned only when the
// collection cannot be decoded at all.
func (f *File) DecodeGlobalHeap(addr uint64) (*GCOL, error) {
	if g, ok := f.gcols[addr]; ok {
		if g == nil {
			return nil, fmt.Errorf("global heap collection at %d not decodable", addr)
		}
		return g, nil
	}
	f.gcols[addr] = nil
	a := f.abs(addr)
	if a == Undef {
		return nil, fmt.Errorf("global heap collection address undefined")
	}
	L := uint64(f.Super.LengthSize)
	hl := 8 + L
	head, err := f.read(a, hl)
	if err != nil {
		f.issue("decode:GCOL:read", a, "%v", err)
		return nil, err
	}
	c := f.cursor(head, a, "GCOL")
	if !c.sig("GCOL") {
		f.issue("bad-signature:GCOL", a, "global heap collection starts with % x", head[:4])
		return nil, fmt.Errorf("no GCOL signature at %d", a)
	}
	g := &GCOL{Addr: addr}
	g.Version = int(c.u8("version"))
	if g.Version != 1 {
		f.issue("version:GCOL", a, "global heap collection version %d", g.Version)
	}
	c.skip(3, "reserved")
	g.Size = c.length("size")
	size := g.Size
	if size < hl || size > uint64(f.Size) || a+size > uint64(f.Size) {
		f.issue("size-field:GCOL", a, "collection size %d at offset %d in a file of %d bytes", size, a, f.Size)
		if a+hl >= uint64(f.Size) {
			return nil, fmt.Errorf("global heap collection at %d: size %d", a, size)
		}
		size = uint64(f.Size) - a
	}
	if g.Size%8 != 0 {
		f.issue("align:GCOL", a, "collection size %d is not a multiple of 8", g.Size)
	}
	if g.Size < 4096 {
		f.issue("size-field:GCOL", a, "collection size %d below the minimum of 4096", g.Size)
	}
	f.extent(a, a+size, "GCOL", "/")
	buf, err := f.read(a, size)
	if err != nil {
		return nil, err
	}
	ohl := 8 + L
	pos := hl
	seen := map[uint16]bool{}
	sawFree := false
	for pos < size {
		if size-pos < ohl {
			// Too small for an object header: implicit free space.
			break
		}
		if sawFree {
			f.issue("free-space:GCOL", a+pos, "data after the free-space object")
			break
		}
		oc := f.cursor(buf[pos:pos+ohl], a+pos, "GCOL")
		var ob GCOLObject
		ob.Offset = a + pos
		ob.Index = oc.u16("id")
		ob.RefCount = oc.u16("count")
		oc.skip(4, "reserved")
		sizeKind := "object-size"
		if ob.Index == 0 {
			sizeKind = "free-size" // the free-space object: a field class of its own (C07)
		}
		ob.Size = oc.length(sizeKind)
		if ob.Index == 0 {
			// free-space object: size includes the object header and must reach the end
			sawFree = true
			if ob.Size != size-pos {
				f.issue("free-space:GCOL", a+pos, "free-space object size %d, %d bytes remain in the collection", ob.Size, size-pos)
			}
			g.Objects = append(g.Objects, ob)
			pos = size
			break
		}
		if pos%8 != 0 {
			f.issue("align:GCOL", a+pos, "object %d starts at unaligned offset %d", ob.Index, pos)
		}
		if ob.Size > size-pos-ohl {
			f.issue("size-field:GCOL", a+pos, "object %d size %d exceeds the %d bytes left in the collection", ob.Index, ob.Size, size-pos-ohl)
			break
		}
		if seen[ob.Index] {
			f.issue("duplicate-index:GCOL", a+pos, "object index %d occurs twice", ob.Index)
		}
		seen[ob.Index] = true
		ob.Data = buf[pos+ohl : pos+ohl+ob.Size]
		g.Objects = append(g.Objects, ob)
		adv := ohl + (ob.Size+7)&^7
		if adv > size-pos {
			f.issue("align:GCOL", a+pos, "padding of object %d crosses the collection end", ob.Index)
			adv = size - pos
		}
		pos += adv
	}
	f.gcols[addr] = g
	return g, nil
}

func allZero(b []byte) bool {
	for _, x := range b {
		if x != 0 {
			return false
		}
	}
	return true
}

// GlobalHeapObject returns the data of object index of the collection at addr.
func (f *File) GlobalHeapObject(addr uint64, index uint32) ([]byte, error) {
	g, err := f.DecodeGlobalHeap(addr)
	if err != nil {
		return nil, err
	}
	if index == 0 || index > 0xffff {
		return nil, fmt.Errorf("global heap object index %d", index)
	}
	for i := range g.Objects {
		if uint32(g.Objects[i].Index) == index {
			return g.Objects[i].Data, nil
		}
	}
	return nil, fmt.Errorf("global heap collection at %d has no object %d", addr, index)
}

// VLenElements splits raw variable-length data (dataset or attribute bytes of
// a vlen type) into the byte strings of its elements.  For sequences the
// length counts base-type elements.
func (f *File) VLenElements(raw []byte, t *Datatype) ([][]byte, error) {
	if t == nil || t.Class != 9 || t.Base == nil {
		return nil, fmt.Errorf("not a variable-length datatype")
	}
	O := f.Super.OffsetSize
	es := 4 + O + 4
	if int(t.Size) != es {
		return nil, fmt.Errorf("vlen element size %d, expected %d", t.Size, es)
	}
	if len(raw)%es != 0 {
		return nil, fmt.Errorf("raw length %d is not a multiple of %d", len(raw), es)
	}
	bsz := uint64(t.Base.Size)
	if t.VLenIsString {
		bsz = 1
	}
	le := func(b []byte) uint64 {
		var v uint64
		for i := len(b) - 1; i >= 0; i-- {
			v = v<<8 | uint64(b[i])
		}
		return v
	}
	norm := func(a uint64) uint64 {
		if O < 8 && a == f.undef() {
			return Undef
		}
		return a
	}
	fetch := func(n, addr, idx uint64) ([]byte, error) {
		if n == 0 || addr == 0 && idx == 0 {
			return []byte{}, nil
		}
		if f.isUndef(addr) {
			return nil, fmt.Errorf("undefined collection address with length %d", n)
		}
		d, err := f.GlobalHeapObject(addr, uint32(idx))
		if err != nil {
			return nil, err
		}
		want, ovf := mulOverflow(n, bsz)
		if ovf || want > uint64(len(d)) {
			return nil, fmt.Errorf("element of %d x %d bytes, heap object has %d", n, bsz, len(d))
		}
		return d[:want], nil
	}
	out := make([][]byte, 0, len(raw)/es)
	for p := 0; p < len(raw); p += es {
		e := raw[p : p+es]
		n := le(e[:4])
		addr := norm(le(e[4 : 4+O]))
		idx := le(e[4+O:])
		mark := len(f.Issues)
		d, err := fetch(n, addr, idx)
		if err != nil {
			// alternative (non-conforming) layout: address, index, padding
			a2 := norm(le(e[:O]))
			i2 := le(e[O : O+4])
			if !f.isUndef(a2) && a2 != 0 && i2 != 0 {
				mark2 := len(f.Issues)
				if d2, err2 := f.GlobalHeapObject(a2, uint32(i2)); err2 == nil {
					f.issue("vlen-ref-layout", 0, "vlen element stored as (address %d, index %d, padding) instead of (length, address, index)", a2, i2)
					if f.tolerate(TolVLenRefLayout) {
						// drop the issues raised by the failed strict reading of this element
						f.rollbackIssues(mark, mark2)
						out = append(out, d2)
						continue
					}
				} else {
					f.rollbackIssues(mark2, len(f.Issues))
				}
			}
			return nil, fmt.Errorf("element %d: %v", p/es, err)
		}
		out = append(out, d)
	}
	return out, nil
}

// TouchGlobalHeaps reads the raw data of every dataset and attribute whose
// datatype contains variable-length parts and decodes all global heap
// collections they refer to (recording their extents, fields and issues).
// It returns the number of collections decoded.
func (f *File) TouchGlobalHeaps() int {
	O := f.Super.OffsetSize
	var visit func(t *Datatype, raw []byte, depth int)
	visit = func(t *Datatype, raw []byte, depth int) {
		if t == nil || depth > 16 || !t.usesGlobalHeap() || t.Size == 0 {
			return
		}
		es := int(t.Size)
		for p := 0; p+es <= len(raw); p += es {
			e := raw[p : p+es]
			switch t.Class {
			case 9:
				if es != 8+O {
					return
				}
				var addr uint64
				for i := O - 1; i >= 0; i-- {
					addr = addr<<8 | uint64(e[4+i])
				}
				n := uint64(e[0]) | uint64(e[1])<<8 | uint64(e[2])<<16 | uint64(e[3])<<24
				if n == 0 || addr == 0 || f.isUndef(addr) {
					continue
				}
				if els, err := f.VLenElements(e, t); err == nil && t.Base != nil && t.Base.usesGlobalHeap() && len(els) == 1 {
					visit(t.Base, els[0], depth+1)
				}
			case 7:
				// dataset region reference: global heap address + object index
				if t.RefType == 1 && es == O+4 {
					var addr uint64
					for i := O - 1; i >= 0; i-- {
						addr = addr<<8 | uint64(e[i])
					}
					if addr != 0 && !f.isUndef(addr) {
						f.DecodeGlobalHeap(addr)
					}
				}
			case 6:
				for _, m := range t.Members {
					if m.Type != nil && m.Type.usesGlobalHeap() && uint64(m.Offset)+uint64(m.Type.Size) <= uint64(len(e)) {
						visit(m.Type, e[m.Offset:m.Offset+m.Type.Size], depth+1)
					}
				}
			case 10:
				if t.Base != nil {
					visit(t.Base, e, depth+1)
				}
			}
		}
	}
	for _, o := range f.Objects {
		if o.Kind == "dataset" && o.Type.usesGlobalHeap() {
			if d, err := f.ReadData(o); err == nil {
				visit(o.Type, d, 0)
			}
		}
		for i := range o.Attrs {
			if o.Attrs[i].Type.usesGlobalHeap() {
				visit(o.Attrs[i].Type, o.Attrs[i].Raw, 0)
			}
		}
	}
	n := 0
	for _, g := range f.gcols {
		if g != nil {
			n++
		}
	}
	return n
}

// rollbackIssues removes f.Issues[from:to].
func (f *File) rollbackIssues(from, to int) {
	if from < 0 || to > len(f.Issues) || from >= to {
		return
	}
	for _, is := range f.Issues[from:to] {
		delete(f.issueSeen, is)
	}
	f.Issues = append(f.Issues[:from], f.Issues[to:]...)
}
