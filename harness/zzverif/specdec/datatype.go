package specdec

import "fmt"

// decodeDatatype decodes one datatype message at the cursor (recursively).
func (f *File) decodeDatatype(c *cur, depth int) (*Datatype, error) {
	if depth > 32 {
		return nil, fmt.Errorf("datatype nesting too deep")
	}
	old := c.st
	c.st = "msg:datatype"
	defer func() { c.st = old }()
	start := c.pos
	cv := c.u8("version")
	c.f.field(c.off(), 3, "count", c.st) // class bit field (for compounds and enums: the member count)
	bf := c.bytes(3)
	size := c.u32("size")
	if c.err != nil {
		return nil, c.err
	}
	t := &Datatype{Class: int(cv & 0x0f), Version: int(cv >> 4), Size: size}
	copy(t.BitField[:], bf)
	b0, b1, b2 := bf[0], bf[1], bf[2]
	_ = b2
	if t.Version < 1 || t.Version > 5 {
		return nil, fmt.Errorf("datatype version %d", t.Version)
	}
	switch t.Class {
	case 0, 4: // fixed point, bitfield
		t.BigEndian = b0&1 != 0
		t.Signed = t.Class == 0 && b0&8 != 0
		t.BitOffset = c.u16("offset")
		t.Precision = c.u16("size")
	case 1: // floating point
		t.BigEndian = b0&1 != 0
		if b0&0x40 != 0 {
			// VAX byte order (bit 6 with bit 0)
			t.BigEndian = false
		}
		t.Norm = int(b0>>4) & 3
		t.SignLoc = b1
		t.BitOffset = c.u16("offset")
		t.Precision = c.u16("size")
		t.ExpLoc = c.u8("offset")
		t.ExpSize = c.u8("size")
		t.MantLoc = c.u8("offset")
		t.MantSize = c.u8("size")
		t.ExpBias = c.u32("")
	case 2: // time
		t.BigEndian = b0&1 != 0
		t.Precision = c.u16("size")
	case 3: // string
		t.StrPad = int(b0 & 0x0f)
		t.CharSet = int(b0 >> 4)
	case 5: // opaque
		n := int(b0)
		tag := c.bytes(n)
		if c.err == nil {
			t.OpaqueTag = cstr(tag)
		}
	case 6: // compound
		n := int(b0) | int(b1)<<8
		for i := 0; i < n && c.err == nil; i++ {
			var m Member
			nameStart := c.pos
			m.Name = c.cstring()
			if c.err != nil {
				break
			}
			if t.Version < 3 {
				// padded with the terminator to a multiple of 8
				l := c.pos - nameStart
				c.skip((8-l%8)%8, "")
			}
			if t.Version >= 3 {
				w := limitEncSize(uint64(size))
				if w > 4 {
					w = 4
				}
				m.Offset = uint32(c.uN(w, "offset"))
			} else {
				m.Offset = c.u32("offset")
			}
			if t.Version == 1 {
				nd := int(c.u8("count"))
				c.skip(3, "reserved")
				c.skip(4, "")
				c.skip(4, "reserved")
				var dims [4]uint32
				for k := 0; k < 4; k++ {
					dims[k] = c.u32("")
				}
				if nd > 4 {
					return nil, fmt.Errorf("compound member %q dimensionality %d", m.Name, nd)
				}
				if nd > 0 {
					m.Dims = append(m.Dims, dims[:nd]...)
				}
			}
			if c.err != nil {
				break
			}
			mt, err := f.decodeDatatype(c, depth+1)
			if err != nil {
				return nil, fmt.Errorf("compound member %q: %v", m.Name, err)
			}
			m.Type = mt
			t.Members = append(t.Members, m)
		}
	case 7: // reference
		t.RefType = int(b0 & 0x0f)
	case 8: // enumeration
		n := int(b0) | int(b1)<<8
		base, err := f.decodeDatatype(c, depth+1)
		if err != nil {
			return nil, fmt.Errorf("enum base: %v", err)
		}
		t.Base = base
		for i := 0; i < n && c.err == nil; i++ {
			nameStart := c.pos
			name := c.cstring()
			if c.err != nil {
				break
			}
			if t.Version < 3 {
				l := c.pos - nameStart
				c.skip((8-l%8)%8, "")
			}
			t.EnumNames = append(t.EnumNames, name)
		}
		for i := 0; i < n && c.err == nil; i++ {
			v := c.bytes(int(base.Size))
			if c.err == nil {
				t.EnumValues = append(t.EnumValues, append([]byte{}, v...))
			}
		}
	case 9: // variable length
		t.VLenIsString = b0&0x0f == 1
		t.StrPad = int(b0 >> 4)
		t.CharSet = int(b1 & 0x0f)
		base, err := f.decodeDatatype(c, depth+1)
		if err != nil {
			return nil, fmt.Errorf("vlen base: %v", err)
		}
		t.Base = base
	case 10: // array
		nd := int(c.u8("count"))
		if t.Version < 3 {
			c.skip(3, "reserved")
		}
		if nd > 32 {
			return nil, fmt.Errorf("array dimensionality %d", nd)
		}
		for i := 0; i < nd; i++ {
			t.ArrayDims = append(t.ArrayDims, c.u32("size"))
		}
		if t.Version < 3 {
			c.skip(4*nd, "") // permutation indices
		}
		if c.err != nil {
			break
		}
		base, err := f.decodeDatatype(c, depth+1)
		if err != nil {
			return nil, fmt.Errorf("array base: %v", err)
		}
		t.Base = base
	case 11: // complex number (format version 4 files)
		base, err := f.decodeDatatype(c, depth+1)
		if err != nil {
			return nil, fmt.Errorf("complex base: %v", err)
		}
		t.Base = base
	default:
		return nil, fmt.Errorf("datatype class %d", t.Class)
	}
	if c.err != nil {
		return nil, c.err
	}
	t.Raw = append([]byte{}, c.buf[start:c.pos]...)
	return t, nil
}

// HasVLen reports whether the type contains variable-length parts.
func (t *Datatype) HasVLen() bool {
	if t == nil {
		return false
	}
	if t.Class == 9 {
		return true
	}
	if t.Base != nil && t.Base.HasVLen() {
		return true
	}
	for _, m := range t.Members {
		if m.Type.HasVLen() {
			return true
		}
	}
	return false
}

// usesGlobalHeap reports whether elements of the type point into the global
// heap (variable-length data or dataset region references).
func (t *Datatype) usesGlobalHeap() bool {
	if t == nil {
		return false
	}
	if t.Class == 9 || (t.Class == 7 && t.RefType == 1) {
		return true
	}
	if t.Base != nil && t.Base.usesGlobalHeap() {
		return true
	}
	for _, m := range t.Members {
		if m.Type.usesGlobalHeap() {
			return true
		}
	}
	return false
}
