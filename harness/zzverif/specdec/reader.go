package specdec

import (
	"errors"
	"fmt"
	"hash/crc32"
	"math/bits"
)

var errShort = errors.New("short read")

// read returns n bytes at absolute offset off, bounds-checked against the file size.
func (f *File) read(off, n uint64) ([]byte, error) {
	sz := uint64(f.Size)
	if off > sz || n > sz || off+n > sz {
		return nil, fmt.Errorf("read [%d,+%d) outside file of %d bytes", off, n, sz)
	}
	if n == 0 {
		return []byte{}, nil
	}
	buf := make([]byte, n)
	m, err := f.r.ReadAt(buf, int64(off))
	if uint64(m) < n {
		if err == nil {
			err = errShort
		}
		return nil, fmt.Errorf("read [%d,+%d): %v", off, n, err)
	}
	return buf, nil
}

// readUpTo returns at most n bytes at off (fewer at end of file).
func (f *File) readUpTo(off, n uint64) ([]byte, error) {
	sz := uint64(f.Size)
	if off >= sz {
		return nil, fmt.Errorf("offset %d outside file of %d bytes", off, sz)
	}
	if n > sz-off {
		n = sz - off
	}
	return f.read(off, n)
}

func (f *File) undef() uint64 {
	if f.Super.OffsetSize >= 8 || f.Super.OffsetSize <= 0 {
		return Undef
	}
	return (uint64(1) << (8 * uint(f.Super.OffsetSize))) - 1
}

func (f *File) isUndef(a uint64) bool { return a == f.undef() || a == Undef }

// abs converts a stored address to an absolute file offset.
func (f *File) abs(a uint64) uint64 {
	if f.isUndef(a) {
		return Undef
	}
	s := a + f.base
	if s < a {
		return Undef
	}
	return s
}

func (f *File) issue(key string, addr uint64, format string, args ...interface{}) {
	if len(f.Issues) >= 20000 {
		return
	}
	for i, a := range args {
		// keep details short: object names can be tens of kilobytes long
		if s, ok := a.(string); ok && len(s) > 96 {
			args[i] = s[:80] + fmt.Sprintf("...(%d bytes)", len(s))
		}
	}
	is := Issue{Key: key, Addr: addr, Detail: fmt.Sprintf(format, args...)}
	if _, ok := f.issueSeen[is]; ok {
		return
	}
	f.issueSeen[is] = struct{}{}
	f.Issues = append(f.Issues, is)
}

func (f *File) tolerate(name string) bool {
	if f.opt.Tolerate != nil && f.opt.Tolerate[name] {
		f.TolerancesUsed[name]++
		return true
	}
	return false
}

func (f *File) extent(start, end uint64, kind, owner string) {
	if end < start {
		end = start
	}
	k := extKey{start, end, kind}
	if _, ok := f.extSeen[k]; ok {
		return
	}
	f.extSeen[k] = struct{}{}
	f.Extents = append(f.Extents, Extent{Start: start, End: end, Kind: kind, Owner: owner})
}

func (f *File) field(off uint64, width int, kind, st string) {
	fl := Field{Off: off, Width: width, Kind: kind, Struct: st}
	if _, ok := f.fieldSeen[fl]; ok {
		return
	}
	f.fieldSeen[fl] = struct{}{}
	f.Fields = append(f.Fields, fl)
}

// checksum verifies a lookup3 metadata checksum and reports the result.
// stored is the value found in the file, data the covered bytes.
func (f *File) checksum(st string, addr uint64, data []byte, stored uint32) bool {
	calc := Lookup3(data, 0)
	if calc == stored {
		f.Stats["checksum-ok:"+st]++
		return true
	}
	f.Stats["checksum-bad:"+st]++
	if crc32.ChecksumIEEE(data) == stored {
		f.tolerate(TolCRC32)
		f.issue("crc32-instead-of-lookup3:"+st, addr, "stored %#08x is the IEEE CRC-32, lookup3 would be %#08x", stored, calc)
		return false
	}
	f.issue("bad-checksum:"+st, addr, "stored %#08x computed %#08x", stored, calc)
	return false
}

// cur is a bounds-checked cursor over a byte slice that is located at file
// offset base; every read records a Field.
type cur struct {
	f    *File
	buf  []byte
	base uint64
	pos  int
	st   string
	err  error
}

func (f *File) cursor(buf []byte, base uint64, st string) *cur {
	return &cur{f: f, buf: buf, base: base, st: st}
}

func (c *cur) off() uint64 { return c.base + uint64(c.pos) }
func (c *cur) left() int   { return len(c.buf) - c.pos }

func (c *cur) need(n int) bool {
	if c.err != nil {
		return false
	}
	if n < 0 || c.pos+n > len(c.buf) || c.pos+n < c.pos {
		c.err = fmt.Errorf("%s: truncated at +%d (need %d of %d)", c.st, c.pos, n, len(c.buf))
		return false
	}
	return true
}

func (c *cur) uN(n int, kind string) uint64 {
	if n < 0 || n > 8 {
		if c.err == nil {
			c.err = fmt.Errorf("%s: bad integer width %d", c.st, n)
		}
		return 0
	}
	if !c.need(n) {
		return 0
	}
	var v uint64
	for i := n - 1; i >= 0; i-- {
		v = v<<8 | uint64(c.buf[c.pos+i])
	}
	if kind != "" && n > 0 {
		c.f.field(c.off(), n, kind, c.st)
	}
	c.pos += n
	return v
}

func (c *cur) u8(kind string) uint8   { return uint8(c.uN(1, kind)) }
func (c *cur) u16(kind string) uint16 { return uint16(c.uN(2, kind)) }
func (c *cur) u32(kind string) uint32 { return uint32(c.uN(4, kind)) }
func (c *cur) u64(kind string) uint64 { return c.uN(8, kind) }

// addr reads an offset-sized address; the undefined address is normalised to Undef.
func (c *cur) addr() uint64 {
	n := c.f.Super.OffsetSize
	v := c.uN(n, "address")
	if c.err == nil && n < 8 && v == c.f.undef() {
		return Undef
	}
	return v
}

func (c *cur) length(kind string) uint64 { return c.uN(c.f.Super.LengthSize, kind) }

func (c *cur) bytes(n int) []byte {
	if !c.need(n) {
		return nil
	}
	b := c.buf[c.pos : c.pos+n]
	c.pos += n
	return b
}

func (c *cur) skip(n int, kind string) {
	if !c.need(n) {
		return
	}
	if kind != "" && n > 0 {
		c.f.field(c.off(), n, kind, c.st)
	}
	c.pos += n
}

// cstring reads a NUL-terminated string (terminator consumed).
func (c *cur) cstring() string {
	if c.err != nil {
		return ""
	}
	for i := c.pos; i < len(c.buf); i++ {
		if c.buf[i] == 0 {
			s := string(c.buf[c.pos:i])
			c.pos = i + 1
			return s
		}
	}
	c.err = fmt.Errorf("%s: unterminated string at +%d", c.st, c.pos)
	return ""
}

func (c *cur) sig(s string) bool {
	if !c.need(len(s)) {
		return false
	}
	ok := string(c.buf[c.pos:c.pos+len(s)]) == s
	c.f.field(c.off(), len(s), "signature", c.st)
	c.pos += len(s)
	return ok
}

func log2floor(v uint64) int {
	if v == 0 {
		return 0
	}
	return 63 - bits.LeadingZeros64(v)
}

func isPow2(v uint64) bool { return v != 0 && v&(v-1) == 0 }

// limitEncSize is the number of bytes needed to encode values up to limit.
func limitEncSize(limit uint64) int { return log2floor(limit)/8 + 1 }

func cstr(b []byte) string {
	for i, c := range b {
		if c == 0 {
			return string(b[:i])
		}
	}
	return string(b)
}

func mulOverflow(a, b uint64) (uint64, bool) {
	hi, lo := bits.Mul64(a, b)
	return lo, hi != 0
}
