package specdec

// Lookup3 is Bob Jenkins' lookup3 "hashlittle" function, evaluated byte by
// byte exactly as the HDF5 metadata checksum (H5_checksum_lookup3) does.
func Lookup3(data []byte, init uint32) uint32 {
	rot := func(x uint32, k uint) uint32 { return (x << k) | (x >> (32 - k)) }
	length := len(data)
	a := 0xdeadbeef + uint32(length) + init
	b, c := a, a
	k := data
	for len(k) > 12 {
		a += uint32(k[0]) | uint32(k[1])<<8 | uint32(k[2])<<16 | uint32(k[3])<<24
		b += uint32(k[4]) | uint32(k[5])<<8 | uint32(k[6])<<16 | uint32(k[7])<<24
		c += uint32(k[8]) | uint32(k[9])<<8 | uint32(k[10])<<16 | uint32(k[11])<<24
		// mix
		a -= c
		a ^= rot(c, 4)
		c += b
		b -= a
		b ^= rot(a, 6)
		a += c
		c -= b
		c ^= rot(b, 8)
		b += a
		a -= c
		a ^= rot(c, 16)
		c += b
		b -= a
		b ^= rot(a, 19)
		a += c
		c -= b
		c ^= rot(b, 4)
		b += a
		k = k[12:]
	}
	n := len(k)
	if n == 0 {
		return c
	}
	if n >= 12 {
		c += uint32(k[11]) << 24
	}
	if n >= 11 {
		c += uint32(k[10]) << 16
	}
	if n >= 10 {
		c += uint32(k[9]) << 8
	}
	if n >= 9 {
		c += uint32(k[8])
	}
	if n >= 8 {
		b += uint32(k[7]) << 24
	}
	if n >= 7 {
		b += uint32(k[6]) << 16
	}
	if n >= 6 {
		b += uint32(k[5]) << 8
	}
	if n >= 5 {
		b += uint32(k[4])
	}
	if n >= 4 {
		a += uint32(k[3]) << 24
	}
	if n >= 3 {
		a += uint32(k[2]) << 16
	}
	if n >= 2 {
		a += uint32(k[1]) << 8
	}
	a += uint32(k[0])
	// final
	c ^= b
	c -= rot(b, 14)
	a ^= c
	a -= rot(c, 11)
	b ^= a
	b -= rot(a, 25)
	c ^= b
	c -= rot(b, 16)
	a ^= c
	a -= rot(c, 4)
	b ^= a
	b -= rot(a, 14)
	c ^= b
	c -= rot(b, 24)
	return c
}

// Fletcher32 is the HDF5 variant of the Fletcher-32 checksum
// (H5_checksum_fletcher32): 16-bit big-endian words, an odd trailing byte is
// taken as the high byte of a last word.
func Fletcher32(data []byte) uint32 {
	n := len(data) / 2
	var sum1, sum2 uint32
	p := 0
	for n > 0 {
		t := n
		if t > 360 {
			t = 360
		}
		n -= t
		for ; t > 0; t-- {
			sum1 += uint32(data[p])<<8 | uint32(data[p+1])
			p += 2
			sum2 += sum1
		}
		sum1 = (sum1 & 0xffff) + (sum1 >> 16)
		sum2 = (sum2 & 0xffff) + (sum2 >> 16)
	}
	if len(data)%2 == 1 {
		sum1 += uint32(data[p]) << 8
		sum2 += sum1
		sum1 = (sum1 & 0xffff) + (sum1 >> 16)
		sum2 = (sum2 & 0xffff) + (sum2 >> 16)
	}
	sum1 = (sum1 & 0xffff) + (sum1 >> 16)
	sum2 = (sum2 & 0xffff) + (sum2 >> 16)
	return sum2<<16 | sum1
}
