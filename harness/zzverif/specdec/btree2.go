package specdec

type bt2 struct {
	f        *File
	owner    string
	addr     uint64
	typ      uint8
	nodeSize uint64
	recSize  uint64
	depth    int
	maxNrec  []uint64 // per depth (0 = leaf)
	cumSize  []int    // bytes of the "total number of records" field for a child at depth d
	nrecSize int
	seen     map[uint64]bool
	fn       func(rec []byte, off uint64)
	total    uint64
	budget   int
}

// walkBTree2 visits all records of the version 2 B-tree at addr in order.
// expectType < 0 accepts any record type.  It returns the header's record type.
func (f *File) walkBTree2(addr uint64, owner string, expectType int, fn func(rec []byte, off uint64)) (int, bool) {
	a := f.abs(addr)
	if a == Undef {
		f.issue("decode:BTHD:undefined-address", 0, "%s", owner)
		return 0, false
	}
	O, L := f.Super.OffsetSize, f.Super.LengthSize
	hl := 4 + 1 + 1 + 4 + 2 + 2 + 1 + 1 + O + 2 + L + 4
	buf, err := f.read(a, uint64(hl))
	if err != nil {
		f.issue("decode:BTHD:read", a, "%s: %v", owner, err)
		return 0, false
	}
	c := f.cursor(buf, a, "BTHD")
	if !c.sig("BTHD") {
		f.issue("bad-signature:BTHD", a, "%s: B-tree header starts with % x", owner, buf[:4])
		f.issue("decode:BTHD:signature", a, "%s", owner)
		return 0, false
	}
	if v := c.u8("version"); v != 0 {
		f.issue("version:BTHD", a, "v2 B-tree version %d", v)
	}
	t := &bt2{f: f, owner: owner, addr: addr, seen: map[uint64]bool{}, fn: fn, budget: 1 << 22}
	t.typ = c.u8("type")
	t.nodeSize = uint64(c.u32("size"))
	t.recSize = uint64(c.u16("size"))
	t.depth = int(c.u16("count"))
	c.u8("")
	c.u8("")
	root := c.addr()
	rootN := uint64(c.u16("count"))
	totalN := c.length("count")
	end := c.pos
	stored := c.u32("checksum")
	f.extent(a, a+uint64(hl), "BTHD", owner)
	f.checksum("BTHD", a, buf[:end], stored)
	if expectType >= 0 && int(t.typ) != expectType {
		f.issue("record-type:BTHD", a, "%s: B-tree record type %d, expected %d", owner, t.typ, expectType)
	}
	if t.recSize == 0 || t.nodeSize < 10+t.recSize || t.nodeSize > uint64(f.Size) || t.depth > 32 {
		f.issue("size-field:BTHD", a, "%s: node size %d record size %d depth %d", owner, t.nodeSize, t.recSize, t.depth)
		f.issue("decode:BTHD:parameters", a, "%s", owner)
		return int(t.typ), false
	}
	// node capacities per depth
	t.maxNrec = make([]uint64, t.depth+1)
	t.cumSize = make([]int, t.depth+1)
	cum := make([]uint64, t.depth+1)
	t.maxNrec[0] = (t.nodeSize - 10) / t.recSize
	cum[0] = t.maxNrec[0]
	t.nrecSize = limitEncSize(t.maxNrec[0])
	for d := 1; d <= t.depth; d++ {
		ptr := uint64(O + t.nrecSize + t.cumSize[d-1])
		if t.nodeSize < 10+ptr {
			f.issue("size-field:BTHD", a, "%s: node size %d too small for depth %d", owner, t.nodeSize, d)
			return int(t.typ), false
		}
		t.maxNrec[d] = (t.nodeSize - 10 - ptr) / (t.recSize + ptr)
		c1, o1 := mulOverflow(t.maxNrec[d]+1, cum[d-1])
		if o1 || c1+t.maxNrec[d] < c1 {
			cum[d] = ^uint64(0)
		} else {
			cum[d] = c1 + t.maxNrec[d]
		}
		t.cumSize[d] = limitEncSize(cum[d])
	}
	if f.isUndef(root) {
		if totalN != 0 {
			f.issue("size-field:BTHD", a, "%s: %d records but no root node", owner, totalN)
		}
		return int(t.typ), true
	}
	t.node(root, rootN, t.depth)
	if t.total != totalN {
		f.issue("record-count:BTHD", a, "%s: header says %d records, tree holds %d", owner, totalN, t.total)
	}
	return int(t.typ), true
}

func (t *bt2) node(addr, nrec uint64, depth int) uint64 {
	f := t.f
	a := f.abs(addr)
	if a == Undef {
		f.issue("decode:BTLF:undefined-address", 0, "%s", t.owner)
		return 0
	}
	st := "BTLF"
	sig := "BTLF"
	if depth > 0 {
		st, sig = "BTIN", "BTIN"
	}
	if t.seen[a] {
		f.issue("decode:"+st+":loop", a, "%s: node reached twice", t.owner)
		return 0
	}
	t.seen[a] = true
	if t.budget--; t.budget < 0 {
		return 0
	}
	if nrec > t.maxNrec[depth] {
		f.issue("size-field:"+st, a, "%s: %d records exceed the node capacity %d", t.owner, nrec, t.maxNrec[depth])
		f.issue("decode:"+st+":record-count", a, "%s", t.owner)
		return 0
	}
	f.extent(a, a+t.nodeSize, st, t.owner)
	buf, err := f.read(a, t.nodeSize)
	if err != nil {
		f.issue("decode:"+st+":read", a, "%s: %v", t.owner, err)
		return 0
	}
	c := f.cursor(buf, a, st)
	if !c.sig(sig) {
		f.issue("bad-signature:"+st, a, "%s: node starts with % x", t.owner, buf[:4])
		f.issue("decode:"+st+":signature", a, "%s", t.owner)
		return 0
	}
	if v := c.u8("version"); v != 0 {
		f.issue("version:"+st, a, "v2 B-tree node version %d", v)
	}
	if ty := c.u8("type"); ty != t.typ {
		f.issue("record-type:"+st, a, "%s: node type %d, header type %d", t.owner, ty, t.typ)
	}
	recs := make([][]byte, nrec)
	offs := make([]uint64, nrec)
	for i := uint64(0); i < nrec; i++ {
		offs[i] = c.off()
		recs[i] = c.bytes(int(t.recSize))
	}
	type child struct{ addr, nrec, total uint64 }
	var kids []child
	if depth > 0 {
		for i := uint64(0); i <= nrec; i++ {
			var k child
			k.addr = c.addr()
			k.nrec = c.uN(t.nrecSize, "count")
			if depth > 1 {
				k.total = c.uN(t.cumSize[depth-1], "count")
			} else {
				k.total = k.nrec
			}
			kids = append(kids, k)
		}
	}
	end := c.pos
	stored := c.u32("checksum")
	if c.err != nil {
		f.issue("decode:"+st+":truncated", a, "%s: %v", t.owner, c.err)
		return 0
	}
	f.checksum(st, a, buf[:end], stored)
	var count uint64
	if depth == 0 {
		for i := range recs {
			t.fn(recs[i], offs[i])
		}
		t.total += nrec
		return nrec
	}
	for i := range kids {
		got := t.node(kids[i].addr, kids[i].nrec, depth-1)
		if depth > 1 && got != kids[i].total {
			f.issue("record-count:BTIN", a, "%s: child %d total %d, counted %d", t.owner, i, kids[i].total, got)
		}
		count += got
		if uint64(i) < nrec {
			t.fn(recs[i], offs[i])
			t.total++
			count++
		}
	}
	return count
}
