package specdec

type localHeap struct {
	addr     uint64 // stored
	dataAddr uint64 // stored
	segSize  uint64
	freeHead uint64
	data     []byte
	dataAbs  uint64
}

// str returns the NUL-terminated string at offset off of the heap data segment.
func (h *localHeap) str(off uint64) (string, bool) {
	if h == nil || off >= uint64(len(h.data)) {
		return "", false
	}
	for i := off; i < uint64(len(h.data)); i++ {
		if h.data[i] == 0 {
			return string(h.data[off:i]), true
		}
	}
	return string(h.data[off:]), false
}

// localHeap decodes (once) the local heap at addr.
func (f *File) localHeap(addr uint64, owner string) *localHeap {
	if h, ok := f.lheaps[addr]; ok {
		return h
	}
	f.lheaps[addr] = nil
	a := f.abs(addr)
	if a == Undef {
		f.issue("decode:localheap:undefined-address", 0, "local heap address undefined (%s)", owner)
		return nil
	}
	hl := uint64(8 + 2*f.Super.LengthSize + f.Super.OffsetSize)
	buf, err := f.read(a, hl)
	if err != nil {
		f.issue("decode:localheap:read", a, "%s: %v", owner, err)
		return nil
	}
	c := f.cursor(buf, a, "HEAP")
	if !c.sig("HEAP") {
		f.issue("bad-signature:HEAP", a, "local heap of %s starts with % x", owner, buf[:4])
		f.issue("decode:localheap:signature", a, "%s", owner)
		return nil
	}
	if v := c.u8("version"); v != 0 {
		f.issue("version:localheap", a, "local heap version %d", v)
	}
	c.skip(3, "reserved")
	h := &localHeap{addr: addr}
	h.segSize = c.length("size")
	h.freeHead = c.length("offset")
	h.dataAddr = c.addr()
	f.extent(a, a+hl, "localheap", owner)
	da := f.abs(h.dataAddr)
	if da == Undef {
		f.issue("size-field:localheap", a, "%s: data segment address undefined", owner)
		f.issue("decode:localheap:data-segment", a, "%s", owner)
		return nil
	}
	h.dataAbs = da
	data, err := f.read(da, h.segSize)
	if err != nil {
		f.issue("size-field:localheap", a, "%s: data segment [%d,+%d) outside the file of %d bytes", owner, da, h.segSize, f.Size)
		// Salvage what is there so that the walk can continue.
		if da < uint64(f.Size) {
			data, _ = f.read(da, uint64(f.Size)-da)
		}
		if data == nil {
			f.issue("decode:localheap:data-segment", a, "%s", owner)
			return nil
		}
		f.extent(da, da+uint64(len(data)), "localheap-data", owner)
	} else {
		f.extent(da, da+h.segSize, "localheap-data", owner)
	}
	h.data = data
	// free list: blocks of (next offset, size), terminated by 1 (reference
	// implementation) or the undefined address (specification text).
	L := uint64(f.Super.LengthSize)
	lundef := Undef
	if L < 8 {
		lundef = (uint64(1) << (8 * L)) - 1
	}
	fo := h.freeHead
	steps := 0
	visited := map[uint64]bool{}
	for fo != 1 && fo != lundef {
		steps++
		if steps > 65536 || visited[fo] {
			f.issue("size-field:localheap", a, "%s: free list too long or cyclic", owner)
			break
		}
		visited[fo] = true
		if fo > h.segSize || fo+2*L > h.segSize || fo+2*L > uint64(len(data)) {
			f.issue("size-field:localheap", a, "%s: free block offset %d outside the data segment of %d bytes", owner, fo, h.segSize)
			break
		}
		fc := f.cursor(data[fo:fo+2*L], da+fo, "localheap-data")
		next := fc.length("offset")
		size := fc.length("size")
		if size < 2*L || fo+size > h.segSize || fo+size < fo {
			f.issue("size-field:localheap", a, "%s: free block at %d has size %d (segment %d)", owner, fo, size, h.segSize)
			break
		}
		fo = next
	}
	f.lheaps[addr] = h
	return h
}

type symEntry struct {
	nameOff   uint64
	name      string
	addr      uint64
	cacheType uint32
	scratch   []byte
	off       uint64
}

type stabWalk struct {
	f       *File
	heap    *localHeap
	owner   string
	seen    map[uint64]bool
	entries []symEntry
	nodes   int
}

// readSymbolTable enumerates an old-style group.
func (f *File) readSymbolTable(btree, heapAddr uint64, owner string) []Link {
	h := f.localHeap(heapAddr, owner)
	if h == nil {
		f.issue("decode:group:no-heap", f.abs(heapAddr), "%s: group skipped, local heap not decodable", owner)
		return nil
	}
	if f.isUndef(btree) {
		f.issue("decode:group:no-btree", 0, "%s: symbol table B-tree address undefined", owner)
		return nil
	}
	w := &stabWalk{f: f, heap: h, owner: owner, seen: map[uint64]bool{}}
	w.node(btree, -1, 0)
	var links []Link
	prev := ""
	for i, e := range w.entries {
		if i > 0 && !(prev < e.name) {
			f.issue("unsorted:SNOD", e.off, "%s: entry %q follows %q", owner, e.name, prev)
		}
		prev = e.name
		l := Link{Name: e.name, Kind: "hard", Target: e.addr}
		if e.cacheType == 2 {
			l.Kind = "soft"
			l.Target = Undef
			so := uint64(e.scratch[0]) | uint64(e.scratch[1])<<8 | uint64(e.scratch[2])<<16 | uint64(e.scratch[3])<<24
			s, ok := h.str(so)
			if !ok {
				f.issue("size-field:SNOD", e.off, "%s: soft link value offset %d outside the local heap", owner, so)
			}
			l.SoftPath = s
		} else if f.isUndef(e.addr) {
			f.issue("undefined-address:SNOD", e.off, "%s: entry %q has an undefined object header address", owner, e.name)
			continue
		}
		links = append(links, l)
	}
	return links
}

// node walks one v1 B-tree node of a group (node type 0).
func (w *stabWalk) node(addr uint64, expectLevel int, depth int) {
	f := w.f
	a := f.abs(addr)
	if a == Undef {
		f.issue("decode:TREE:undefined-address", 0, "%s", w.owner)
		return
	}
	if w.seen[a] || depth > 64 {
		f.issue("decode:TREE:loop", a, "%s: B-tree node reached twice", w.owner)
		return
	}
	w.seen[a] = true
	w.nodes++
	if w.nodes > 1<<20 {
		return
	}
	O, L := uint64(f.Super.OffsetSize), uint64(f.Super.LengthSize)
	hl := 8 + 2*O
	head, err := f.read(a, hl)
	if err != nil {
		f.issue("decode:TREE:read", a, "%s: %v", w.owner, err)
		return
	}
	c := f.cursor(head, a, "TREE")
	if !c.sig("TREE") {
		f.issue("bad-signature:TREE", a, "%s: B-tree node starts with % x", w.owner, head[:4])
		f.issue("decode:TREE:signature", a, "%s", w.owner)
		return
	}
	nt := c.u8("type")
	level := int(c.u8("count"))
	used := uint64(c.u16("count"))
	c.addr()
	c.addr()
	if nt != 0 {
		f.issue("node-type:TREE", a, "%s: group B-tree node has type %d", w.owner, nt)
		f.issue("decode:TREE:node-type", a, "%s", w.owner)
		return
	}
	if expectLevel >= 0 && level != expectLevel {
		f.issue("level:TREE", a, "%s: node level %d, expected %d", w.owner, level, expectLevel)
	}
	K := uint64(f.Super.GroupInternalK)
	full := hl + 2*K*O + (2*K+1)*L
	usedLen := hl + used*O + (used+1)*L
	if used > 2*K {
		f.issue("entries-exceed-2k:TREE", a, "%s: %d entries with K=%d", w.owner, used, K)
		full = usedLen
	}
	end := a + full
	if end > uint64(f.Size) && a+usedLen <= uint64(f.Size) {
		// allocated node size would cross the end of file: report through the extent
	}
	f.extent(a, end, "TREE", w.owner)
	body, err := f.read(a+hl, usedLen-hl)
	if err != nil {
		f.issue("decode:TREE:read", a, "%s: %v", w.owner, err)
		return
	}
	bc := f.cursor(body, a+hl, "TREE")
	keys := make([]uint64, 0, used+1)
	kids := make([]uint64, 0, used)
	for i := uint64(0); i < used; i++ {
		keys = append(keys, bc.length("offset"))
		kids = append(kids, bc.addr())
	}
	keys = append(keys, bc.length("offset"))
	if bc.err != nil {
		f.issue("decode:TREE:truncated", a, "%s: %v", w.owner, bc.err)
		return
	}
	for i, kid := range kids {
		before := len(w.entries)
		if level > 0 {
			w.node(kid, level-1, depth+1)
		} else {
			w.snod(kid)
		}
		// key check: key[i] < names in child i <= key[i+1]
		lo, okLo := w.heap.str(keys[i])
		hi, okHi := w.heap.str(keys[i+1])
		if !okLo || !okHi {
			f.issue("key:TREE", a, "%s: key heap offset outside the local heap", w.owner)
			continue
		}
		for _, e := range w.entries[before:] {
			if !(lo < e.name && e.name <= hi) {
				f.issue("key:TREE", a, "%s: entry %q outside key range (%q,%q] of child %d", w.owner, e.name, lo, hi, i)
				break
			}
		}
	}
}

func (w *stabWalk) snod(addr uint64) {
	f := w.f
	a := f.abs(addr)
	if a == Undef {
		f.issue("decode:SNOD:undefined-address", 0, "%s", w.owner)
		return
	}
	if w.seen[a] {
		f.issue("decode:SNOD:loop", a, "%s: symbol table node reached twice", w.owner)
		return
	}
	w.seen[a] = true
	O := uint64(f.Super.OffsetSize)
	head, err := f.read(a, 8)
	if err != nil {
		f.issue("decode:SNOD:read", a, "%s: %v", w.owner, err)
		return
	}
	c := f.cursor(head, a, "SNOD")
	if !c.sig("SNOD") {
		f.issue("bad-signature:SNOD", a, "%s: symbol table node starts with % x", w.owner, head[:4])
		f.issue("decode:SNOD:signature", a, "%s", w.owner)
		return
	}
	if v := c.u8("version"); v != 1 {
		f.issue("version:SNOD", a, "symbol table node version %d", v)
	}
	c.skip(1, "reserved")
	n := uint64(c.u16("count"))
	esz := 2*O + 24
	K := uint64(f.Super.GroupLeafK)
	full := 8 + 2*K*esz
	if n > 2*K {
		f.issue("entries-exceed-2k:SNOD", a, "%s: %d symbols with leaf K=%d", w.owner, n, K)
		full = 8 + n*esz
	}
	f.extent(a, a+full, "SNOD", w.owner)
	body, err := f.read(a+8, n*esz)
	if err != nil {
		f.issue("decode:SNOD:read", a, "%s: %v", w.owner, err)
		return
	}
	bc := f.cursor(body, a+8, "SNOD")
	for i := uint64(0); i < n; i++ {
		var e symEntry
		e.off = bc.off()
		e.nameOff = bc.addr()
		e.addr = bc.addr()
		e.cacheType = bc.u32("type")
		bc.skip(4, "reserved")
		e.scratch = bc.bytes(16)
		if bc.err != nil {
			f.issue("decode:SNOD:truncated", a, "%s: %v", w.owner, bc.err)
			return
		}
		name, ok := w.heap.str(e.nameOff)
		if !ok {
			f.issue("size-field:SNOD", e.off, "%s: link name offset %d outside / unterminated in the local heap of %d bytes", w.owner, e.nameOff, len(w.heap.data))
			if e.nameOff >= uint64(len(w.heap.data)) {
				continue
			}
		}
		if e.cacheType > 2 {
			f.issue("cache-type:SNOD", e.off, "%s: entry %q has cache type %d", w.owner, name, e.cacheType)
		}
		e.name = name
		w.entries = append(w.entries, e)
	}
}
