// Package specdec is an independent, read-only decoder of the HDF5 file format
// written from the "HDF5 File Format Specification Version 3.0".  It is used as
// the observer of a verification harness: besides decoding it records every
// on-disk structure touched (Extents), every structural field decoded (Fields)
// and every deviation from the specification (Issues).
//
// Address conventions: Object.Addr, Link.Target, Layout.Address and all other
// addresses inside decoded structures are as stored in the file (relative to
// the superblock base address).  Extent.Start/End, Field.Off and Issue.Addr
// are absolute file offsets.  For files with base address 0 both coincide.
package specdec

import "io"

// Options controls a Decode run.
type Options struct {
	// Tolerate lists named deviations that the walk may accept in order to
	// continue (each use is still recorded in File.TolerancesUsed and as an
	// Issue).  Empty = strict = the specification.
	Tolerate   map[string]bool
	MaxObjects int // safety bound, default 100000
}

// Names of the supported tolerances.
const (
	TolOhdr2NoChecksum = "ohdr2-no-checksum"
	TolPipelineV2V1    = "pipeline-v2-with-v1-body"
	TolVLenRefLayout   = "vlen-ref-layout"
	TolChunkKeyScaled  = "chunk-key-scaled"
	TolGzipContainer   = "gzip-container"
	TolCRC32           = "crc32-checksum"
	// TolChunkNoElemSize accepts version 1-3 chunked layouts (and their B-tree
	// keys) that carry exactly rank dimensions, i.e. lack the trailing
	// element-size dimension.
	TolChunkNoElemSize = "chunk-dims-no-elemsize"
	// TolAttrInfo0F accepts an attribute info body under message type 0x000F.
	TolAttrInfo0F = "attrinfo-as-0x000f"
	// TolFHeapOffset accepts managed fractal heap object offsets that do not
	// count the direct block header (offset 0 = first byte after the header).
	TolFHeapOffset = "fheap-offset-excludes-header"
	// TolAttrIndexType5 accepts an attribute name index B-tree whose records
	// have the link name layout (type 5: hash, 7-byte heap id).
	TolAttrIndexType5 = "attr-index-type5"
)

// AllTolerances returns a Tolerate map with every supported tolerance enabled.
func AllTolerances() map[string]bool {
	return map[string]bool{
		TolOhdr2NoChecksum: true, TolPipelineV2V1: true, TolVLenRefLayout: true,
		TolChunkKeyScaled: true, TolGzipContainer: true, TolCRC32: true, TolChunkNoElemSize: true,
		TolAttrInfo0F: true, TolFHeapOffset: true, TolAttrIndexType5: true,
	}
}

// Undef is the "undefined address" for 8-byte offsets.
const Undef = ^uint64(0)

// Extent is a byte range of the file occupied by one structure.
type Extent struct {
	Start, End uint64 // End exclusive
	Kind       string
	Owner      string
}

// Field is one decoded structural field.
type Field struct {
	Off    uint64
	Width  int
	Kind   string // "size","count","address","version","signature","checksum","flags","type","offset","hash","id","reserved"
	Struct string
}

// Issue is one deviation from the specification.
type Issue struct {
	Key    string
	Addr   uint64
	Detail string
}

// Superblock holds the decoded superblock.
type Superblock struct {
	Version             int
	OffsetSize          int
	LengthSize          int
	BaseAddress         uint64
	EOFAddress          uint64
	RootAddress         uint64 // root group object header
	ExtensionAddress    uint64 // v2/v3
	FreeSpaceAddress    uint64 // v0/v1
	DriverInfoAddress   uint64 // v0/v1
	RootBTreeAddr       uint64 // v0/v1 root symbol table entry scratch (cache type 1)
	RootHeapAddr        uint64
	RootCacheType       uint32
	RootLinkNameOffset  uint64
	GroupLeafK          int
	GroupInternalK      int
	ChunkInternalK      int
	ConsistencyFlags    uint32
	FreeSpaceVersion    int
	RootGroupVersion    int
	SharedHeaderVersion int
	Checksum            uint32
	ChecksumOK          bool // v2/v3 (true for v0/v1)
	UserBlockOffset     uint64
	Length              int // encoded length in bytes
}

// File is the result of Decode.
type File struct {
	Size           int64
	Super          Superblock
	SuperExt       *Object // superblock extension object header (v2/v3), not part of Objects
	Root           *Object
	Objects        map[uint64]*Object
	Extents        []Extent
	Fields         []Field
	Issues         []Issue
	TolerancesUsed map[string]int
	Stats          map[string]int // counters, e.g. "checksum-ok:OHDR", "checksum-bad:BTHD"

	r    io.ReaderAt
	opt  Options
	base uint64

	fieldSeen map[Field]struct{}
	extSeen   map[extKey]struct{}
	issueSeen map[Issue]struct{}
	gcols     map[uint64]*GCOL
	lheaps    map[uint64]*localHeap
	fheaps    map[uint64]*fractalHeap
	nobjects  int
	hv        int // header version of the message being decoded (0 = embedded, no trailing check)
	headers   map[uint64]*Object
}

type extKey struct {
	s, e uint64
	k    string
}

// Message is one raw object header message.
type Message struct {
	Type             uint16
	Flags            uint8
	Offset           uint64 // absolute file offset of the message body
	Data             []byte
	CreationOrder    uint16
	HasCreationOrder bool
	Chunk            int // index of the header chunk the message lives in
}

// Link is one entry of a group.
type Link struct {
	Name             string
	Kind             string // "hard","soft","external","userdefined"
	Target           uint64 // hard: object header address
	SoftPath         string
	ExtFile          string
	ExtPath          string
	UserType         uint8
	UserData         []byte
	CreationOrder    uint64
	HasCreationOrder bool
	CharSet          int
}

// Dataspace is a decoded dataspace message.
type Dataspace struct {
	Version int
	Kind    string // "scalar","simple","null"
	Dims    []uint64
	MaxDims []uint64
	Present bool
}

// NumElements returns the number of elements (1 for scalar, 0 for null).
func (s Dataspace) NumElements() uint64 {
	switch s.Kind {
	case "null":
		return 0
	case "scalar":
		return 1
	}
	n := uint64(1)
	for _, d := range s.Dims {
		if d != 0 && n > ^uint64(0)/d {
			return ^uint64(0)
		}
		n *= d
	}
	return n
}

// Attr is one attribute.
type Attr struct {
	Name             string
	Version          int
	Type             *Datatype
	Space            Dataspace
	Raw              []byte
	CreationOrder    uint32
	HasCreationOrder bool
	CharSet          int
	Offset           uint64 // absolute offset of the attribute message body
}

// Member is one member of a compound datatype.
type Member struct {
	Name   string
	Offset uint32
	Type   *Datatype
	Dims   []uint32 // version 1 compound members only: array dimensions of the member
}

// Datatype is a decoded datatype message.
type Datatype struct {
	Class     int
	Version   int
	Size      uint32
	BitField  [3]byte
	Raw       []byte
	BigEndian bool
	Signed    bool
	BitOffset uint16
	Precision uint16
	// float
	ExpLoc, ExpSize, MantLoc, MantSize uint8
	ExpBias                            uint32
	SignLoc                            uint8
	Norm                               int
	// string
	StrPad, CharSet int
	OpaqueTag       string
	Members         []Member
	Base            *Datatype
	EnumNames       []string
	EnumValues      [][]byte
	VLenIsString    bool
	ArrayDims       []uint32
	RefType         int
	Shared          bool   // resolved from a committed datatype
	SharedAddr      uint64 // object header address of the committed datatype
}

// Filter is one entry of a filter pipeline.
type Filter struct {
	ID         uint16
	Name       string
	Flags      uint16
	ClientData []uint32
}

// Chunk is one allocated chunk of a chunked dataset.
type Chunk struct {
	Offset     []uint64 // element coordinates of the chunk's first element (without the element-size dimension)
	Addr       uint64   // as stored
	Size       uint64   // bytes on disk
	FilterMask uint32
}

// Layout is a decoded data layout message.
type Layout struct {
	Version     int
	Class       string // "compact","contiguous","chunked","virtual"
	Address     uint64
	Size        uint64
	CompactData []byte
	ChunkDims   []uint32 // as stored (v1-v3: includes the trailing element-size dimension)
	ChunkShape  []uint64 // chunk dimensions in elements
	KeyDims     int      // number of offsets per v1 B-tree chunk key (= stored dimensionality)
	IndexType   int      // v4
	BTreeAddr   uint64   // v1 B-tree (v1-v3) or index address (v4)
	V4Flags     uint8
	// v4 index parameters
	SingleFilteredSize uint64
	SingleFilterMask   uint32
	PageBits           uint8
	EAParams           [5]uint8
	BT2NodeSize        uint32
	BT2Split, BT2Merge uint8
	// virtual
	VirtHeapAddr  uint64
	VirtHeapIndex uint32

	Chunks      []Chunk
	ChunksErr   string // non-empty when the chunk index could not be enumerated
	Unsupported string
}

// ExternalFile is one slot of an external data files message.
type ExternalFile struct {
	NameOffset uint64
	Name       string
	Offset     uint64
	Size       uint64
}

// Object is one decoded object header.
type Object struct {
	Addr            uint64
	Kind            string // "group","dataset","datatype","unknown"
	HeaderVersion   int
	HeaderFlags     uint8
	Messages        []Message
	Links           []Link
	Attrs           []Attr
	Type            *Datatype
	Space           Dataspace
	Layout          *Layout
	Filters         []Filter
	PipelineVersion int
	PipelineErr     string // non-empty when a filter pipeline message is present but not decodable
	Fill            []byte
	FillDefined     bool
	FillVersion     int
	FillAllocTime   int
	FillWriteTime   int
	RefCount        uint32
	ModTime         uint32
	HasModTime      bool
	AccessTime      uint32
	ChangeTime      uint32
	BirthTime       uint32
	Comment         string
	External        []ExternalFile
	MaxCompact      uint16
	MinDense        uint16
	NumMessagesV1   int // the "total number of header messages" field of a v1 header
	Path            string

	// group storage
	SymTabBTree, SymTabHeap uint64
	HasSymTab               bool
	LinkInfo                *LinkInfo
	AttrInfo                *AttrInfo
	GroupInfo               *GroupInfo
	BTreeK                  *[3]uint16
	chunks                  int
}

// LinkInfo is a decoded link info message.
type LinkInfo struct {
	Flags          uint8
	MaxCreationIdx uint64
	HeapAddr       uint64
	NameBTree      uint64
	CorderBTree    uint64
}

// AttrInfo is a decoded attribute info message.
type AttrInfo struct {
	Flags          uint8
	MaxCreationIdx uint16
	HeapAddr       uint64
	NameBTree      uint64
	CorderBTree    uint64
}

// GroupInfo is a decoded group info message.
type GroupInfo struct {
	Flags                  uint8
	MaxCompact, MinDense   uint16
	EstEntries, EstNameLen uint16
}

// GCOL is a decoded global heap collection.
type GCOL struct {
	Addr    uint64 // as stored
	Version int
	Size    uint64
	Objects []GCOLObject
}

// GCOLObject is one object of a global heap collection.
type GCOLObject struct {
	Index    uint16
	RefCount uint16
	Size     uint64
	Offset   uint64 // absolute offset of the object header inside the collection
	Data     []byte
}
