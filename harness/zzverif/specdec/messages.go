package specdec

import "fmt"

var filterNames = map[uint16]string{1: "deflate", 2: "shuffle", 3: "fletcher32", 4: "szip", 5: "nbit", 6: "scaleoffset"}

// resolveShared resolves a message whose "shared" flag is set.  It returns the
// body of the real message and its absolute file offset.
func (f *File) resolveShared(body []byte, off uint64, typ uint16, owner string) ([]byte, uint64, uint64, bool) {
	c := f.cursor(body, off, "msg:shared")
	ver := c.u8("version")
	styp := c.u8("type")
	var addr uint64
	switch ver {
	case 1:
		// Version 1 embeds a symbol table entry: after the reserved bytes comes
		// a length-sized link name offset, then the object header address (this
		// is what the reference implementation reads and writes).
		c.skip(6, "reserved")
		c.length("offset")
		addr = c.addr()
	case 2:
		addr = c.addr()
	case 3:
		if styp == 1 {
			f.issue("unsupported:sohm", off, "message type %#x of %s is stored in the shared object header message heap", typ, owner)
			return nil, 0, 0, false
		}
		addr = c.addr()
	default:
		f.issue("version:shared-message", off, "shared message version %d (%s)", ver, owner)
		return nil, 0, 0, false
	}
	if c.err != nil {
		f.issue("decode:msg:shared", off, "%v", c.err)
		return nil, 0, 0, false
	}
	var target *Object
	if t, ok := f.Objects[addr]; ok {
		target = t
	} else if t, ok := f.headers[addr]; ok {
		target = t
	} else {
		target = f.readHeader(addr, owner)
		f.headers[addr] = target
	}
	if target == nil {
		f.issue("decode:msg:shared-target", off, "cannot read the object header at %d holding shared message type %#x (%s)", addr, typ, owner)
		return nil, 0, 0, false
	}
	for i := range target.Messages {
		m := &target.Messages[i]
		if m.Type == typ && m.Flags&2 == 0 {
			return m.Data, m.Offset, addr, true
		}
	}
	f.issue("decode:msg:shared-target", off, "object header at %d has no message of type %#x (%s)", addr, typ, owner)
	return nil, 0, 0, false
}

// interpret decodes the messages of o into its typed fields.
func (f *File) interpret(o *Object, owner string, isExt bool) {
	f.headers[o.Addr] = o
	hasLinkMsg := false
	for i := range o.Messages {
		m := &o.Messages[i]
		body, off := m.Data, m.Offset
		sharedAddr := Undef
		f.hv = o.HeaderVersion
		if m.Flags&2 != 0 && m.Type != 0 {
			b, o2, sa, ok := f.resolveShared(body, off, m.Type, owner)
			if !ok {
				continue
			}
			body, off, sharedAddr = b, o2, sa
		}
		switch m.Type {
		case 0x0000: // NIL
		case 0x0001:
			sp, err := f.decodeDataspace(body, off)
			if err != nil {
				f.issue("decode:msg:dataspace", off, "%s: %v", owner, err)
				continue
			}
			o.Space = sp
		case 0x0002:
			c := f.cursor(body, off, "msg:linkinfo")
			li := &LinkInfo{HeapAddr: Undef, NameBTree: Undef, CorderBTree: Undef}
			if v := c.u8("version"); v != 0 && c.err == nil {
				f.issue("version:linkinfo", off, "link info version %d", v)
			}
			li.Flags = c.u8("flags")
			if li.Flags&1 != 0 {
				li.MaxCreationIdx = c.u64("count")
			}
			li.HeapAddr = c.addr()
			li.NameBTree = c.addr()
			if li.Flags&2 != 0 {
				li.CorderBTree = c.addr()
			}
			if c.err != nil {
				f.issue("decode:msg:linkinfo", off, "%s: %v", owner, c.err)
				continue
			}
			f.trailing(c, "linkinfo")
			o.LinkInfo = li
		case 0x0003:
			c := f.cursor(body, off, "msg:datatype")
			t, err := f.decodeDatatype(c, 0)
			if err != nil {
				f.issue("decode:msg:datatype", off, "%s: %v", owner, err)
				continue
			}
			if sharedAddr != Undef {
				t.Shared, t.SharedAddr = true, sharedAddr
			}
			o.Type = t
		case 0x0004:
			c := f.cursor(body, off, "msg:fillold")
			n := c.u32("size")
			v := c.bytes(int(n))
			if c.err != nil {
				f.issue("decode:msg:fillold", off, "%s: %v", owner, c.err)
				continue
			}
			if !o.FillDefined && n > 0 {
				o.Fill = append([]byte{}, v...)
				o.FillDefined = true
			}
		case 0x0005:
			f.decodeFill(o, body, off, owner)
		case 0x0006:
			l, err := f.decodeLinkMessage(body, off)
			if err != nil {
				f.issue("decode:msg:link", off, "%s: %v", owner, err)
				continue
			}
			hasLinkMsg = true
			o.Links = append(o.Links, *l)
		case 0x0007:
			f.decodeExternal(o, body, off, owner)
		case 0x0008:
			l, err := f.decodeLayout(body, off, owner)
			if err != nil {
				f.issue("decode:msg:layout", off, "%s: %v", owner, err)
				continue
			}
			o.Layout = l
		case 0x000A:
			c := f.cursor(body, off, "msg:groupinfo")
			gi := &GroupInfo{}
			if v := c.u8("version"); v != 0 && c.err == nil {
				f.issue("version:groupinfo", off, "group info version %d", v)
			}
			gi.Flags = c.u8("flags")
			if gi.Flags&1 != 0 {
				gi.MaxCompact = c.u16("count")
				gi.MinDense = c.u16("count")
			}
			if gi.Flags&2 != 0 {
				gi.EstEntries = c.u16("count")
				gi.EstNameLen = c.u16("size")
			}
			if c.err != nil {
				f.issue("decode:msg:groupinfo", off, "%s: %v", owner, c.err)
				continue
			}
			f.trailing(c, "groupinfo")
			o.GroupInfo = gi
		case 0x000B:
			fl, ver, err := f.decodePipeline(body, off, owner)
			if err != nil {
				f.issue("decode:msg:pipeline", off, "%s: %v", owner, err)
				o.PipelineErr = err.Error()
				continue
			}
			o.Filters, o.PipelineVersion = fl, ver
		case 0x000C:
			a, err := f.decodeAttribute(body, off, owner)
			if err != nil {
				f.issue("decode:msg:attribute", off, "%s: %v", owner, err)
				continue
			}
			if m.HasCreationOrder {
				a.CreationOrder, a.HasCreationOrder = uint32(m.CreationOrder), true
			}
			o.Attrs = append(o.Attrs, *a)
		case 0x000D:
			o.Comment = cstr(body)
		case 0x000E:
			// old modification time: YYYYMMDDhhmmss as ASCII; kept raw in Messages
		case 0x000F:
			c := f.cursor(body, off, "msg:sohmtable")
			ver := c.u8("version")
			c.addr()
			nidx := c.u8("count")
			O := f.Super.OffsetSize
			bad := c.err != nil || ver != 0 || !isExt || c.left() > 7 || !allZero(c.buf[c.pos:])
			if bad {
				// Not a valid shared message table message.  Does the body have
				// exactly the shape of an attribute info message (type 0x0015)?
				if len(body) >= 2 && body[0] == 0 && body[1]&^3 == 0 {
					want := 2 + 2*O
					if body[1]&1 != 0 {
						want += 2
					}
					if body[1]&2 != 0 {
						want += O
					}
					if len(body) == want && !isExt {
						f.issue("attrinfo-as-0x000f", off, "%s: message type 0x000F (shared message table) carries an attribute info body", owner)
						if f.tolerate(TolAttrInfo0F) {
							ac := f.cursor(body, off, "msg:attrinfo")
							ai := &AttrInfo{HeapAddr: Undef, NameBTree: Undef, CorderBTree: Undef}
							ac.u8("version")
							ai.Flags = ac.u8("flags")
							if ai.Flags&1 != 0 {
								ai.MaxCreationIdx = ac.u16("count")
							}
							ai.HeapAddr = ac.addr()
							ai.NameBTree = ac.addr()
							if ai.Flags&2 != 0 {
								ai.CorderBTree = ac.addr()
							}
							if ac.err == nil {
								o.AttrInfo = ai
							}
						}
						continue
					}
				}
				switch {
				case c.err != nil:
					f.issue("decode:msg:sohmtable", off, "%s: %v", owner, c.err)
				case ver != 0:
					f.issue("version:sohmtable", off, "%s: shared message table version %d", owner, ver)
				case !isExt:
					f.issue("misplaced-message:sohmtable", off, "%s: shared message table message outside the superblock extension", owner)
				default:
					f.trailing(c, "sohmtable")
				}
			}
			_ = nidx
		case 0x0010:
			// handled while reading the header
		case 0x0011:
			c := f.cursor(body, off, "msg:symboltable")
			bt := c.addr()
			hp := c.addr()
			if c.err != nil {
				f.issue("decode:msg:symboltable", off, "%s: %v", owner, c.err)
				continue
			}
			f.trailing(c, "symboltable")
			o.SymTabBTree, o.SymTabHeap, o.HasSymTab = bt, hp, true
		case 0x0012:
			c := f.cursor(body, off, "msg:modtime")
			if v := c.u8("version"); v != 1 && c.err == nil {
				f.issue("version:modtime", off, "modification time version %d", v)
			}
			c.skip(3, "reserved")
			t := c.u32("time")
			if c.err != nil {
				f.issue("decode:msg:modtime", off, "%s: %v", owner, c.err)
				continue
			}
			f.trailing(c, "modtime")
			o.ModTime, o.HasModTime = t, true
		case 0x0013:
			c := f.cursor(body, off, "msg:btreek")
			c.u8("version")
			var k [3]uint16
			k[0] = c.u16("count")
			k[1] = c.u16("count")
			k[2] = c.u16("count")
			if c.err != nil {
				f.issue("decode:msg:btreek", off, "%s: %v", owner, c.err)
				continue
			}
			f.trailing(c, "btreek")
			o.BTreeK = &k
		case 0x0014: // driver info
		case 0x0015:
			c := f.cursor(body, off, "msg:attrinfo")
			ai := &AttrInfo{HeapAddr: Undef, NameBTree: Undef, CorderBTree: Undef}
			if v := c.u8("version"); v != 0 && c.err == nil {
				f.issue("version:attrinfo", off, "attribute info version %d", v)
			}
			ai.Flags = c.u8("flags")
			if ai.Flags&1 != 0 {
				ai.MaxCreationIdx = c.u16("count")
			}
			ai.HeapAddr = c.addr()
			ai.NameBTree = c.addr()
			if ai.Flags&2 != 0 {
				ai.CorderBTree = c.addr()
			}
			if c.err != nil {
				f.issue("decode:msg:attrinfo", off, "%s: %v", owner, c.err)
				continue
			}
			f.trailing(c, "attrinfo")
			o.AttrInfo = ai
		case 0x0016:
			c := f.cursor(body, off, "msg:refcount")
			if v := c.u8("version"); v != 0 && c.err == nil {
				f.issue("version:refcount", off, "reference count version %d", v)
			}
			n := c.u32("count")
			if c.err != nil {
				f.issue("decode:msg:refcount", off, "%s: %v", owner, c.err)
				continue
			}
			f.trailing(c, "refcount")
			o.RefCount = n
		case 0x0017, 0x0018: // file space info, metadata cache image
		default:
			f.issue("unknown-message:OHDR", off, "message type %#x in %s", m.Type, owner)
		}
	}
	if isExt {
		return
	}
	// object kind
	switch {
	case o.Layout != nil:
		o.Kind = "dataset"
	case o.HasSymTab || o.LinkInfo != nil || hasLinkMsg || o.GroupInfo != nil:
		o.Kind = "group"
	case o.Type != nil && o.Space.Present:
		o.Kind = "dataset"
	case o.Type != nil:
		o.Kind = "datatype"
	}
	// group contents
	if o.HasSymTab {
		links := f.readSymbolTable(o.SymTabBTree, o.SymTabHeap, owner)
		o.Links = append(o.Links, links...)
	}
	if o.LinkInfo != nil && !f.isUndef(o.LinkInfo.HeapAddr) {
		o.Links = append(o.Links, f.readDenseLinks(o.LinkInfo, owner)...)
	}
	if o.AttrInfo != nil && !f.isUndef(o.AttrInfo.HeapAddr) {
		o.Attrs = append(o.Attrs, f.readDenseAttrs(o.AttrInfo, owner)...)
	}
	if o.Kind == "dataset" && o.Layout != nil {
		f.finishLayout(o, owner)
	}
}

func (f *File) decodeDataspace(body []byte, off uint64) (Dataspace, error) {
	var sp Dataspace
	c := f.cursor(body, off, "msg:dataspace")
	ver := int(c.u8("version"))
	rank := int(c.u8("count"))
	flags := c.u8("flags")
	sp.Version = ver
	switch ver {
	case 1:
		c.skip(1, "reserved")
		c.skip(4, "reserved")
		if rank == 0 {
			sp.Kind = "scalar"
		} else {
			sp.Kind = "simple"
		}
	case 2:
		t := c.u8("type")
		switch t {
		case 0:
			sp.Kind = "scalar"
		case 1:
			sp.Kind = "simple"
		case 2:
			sp.Kind = "null"
		default:
			return sp, fmt.Errorf("dataspace type %d", t)
		}
		if sp.Kind != "simple" && rank != 0 && c.err == nil {
			return sp, fmt.Errorf("%s dataspace with dimensionality %d", sp.Kind, rank)
		}
	default:
		return sp, fmt.Errorf("dataspace version %d", ver)
	}
	for i := 0; i < rank; i++ {
		sp.Dims = append(sp.Dims, c.length("size"))
	}
	if flags&1 != 0 {
		for i := 0; i < rank; i++ {
			sp.MaxDims = append(sp.MaxDims, c.length("size"))
		}
	}
	if ver == 1 && flags&2 != 0 {
		for i := 0; i < rank; i++ {
			c.length("")
		}
	}
	if c.err != nil {
		return sp, c.err
	}
	f.trailing(c, "dataspace")
	sp.Present = true
	return sp, nil
}

func (f *File) decodeFill(o *Object, body []byte, off uint64, owner string) {
	c := f.cursor(body, off, "msg:fill")
	ver := int(c.u8("version"))
	o.FillVersion = ver
	switch ver {
	case 1, 2:
		o.FillAllocTime = int(c.u8("type"))
		o.FillWriteTime = int(c.u8("type"))
		defined := c.u8("flags")
		if ver == 1 || defined != 0 {
			n := c.u32("size")
			if int32(n) > 0 {
				v := c.bytes(int(n))
				if c.err == nil {
					o.Fill = append([]byte{}, v...)
					o.FillDefined = true
				}
			} else if defined != 0 && ver == 2 && n == 0 {
				o.FillDefined = false
			}
		}
	case 3:
		fl := c.u8("flags")
		o.FillAllocTime = int(fl & 3)
		o.FillWriteTime = int(fl>>2) & 3
		if fl&0x20 != 0 {
			n := c.u32("size")
			v := c.bytes(int(n))
			if c.err == nil {
				o.Fill = append([]byte{}, v...)
				o.FillDefined = n > 0
			}
		}
	default:
		f.issue("version:fill", off, "fill value version %d (%s)", ver, owner)
		return
	}
	if c.err != nil {
		f.issue("decode:msg:fill", off, "%s: %v", owner, c.err)
		return
	}
	f.trailing(c, "fill")
}

func (f *File) decodeLinkMessage(body []byte, off uint64) (*Link, error) {
	c := f.cursor(body, off, "msg:link")
	ver := c.u8("version")
	if ver != 1 && c.err == nil {
		return nil, fmt.Errorf("link message version %d", ver)
	}
	flags := c.u8("flags")
	l := &Link{Target: Undef}
	ltype := uint8(0)
	if flags&8 != 0 {
		ltype = c.u8("type")
	}
	if flags&4 != 0 {
		l.CreationOrder = c.u64("count")
		l.HasCreationOrder = true
	}
	if flags&0x10 != 0 {
		l.CharSet = int(c.u8("type"))
	}
	nlen := c.uN(1<<(flags&3), "size")
	if nlen > uint64(c.left()) {
		if c.err != nil {
			return nil, c.err
		}
		return nil, fmt.Errorf("link name length %d exceeds message", nlen)
	}
	l.Name = string(c.bytes(int(nlen)))
	switch {
	case ltype == 0:
		l.Kind = "hard"
		l.Target = c.addr()
	case ltype == 1:
		l.Kind = "soft"
		n := int(c.u16("size"))
		l.SoftPath = string(c.bytes(n))
	case ltype == 64:
		l.Kind = "external"
		n := int(c.u16("size"))
		d := c.bytes(n)
		l.UserType = ltype
		if c.err == nil {
			l.UserData = append([]byte{}, d...)
			// value: version/flags byte, file name NUL, object path NUL
			ok := len(d) >= 3 && d[0] == 0 && d[len(d)-1] == 0
			if ok {
				rest := d[1:]
				l.ExtFile = cstr(rest)
				if len(l.ExtFile)+1 < len(rest) {
					l.ExtPath = cstr(rest[len(l.ExtFile)+1:])
				}
				ok = 1+len(l.ExtFile)+1+len(l.ExtPath)+1 == len(d)
			}
			if !ok {
				l.ExtFile, l.ExtPath = "", ""
				f.issue("extlink-value:msg:link", off, "external link %q: value % x is not (version/flags 0, file name NUL, object path NUL)", l.Name, d)
			}
		}
	case ltype >= 65:
		l.Kind = "userdefined"
		l.UserType = ltype
		n := int(c.u16("size"))
		l.UserData = append([]byte{}, c.bytes(n)...)
	default:
		return nil, fmt.Errorf("link type %d", ltype)
	}
	if c.err != nil {
		return nil, c.err
	}
	if rest := c.left(); rest > 0 && !(f.hv == 1 && rest < 8) && f.hv != 0 {
		// Link messages (and dense link heap objects) have exact sizes: left-over
		// bytes mean that the body does not have the specified layout.
		return nil, fmt.Errorf("%d bytes left after the link value (name %q)", rest, l.Name)
	}
	return l, nil
}

func (f *File) decodeExternal(o *Object, body []byte, off uint64, owner string) {
	c := f.cursor(body, off, "msg:external")
	c.u8("version")
	c.skip(3, "reserved")
	c.u16("count")
	used := int(c.u16("count"))
	heap := c.addr()
	for i := 0; i < used && c.err == nil; i++ {
		var e ExternalFile
		e.NameOffset = c.length("offset")
		e.Offset = c.length("offset")
		e.Size = c.length("size")
		o.External = append(o.External, e)
	}
	if c.err != nil {
		f.issue("decode:msg:external", off, "%s: %v", owner, c.err)
		return
	}
	if h := f.localHeap(heap, owner); h != nil {
		for i := range o.External {
			o.External[i].Name, _ = h.str(o.External[i].NameOffset)
		}
	}
}

func (f *File) decodeLayout(body []byte, off uint64, owner string) (*Layout, error) {
	c := f.cursor(body, off, "msg:layout")
	ver := int(c.u8("version"))
	l := &Layout{Version: ver, Address: Undef, BTreeAddr: Undef}
	classes := []string{"compact", "contiguous", "chunked", "virtual"}
	switch ver {
	case 1, 2:
		nd := int(c.u8("count"))
		cl := int(c.u8("type"))
		c.skip(5, "reserved")
		if cl > 2 {
			return nil, fmt.Errorf("layout class %d", cl)
		}
		l.Class = classes[cl]
		if cl != 0 {
			l.Address = c.addr()
		}
		var dims []uint32
		for i := 0; i < nd; i++ {
			dims = append(dims, c.u32("size"))
		}
		if cl == 2 {
			l.BTreeAddr = l.Address
			l.ChunkDims = dims
			if nd < 1 {
				return nil, fmt.Errorf("chunked layout dimensionality %d", nd)
			}
			for _, d := range dims[:nd-1] {
				l.ChunkShape = append(l.ChunkShape, uint64(d))
			}
		}
		if cl == 0 {
			n := c.u32("size")
			l.Size = uint64(n)
			l.CompactData = append([]byte{}, c.bytes(int(n))...)
		}
	case 3, 4:
		cl := int(c.u8("type"))
		if cl > 3 || (cl == 3 && ver == 3) {
			return nil, fmt.Errorf("layout class %d", cl)
		}
		l.Class = classes[cl]
		switch cl {
		case 0:
			n := int(c.u16("size"))
			l.Size = uint64(n)
			l.CompactData = append([]byte{}, c.bytes(n)...)
		case 1:
			l.Address = c.addr()
			l.Size = c.length("size")
		case 2:
			if ver == 3 {
				nd := int(c.u8("count"))
				if nd < 1 {
					return nil, fmt.Errorf("chunked layout dimensionality %d", nd)
				}
				l.BTreeAddr = c.addr()
				l.Address = l.BTreeAddr
				for i := 0; i < nd; i++ {
					l.ChunkDims = append(l.ChunkDims, c.u32("size"))
				}
				for _, d := range l.ChunkDims[:nd-1] {
					l.ChunkShape = append(l.ChunkShape, uint64(d))
				}
			} else {
				l.V4Flags = c.u8("flags")
				nd := int(c.u8("count"))
				enc := int(c.u8("size"))
				if nd < 2 || enc < 1 || enc > 8 {
					if c.err != nil {
						return nil, c.err
					}
					return nil, fmt.Errorf("v4 chunked layout dimensionality %d, encoded length %d", nd, enc)
				}
				for i := 0; i < nd; i++ {
					d := c.uN(enc, "size")
					l.ChunkDims = append(l.ChunkDims, uint32(d))
					if i < nd-1 {
						l.ChunkShape = append(l.ChunkShape, d)
					}
				}
				l.IndexType = int(c.u8("type"))
				switch l.IndexType {
				case 1:
					if l.V4Flags&2 != 0 {
						l.SingleFilteredSize = c.length("size")
						l.SingleFilterMask = c.u32("flags")
					}
				case 2:
				case 3:
					l.PageBits = c.u8("size")
				case 4:
					for i := 0; i < 5; i++ {
						l.EAParams[i] = c.u8("size")
					}
				case 5:
					l.BT2NodeSize = c.u32("size")
					l.BT2Split = c.u8("")
					l.BT2Merge = c.u8("")
				default:
					if c.err == nil {
						return nil, fmt.Errorf("v4 chunk index type %d", l.IndexType)
					}
				}
				l.BTreeAddr = c.addr()
				l.Address = l.BTreeAddr
			}
		case 3:
			l.VirtHeapAddr = c.addr()
			l.VirtHeapIndex = c.u32("id")
		}
	default:
		return nil, fmt.Errorf("layout version %d", ver)
	}
	if c.err != nil {
		return nil, c.err
	}
	f.trailing(c, "layout")
	return l, nil
}

// decodePipeline decodes a filter pipeline message.
func (f *File) decodePipeline(body []byte, off uint64, owner string) ([]Filter, int, error) {
	if len(body) < 2 {
		return nil, 0, fmt.Errorf("pipeline message of %d bytes", len(body))
	}
	ver := int(body[0])
	switch ver {
	case 1:
		fl, err := f.parsePipeline(body, off, 1, false)
		if err == nil {
			fl, err = f.parsePipeline(body, off, 1, true)
		}
		return fl, 1, err
	case 2:
		fl, err := f.parsePipeline(body, off, 2, false)
		if err == nil {
			fl, err = f.parsePipeline(body, off, 2, true)
			return fl, 2, err
		}
		// Ambiguous: does the body parse with the version 1 layout (exactly, or
		// with unpadded names / client data)?
		for _, layout := range []int{1, 11} {
			if _, err1 := f.parsePipeline(body, off, layout, false); err1 == nil {
				f.issue("pipeline-v2-with-v1-body", off, "%s: version byte 2 but the body only parses with the version 1 layout (%v)", owner, err)
				if f.tolerate(TolPipelineV2V1) {
					fl, err1 := f.parsePipeline(body, off, layout, true)
					return fl, 2, err1
				}
				return nil, 2, fmt.Errorf("version 2 message with a version 1 body")
			}
		}
		return nil, 2, err
	}
	f.issue("version:pipeline", off, "%s: filter pipeline version %d", owner, ver)
	return nil, ver, fmt.Errorf("filter pipeline version %d", ver)
}

// parsePipeline parses body with the given layout version; it requires that
// the message is consumed up to (8-byte) padding.
func (f *File) parsePipeline(body []byte, off uint64, layout int, record bool) ([]Filter, error) {
	st := "msg:pipeline"
	ff := f
	if !record {
		// parse on a scratch File so that no fields are recorded
		ff = &File{Super: f.Super, fieldSeen: map[Field]struct{}{}}
	}
	c := ff.cursor(body, off, st)
	c.u8("version")
	n := int(c.u8("count"))
	lenient := layout == 11 // version 1 field layout, names padded but length not, no client data padding
	if lenient {
		layout = 1
	}
	if layout == 1 {
		c.skip(2, "reserved")
		c.skip(4, "reserved")
	}
	if n > 32 {
		return nil, fmt.Errorf("%d filters", n)
	}
	var out []Filter
	for i := 0; i < n; i++ {
		var fl Filter
		fl.ID = c.u16("id")
		nameLen := 0
		if layout == 1 || fl.ID >= 256 {
			nameLen = int(c.u16("size"))
		}
		fl.Flags = c.u16("flags")
		ncd := int(c.u16("count"))
		if fl.ID == 0 {
			return nil, fmt.Errorf("filter %d: reserved filter id 0", i)
		}
		if layout == 1 && nameLen%8 != 0 {
			if !lenient {
				return nil, fmt.Errorf("filter %d: version 1 name length %d not a multiple of 8", i, nameLen)
			}
			nameLen = pad8(nameLen)
		}
		nb := c.bytes(nameLen)
		if c.err != nil {
			return nil, c.err
		}
		fl.Name = cstr(nb)
		if ncd*4 > c.left() {
			return nil, fmt.Errorf("filter %d: %d client data values exceed the message", i, ncd)
		}
		for k := 0; k < ncd; k++ {
			fl.ClientData = append(fl.ClientData, c.u32(""))
		}
		if layout == 1 && ncd%2 == 1 && !lenient {
			c.skip(4, "")
		}
		if c.err != nil {
			return nil, c.err
		}
		if fl.Name == "" {
			fl.Name = filterNames[fl.ID]
		}
		out = append(out, fl)
	}
	if c.err != nil {
		return nil, c.err
	}
	// trailing bytes may only be alignment padding (zeros, < 8)
	rest := body[c.pos:]
	if len(rest) >= 8 {
		return nil, fmt.Errorf("%d unparsed trailing bytes", len(rest))
	}
	for _, b := range rest {
		if b != 0 {
			return nil, fmt.Errorf("non-zero trailing bytes")
		}
	}
	return out, nil
}

func pad8(n int) int { return (n + 7) &^ 7 }

// decodeAttribute decodes an attribute message body.
func (f *File) decodeAttribute(body []byte, off uint64, owner string) (*Attr, error) {
	c := f.cursor(body, off, "msg:attribute")
	ver := int(c.u8("version"))
	flags := c.u8("flags") // reserved in version 1
	nameSize := int(c.u16("size"))
	dtSize := int(c.u16("size"))
	dsSize := int(c.u16("size"))
	a := &Attr{Version: ver, Offset: off}
	switch ver {
	case 1:
		flags = 0
	case 2:
	case 3:
		a.CharSet = int(c.u8("type"))
	default:
		return nil, fmt.Errorf("attribute version %d", ver)
	}
	if c.err != nil {
		return nil, c.err
	}
	adv := func(n int) int {
		if ver == 1 {
			return pad8(n)
		}
		return n
	}
	nb := c.bytes(adv(nameSize))
	if c.err != nil {
		return nil, fmt.Errorf("name: %v", c.err)
	}
	if nameSize == 0 || nameSize > len(nb) {
		return nil, fmt.Errorf("attribute name size %d", nameSize)
	}
	if nb[nameSize-1] != 0 {
		f.issue("unterminated:attribute-name", off, "%s: attribute name not NUL-terminated", owner)
	}
	a.Name = cstr(nb[:nameSize])
	// datatype
	dtOff := c.off()
	db := c.bytes(adv(dtSize))
	if c.err != nil {
		return nil, fmt.Errorf("attribute %q datatype: %v", a.Name, c.err)
	}
	if dtSize > len(db) {
		return nil, fmt.Errorf("attribute %q datatype size %d", a.Name, dtSize)
	}
	db = db[:dtSize]
	sharedAddr := Undef
	if flags&1 != 0 {
		b, o2, sa, ok := f.resolveShared(db, dtOff, 0x0003, owner)
		if !ok {
			return nil, fmt.Errorf("attribute %q: shared datatype not resolvable", a.Name)
		}
		db, dtOff, sharedAddr = b, o2, sa
	}
	hv := f.hv
	f.hv = 0 // embedded messages carry explicit (possibly padded) sizes
	defer func() { f.hv = hv }()
	tc := f.cursor(db, dtOff, "msg:datatype")
	t, err := f.decodeDatatype(tc, 0)
	if err != nil {
		return nil, fmt.Errorf("attribute %q datatype: %v", a.Name, err)
	}
	if sharedAddr != Undef {
		t.Shared, t.SharedAddr = true, sharedAddr
	}
	a.Type = t
	// dataspace
	dsOff := c.off()
	sb := c.bytes(adv(dsSize))
	if c.err != nil {
		return nil, fmt.Errorf("attribute %q dataspace: %v", a.Name, c.err)
	}
	sb = sb[:dsSize]
	if flags&2 != 0 {
		b, o2, _, ok := f.resolveShared(sb, dsOff, 0x0001, owner)
		if !ok {
			return nil, fmt.Errorf("attribute %q: shared dataspace not resolvable", a.Name)
		}
		sb, dsOff = b, o2
	}
	sp, err := f.decodeDataspace(sb, dsOff)
	if err != nil {
		return nil, fmt.Errorf("attribute %q dataspace: %v", a.Name, err)
	}
	a.Space = sp
	n := sp.NumElements()
	want, ovf := mulOverflow(n, uint64(t.Size))
	if ovf || want > uint64(c.left()) {
		f.issue("size-field:attribute", off, "%s: attribute %q needs %d x %d data bytes, message has %d", owner, a.Name, n, t.Size, c.left())
		want = uint64(c.left())
	}
	a.Raw = append([]byte{}, c.bytes(int(want))...)
	f.hv = hv
	f.trailing(c, "attribute")
	return a, nil
}

// trailing reports bytes of a message body that the decoder did not consume.
// Version 1 headers pad message bodies to a multiple of 8 with zeros.
func (f *File) trailing(c *cur, name string) {
	if c.err != nil || f.hv == 0 {
		return
	}
	rest := c.buf[c.pos:]
	if len(rest) == 0 {
		return
	}
	if f.hv == 1 && len(rest) < 8 {
		return // alignment padding (old files leave arbitrary bytes there)
	}
	f.issue("trailing-bytes:msg:"+name, c.off(), "%d unparsed bytes after the %s message body: % x", len(rest), name, rest[:minInt(len(rest), 16)])
}

func minInt(a, b int) int {
	if a < b {
		return a
	}
	return b
}
