package pools

import (
	"sync/atomic"

	"github.com/scigolib/hdf5/internal/utils"
)

// Dirty fills the buffers that are waiting in the library's buffer pool with a byte
// pattern (a different one every time) (they are taken out, written over their whole capacity and put back). A pooled buffer
// carries whatever its last user left in it; code that takes one and relies on bytes it did not
// write itself works only as long as the process history happens to be kind. Calling this
// between operations makes the history unkind on purpose.
var round atomic.Uint32

func Dirty(big bool) {
	pat := []byte{0xCC, 0x33, 0xFF, 0x5A}[round.Add(1)%4]
	sizes := []int{16, 64, 512, 4096, 4096}
	if big {
		sizes = append(sizes, 65536, 1<<20)
	}
	bufs := make([][]byte, 0, len(sizes))
	for _, n := range sizes {
		b := utils.GetBuffer(n)
		b = b[:cap(b)]
		for i := range b {
			b[i] = pat
		}
		bufs = append(bufs, b)
	}
	for _, b := range bufs {
		utils.ReleaseBuffer(b)
	}
}
