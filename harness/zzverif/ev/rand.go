// Package ev holds the harness plumbing: deterministic PRNG, the case protocol between
// driver and shard processes, the known-finding matcher and the evidence writer.
package ev

import "math"

// Rand is a splitmix64 stream. All randomness in the harness derives from
// (VERIF_SEED, property id, case index) through NewRand, so a seed reproduces the same
// cases on any machine under any load.
type Rand struct{ s uint64 }

func mix(z uint64) uint64 {
	z = (z ^ (z >> 30)) * 0xbf58476d1ce4e5b9
	z = (z ^ (z >> 27)) * 0x94d049bb133111eb
	return z ^ (z >> 31)
}

func hashString(s string) uint64 {
	h := uint64(0xcbf29ce484222325)
	for i := 0; i < len(s); i++ {
		h ^= uint64(s[i])
		h *= 0x100000001b3
	}
	return h
}

// NewRand derives an independent stream for (seed, label, index).
func NewRand(seed int64, label string, index int) *Rand {
	s := mix(uint64(seed)+0x9e3779b97f4a7c15) ^ mix(hashString(label)) ^ mix(uint64(index)*0xd1342543de82ef95+1)
	return &Rand{s: mix(s)}
}

func (r *Rand) Uint64() uint64 {
	r.s += 0x9e3779b97f4a7c15
	return mix(r.s)
}

func (r *Rand) Uint32() uint32 { return uint32(r.Uint64() >> 32) }

// Intn returns a value in [0,n). n must be > 0.
func (r *Rand) Intn(n int) int {
	if n <= 0 {
		panic("ev.Rand.Intn: n <= 0")
	}
	return int(r.Uint64() % uint64(n))
}

// Range returns a value in [lo,hi] inclusive.
func (r *Rand) Range(lo, hi int) int {
	if hi < lo {
		lo, hi = hi, lo
	}
	return lo + r.Intn(hi-lo+1)
}

func (r *Rand) Bool() bool { return r.Uint64()&1 == 1 }

// Chance returns true with probability num/den.
func (r *Rand) Chance(num, den int) bool { return r.Intn(den) < num }

func (r *Rand) Float64() float64 { return float64(r.Uint64()>>11) / float64(1<<53) }

func (r *Rand) Bytes(n int) []byte {
	b := make([]byte, n)
	for i := 0; i < n; i += 8 {
		v := r.Uint64()
		for j := 0; j < 8 && i+j < n; j++ {
			b[i+j] = byte(v >> (8 * j))
		}
	}
	return b
}

// Fork derives a sub-stream that does not disturb the parent's sequence length.
func (r *Rand) Fork(label string) *Rand {
	return &Rand{s: mix(r.Uint64() ^ hashString(label))}
}

// Pick returns a random element index weighted by w.
func (r *Rand) Weighted(w []int) int {
	t := 0
	for _, x := range w {
		t += x
	}
	k := r.Intn(t)
	for i, x := range w {
		if k < x {
			return i
		}
		k -= x
	}
	return len(w) - 1
}

// Perm returns a random permutation of 0..n-1.
func (r *Rand) Perm(n int) []int {
	p := make([]int, n)
	for i := range p {
		p[i] = i
	}
	for i := n - 1; i > 0; i-- {
		j := r.Intn(i + 1)
		p[i], p[j] = p[j], p[i]
	}
	return p
}

// Float32Bits returns interesting float32 bit patterns mixed with random ones.
func (r *Rand) Float32Bits() uint32 {
	switch r.Intn(8) {
	case 0:
		return []uint32{0, 0x80000000, 0x7f800000, 0xff800000, 0x7fc00000, 0x7f800001, 0xffc12345, 1, 0x007fffff, 0x00800000, 0x7f7fffff}[r.Intn(11)]
	default:
		return r.Uint32()
	}
}

func (r *Rand) Float64Bits() uint64 {
	switch r.Intn(8) {
	case 0:
		return []uint64{0, 1 << 63, math.Float64bits(math.Inf(1)), math.Float64bits(math.Inf(-1)), 0x7ff8000000000001, 0x7ff0000000000001, 0xfff8dead0000beef, 1, math.Float64bits(math.MaxFloat64), math.Float64bits(math.SmallestNonzeroFloat64)}[r.Intn(10)]
	default:
		return r.Uint64()
	}
}
