package ev

import (
	"bufio"
	"bytes"
	"encoding/json"
	"flag"
	"fmt"
	"os"
	"os/exec"
	"path/filepath"
	"runtime"
	"runtime/debug"
	"runtime/pprof"
	"sort"
	"strconv"
	"strings"
	"sync"
	"syscall"
	"time"
)

// Property describes one check.
type Property struct {
	ID          string
	Level       string // exploration | fault_enumeration | ...
	Rule        string // how cases are generated and what makes one non-trivial
	Assumptions []string
	// Cases returns the number of case indices for a tier.
	Cases func(tier string) int
	// Run executes case c.Index.
	Run func(c *Ctx)
	// Floor is the minimum number of distinct non-trivial cases for a tier; below it the
	// run is an infrastructure error (inconclusive), never "held".
	Floor func(tier string) int64
	// Exhaustive reports whether the tier enumerates a finite space completely.
	Exhaustive func(tier string) bool
	// Race: run shards with the -race binary (bin/vcheck-race).
	Race bool
	// ASLimit: RLIMIT_AS for shard processes in bytes (0 = none; ignored for Race).
	ASLimit uint64
	// CPUPerCase: CPU-seconds budget of one case; exceeding it is a `hang:cpu` violation
	// when HangIsViolation, else inconclusive. 0 = 120.
	CPUPerCase      float64
	HangIsViolation bool
	// MaxProcs overrides the shard count (0 = NumCPU).
	MaxProcs int
	// Extra returns extra coverage keys computed by the driver from the merged counters.
	Extra func(counters map[string]int64) map[string]any
}

// Finding is one line of known_findings.jsonl.
type Finding struct {
	Property string `json:"property"`
	Key      string `json:"key"`
	Status   string `json:"status"` // open | fixed
	Commit   string `json:"commit,omitempty"`
	What     string `json:"what"`
}

func verifDir() string {
	if d := os.Getenv("VERIF_DIR"); d != "" {
		return d
	}
	return "/verif"
}

func RepoDir() string {
	if d := os.Getenv("VERIF_REPO"); d != "" {
		return d
	}
	return "/repo"
}

func loadFindings(prop string) (map[string]Finding, error) {
	out := map[string]Finding{}
	f, err := os.Open(filepath.Join(verifDir(), "known_findings.jsonl"))
	if err != nil {
		if os.IsNotExist(err) {
			return out, nil
		}
		return nil, err
	}
	defer f.Close()
	sc := bufio.NewScanner(f)
	sc.Buffer(make([]byte, 1<<20), 1<<20)
	for sc.Scan() {
		line := strings.TrimSpace(sc.Text())
		if line == "" || strings.HasPrefix(line, "#") {
			continue
		}
		var fd Finding
		if err := json.Unmarshal([]byte(line), &fd); err != nil {
			return nil, fmt.Errorf("known_findings.jsonl: %v: %s", err, line)
		}
		if fd.Property == prop && fd.Status == "open" {
			out[fd.Key] = fd
		}
	}
	return out, sc.Err()
}

// Main is the entry point of the vcheck binary.
func Main(props []*Property) {
	if len(os.Args) < 3 {
		fmt.Fprintln(os.Stderr, "usage: vcheck run|shard <prop> [flags]")
		os.Exit(2)
	}
	mode, id := os.Args[1], os.Args[2]
	var p *Property
	for _, q := range props {
		if q.ID == id {
			p = q
		}
	}
	if p == nil {
		fmt.Fprintf(os.Stderr, "vcheck: unknown property %q\n", id)
		os.Exit(2)
	}
	fs := flag.NewFlagSet(mode, flag.ExitOnError)
	tier := fs.String("tier", "quick", "")
	seed := fs.Int64("seed", 1, "")
	replay := fs.String("replay", "", "")
	shard := fs.Int("shard", 0, "")
	of := fs.Int("of", 1, "")
	from := fs.Int("from", 0, "")
	only := fs.Int("only", -1, "")
	subFrom := fs.Int("subfrom", 0, "")
	subOnly := fs.Int("subonly", -1, "")
	out := fs.String("out", "", "")
	tmp := fs.String("tmp", "", "")
	_ = fs.Parse(os.Args[3:])
	switch mode {
	case "run":
		os.Exit(drive(p, *tier, *seed, *replay))
	case "shard":
		runShard(p, *tier, *seed, *shard, *of, *from, *only, *subFrom, *subOnly, *out, *tmp)
	default:
		fmt.Fprintln(os.Stderr, "vcheck: unknown mode", mode)
		os.Exit(2)
	}
}

// ---------------------------------------------------------------- shard side

const (
	exitWatchdog = 97
	exitCPU      = 96
)

func cpuSeconds() float64 {
	var ru syscall.Rusage
	if err := syscall.Getrusage(syscall.RUSAGE_SELF, &ru); err != nil {
		return 0
	}
	return float64(ru.Utime.Sec) + float64(ru.Utime.Usec)/1e6 + float64(ru.Stime.Sec) + float64(ru.Stime.Usec)/1e6
}

func runShard(p *Property, tier string, seed int64, shard, of, from, only, subFrom, subOnly int, outPath, tmp string) {
	if p.ASLimit > 0 && !p.Race {
		lim := syscall.Rlimit{Cur: p.ASLimit, Max: p.ASLimit}
		_ = syscall.Setrlimit(syscall.RLIMIT_AS, &lim)
		// a soft limit for the collector at half of it: garbage of thousands of inputs handled
		// by one process must not be what exhausts the address space (a single request the
		// limit cannot hold still fails, which is the event the limit is there to show)
		if os.Getenv("VERIF_NO_MEMLIMIT") == "" {
			debug.SetMemoryLimit(int64(p.ASLimit / 2))
		}
	}
	f, err := os.OpenFile(outPath, os.O_WRONLY|os.O_APPEND|os.O_CREATE, 0o644)
	if err != nil {
		fmt.Fprintln(os.Stderr, "shard: open out:", err)
		os.Exit(98)
	}
	enc := json.NewEncoder(f)
	n := p.Cases(tier)
	cpuLimit := p.CPUPerCase
	if cpuLimit == 0 {
		cpuLimit = 120
	}
	var mu sync.Mutex
	caseStartCPU := cpuSeconds()
	caseStartWall := time.Now()
	active := false
	go func() { // watchdog: CPU budget decides, wall clock only guards the harness
		for {
			time.Sleep(100 * time.Millisecond)
			mu.Lock()
			a, c0, w0 := active, caseStartCPU, caseStartWall
			mu.Unlock()
			if !a {
				continue
			}
			if cpuSeconds()-c0 > cpuLimit {
				fmt.Fprintf(os.Stderr, "\nVERIF-CPU-EXCEEDED limit=%.0fs\n", cpuLimit)
				_ = pprof.Lookup("goroutine").WriteTo(os.Stderr, 2)
				os.Exit(exitCPU)
			}
			if time.Since(w0) > time.Duration(cpuLimit*20)*time.Second {
				fmt.Fprintf(os.Stderr, "\nVERIF-WATCHDOG wall\n")
				_ = pprof.Lookup("goroutine").WriteTo(os.Stderr, 2)
				os.Exit(exitWatchdog)
			}
		}
	}()
	for i := shard; i < n; i += of {
		if i < from || (only >= 0 && i != only) {
			continue
		}
		dir := filepath.Join(tmp, fmt.Sprintf("c%d", i))
		_ = os.MkdirAll(dir, 0o755)
		c := &Ctx{Prop: p.ID, Tier: tier, Seed: seed, Index: i, R: NewRand(seed, p.ID, i), Dir: dir, out: enc, Replay: only >= 0,
			SubOnly: subOnly, markPath: filepath.Join(tmp, "mark")}
		if i == from {
			c.SubFrom = subFrom // restart behind the input that killed the previous process
		}
		c.onMark = func() {
			mu.Lock()
			caseStartCPU, caseStartWall = cpuSeconds(), time.Now()
			mu.Unlock()
		}
		c.emit(Event{T: "begin"})
		if p.Race {
			fmt.Fprintf(os.Stderr, "\nVERIF-CASE-BEGIN %d\n", i)
		}
		mu.Lock()
		active, caseStartCPU, caseStartWall = true, cpuSeconds(), time.Now()
		mu.Unlock()
		site, msg, panicked := Guard(func() { p.Run(c) })
		mu.Lock()
		active = false
		mu.Unlock()
		if panicked {
			c.Violation("harness-or-library-panic:"+PanicClass(msg)+"@"+site, map[string]any{"panic": msg, "site": site})
		}
		c.emit(Event{T: "end", Desc: c.descs, Evals: c.evals, Distinct: c.distinct, Counters: c.counters})
		_ = os.RemoveAll(dir)
	}
	_ = f.Close()
	os.Exit(0)
}

// ---------------------------------------------------------------- driver side

type violation struct {
	Key     string
	Index   int
	Sub     *int // sub-input of the case (nil: the case has none)
	Witness json.RawMessage
	Count   int
}

type agg struct {
	mu           sync.Mutex
	evals        int64
	distinctN    int64
	descs        map[string]struct{}
	counters     map[string]int64
	samples      []sampleAt
	viols        map[string]*violation
	inconclusive []string
	casesDone    int
}

type sampleAt struct {
	I int
	V json.RawMessage
}

func (a *agg) addViol(key string, idx int, sub *int, w json.RawMessage) {
	v := a.viols[key]
	if v == nil {
		a.viols[key] = &violation{Key: key, Index: idx, Sub: sub, Witness: w, Count: 1}
		return
	}
	v.Count++
	if idx < v.Index || (idx == v.Index && sub != nil && v.Sub != nil && *sub < *v.Sub) {
		v.Index, v.Sub, v.Witness = idx, sub, w
	}
}

// readMark returns the sub-input announced last by the shard using tmp, if it belongs to case.
func readMark(tmp string, s, forCase int) (sub int, desc string, ok bool) {
	b, err := os.ReadFile(filepath.Join(tmp, fmt.Sprintf("s%d", s), "mark"))
	if err != nil {
		return 0, "", false
	}
	parts := strings.SplitN(string(b), "\t", 3)
	if len(parts) != 3 {
		return 0, "", false
	}
	ci, e1 := strconv.Atoi(parts[0])
	si, e2 := strconv.Atoi(parts[1])
	if e1 != nil || e2 != nil || ci != forCase {
		return 0, "", false
	}
	return si, parts[2], true
}

func classifyDeath(stderr string, code int) (kind, site string) {
	site = "unknown"
	switch {
	case code == exitCPU || strings.Contains(stderr, "VERIF-CPU-EXCEEDED"):
		kind = "hang:cpu"
		// site: the goroutine running library code
		site = siteOfBusyGoroutine(stderr)
		return
	case strings.Contains(stderr, "fatal error: stack overflow") || strings.Contains(stderr, "goroutine stack exceeds"):
		kind = "fatal:stack"
	case strings.Contains(stderr, "out of memory") || strings.Contains(stderr, "cannot allocate memory"):
		kind = "fatal:oom"
	case strings.Contains(stderr, "fatal error: checkptr") || strings.Contains(stderr, "checkptr:"):
		kind = "fatal:checkptr"
	case strings.Contains(stderr, "concurrent map"):
		kind = "fatal:concurrent-map"
	case strings.Contains(stderr, "fatal error: all goroutines are asleep"):
		kind = "fatal:deadlock"
	case strings.Contains(stderr, "fatal error:"):
		kind = "fatal:other"
	case strings.Contains(stderr, "panic:"):
		kind = "panic:unrecovered"
	default:
		kind = fmt.Sprintf("died:exit%d", code)
	}
	// first goroutine block after the fatal line
	if i := strings.Index(stderr, "\ngoroutine "); i >= 0 {
		blk := stderr[i+1:]
		if j := strings.Index(blk, "\n\n"); j > 0 {
			blk = blk[:j]
		}
		site = SiteFromStack(blk)
		if site == "unknown" {
			site = SiteFromStack(stderr[i:])
		}
	}
	return
}

func siteOfBusyGoroutine(stderr string) string {
	for _, blk := range strings.Split(stderr, "\n\n") {
		if !strings.HasPrefix(strings.TrimSpace(blk), "goroutine ") {
			continue
		}
		if strings.Contains(blk, "ev.runShard") && strings.Contains(blk, "ev.Guard") {
			return SiteFromStack(blk)
		}
	}
	return "unknown"
}

func drive(p *Property, tier string, seed int64, replayPath string) int {
	start := time.Now()
	vd := verifDir()
	known, err := loadFindings(p.ID)
	if err != nil {
		fmt.Fprintln(os.Stderr, "vcheck:", err)
		return 2
	}
	only, subOnly := -1, -1
	if replayPath != "" {
		b, err := os.ReadFile(replayPath)
		if err != nil {
			fmt.Fprintln(os.Stderr, "vcheck: replay:", err)
			return 2
		}
		var rp struct {
			Property string `json:"property"`
			Tier     string `json:"tier"`
			Seed     int64  `json:"seed"`
			Index    int    `json:"index"`
			Sub      *int   `json:"sub"`
		}
		if err := json.Unmarshal(b, &rp); err != nil || rp.Property != p.ID {
			fmt.Fprintln(os.Stderr, "vcheck: replay file does not belong to", p.ID, err)
			return 2
		}
		tier, seed, only = rp.Tier, rp.Seed, rp.Index
		if rp.Sub != nil {
			subOnly = *rp.Sub
		}
	}
	base := "/dev/shm"
	if st, err := os.Stat(base); err != nil || !st.IsDir() {
		base = os.TempDir()
	}
	tmp, err := os.MkdirTemp(base, "verif-"+p.ID+"-")
	if err != nil {
		fmt.Fprintln(os.Stderr, "vcheck:", err)
		return 2
	}
	defer os.RemoveAll(tmp)

	n := p.Cases(tier)
	procs := runtime.NumCPU()
	if p.MaxProcs > 0 && p.MaxProcs < procs {
		procs = p.MaxProcs
	}
	if procs > n {
		procs = n
	}
	if only >= 0 {
		procs = 1
	}
	self, _ := os.Executable()
	if p.Race {
		self = strings.Replace(self, "/vcheck", "/vcheck-race", 1)
	}
	a := &agg{descs: map[string]struct{}{}, counters: map[string]int64{}, viols: map[string]*violation{}}
	var wg sync.WaitGroup
	for s := 0; s < procs; s++ {
		wg.Add(1)
		go func(s int) {
			defer wg.Done()
			from, subFrom := 0, 0
			for attempt := 0; ; attempt++ {
				outPath := filepath.Join(tmp, fmt.Sprintf("shard%d.%d.jsonl", s, attempt))
				errPath := filepath.Join(tmp, fmt.Sprintf("shard%d.%d.stderr", s, attempt))
				stdoutPath := filepath.Join(tmp, fmt.Sprintf("shard%d.%d.stdout", s, attempt))
				args := []string{"shard", p.ID, "--tier", tier, "--seed", strconv.FormatInt(seed, 10),
					"--shard", strconv.Itoa(s), "--of", strconv.Itoa(procs), "--from", strconv.Itoa(from), "--subfrom", strconv.Itoa(subFrom),
					"--out", outPath, "--tmp", filepath.Join(tmp, fmt.Sprintf("s%d", s))}
				if only >= 0 {
					args = append(args, "--only", strconv.Itoa(only), "--shard", "0", "--of", "1", "--subonly", strconv.Itoa(subOnly))
				}
				cmd := exec.Command(self, args...)
				ef, _ := os.Create(errPath)
				of, _ := os.Create(stdoutPath)
				cmd.Stderr, cmd.Stdout = ef, of
				cmd.Env = append(os.Environ(), "GOTRACEBACK=all", "GORACE=halt_on_error=0 exitcode=0")
				runErr := cmd.Run()
				ef.Close()
				of.Close()
				last, open := a.consume(outPath)
				if p.Race {
					if eb, rerr := os.ReadFile(errPath); rerr == nil {
						a.mu.Lock()
						a.counters["race_detector:shard_processes_run_under_-race"]++
						a.counters["race_detector:reports"] += int64(len(parseRaceReports(string(eb))))
						for _, rr := range parseRaceReports(string(eb)) {
							w, _ := json.Marshal(map[string]any{"report": tail(rr.text, 6000)})
							a.addViol("race:"+rr.key, rr.caseIndex, nil, w)
						}
						a.mu.Unlock()
					}
				}
				if runErr == nil {
					return
				}
				code := -1
				if ee, ok := runErr.(*exec.ExitError); ok {
					code = ee.ExitCode()
				}
				if !open {
					a.mu.Lock()
					eb, _ := os.ReadFile(errPath)
					a.inconclusive = append(a.inconclusive, fmt.Sprintf("shard %d died outside a case (exit %d): %s", s, code, tail(string(eb), 600)))
					a.mu.Unlock()
					return
				}
				eb, _ := os.ReadFile(errPath)
				stderr := string(eb)
				markSub, markDesc, marked := readMark(tmp, s, last)
				var subp *int
				if marked {
					subp = &markSub
				}
				a.mu.Lock()
				if code == exitWatchdog {
					a.inconclusive = append(a.inconclusive, fmt.Sprintf("case %d: wall-clock watchdog", last))
				} else {
					kind, site := classifyDeath(stderr, code)
					if kind == "hang:cpu" && !p.HangIsViolation {
						a.inconclusive = append(a.inconclusive, fmt.Sprintf("case %d: cpu budget exceeded at %s", last, site))
					} else {
						w, _ := json.Marshal(map[string]any{"death": kind, "site": site, "exit": code, "input": markDesc, "stderr_tail": tail(stderr, 3000)})
						a.addViol("crash:"+kind+"@"+site, last, subp, w)
					}
				}
				a.evals++
				a.mu.Unlock()
				if marked { // continue the same case behind the input that killed the process
					from, subFrom = last, markSub+1
				} else {
					from, subFrom = last+1, 0
				}
				if only >= 0 {
					return
				}
			}
		}(s)
	}
	wg.Wait()

	for k, n := range a.counters {
		if strings.HasPrefix(k, "violations_not_written:") {
			if v := a.viols[strings.TrimPrefix(k, "violations_not_written:")]; v != nil {
				v.Count += int(n)
			}
			delete(a.counters, k)
		}
	}

	// ---- verdict
	distinct := int64(len(a.descs)) + a.distinctN
	var vkeys []string
	for k := range a.viols {
		vkeys = append(vkeys, k)
	}
	sort.Strings(vkeys)
	exit := 0
	nviol := 0
	knownSeen := []string{}
	replayDir := filepath.Join(vd, "replay")
	evidenceDir := filepath.Join(vd, "evidence")
	if d := os.Getenv("VERIF_OUT_DIR"); d != "" { // selftest runs: keep /verif/evidence for /repo only
		replayDir, evidenceDir = filepath.Join(d, "replay"), filepath.Join(d, "evidence")
	}
	_ = os.MkdirAll(replayDir, 0o755)
	for _, k := range vkeys {
		v := a.viols[k]
		if fd, ok := known[k]; ok {
			fmt.Printf("KNOWN-FINDING: property=%s %s: %s (seen %d×, first case %d)\n", p.ID, k, fd.What, v.Count, v.Index)
			knownSeen = append(knownSeen, k)
			continue
		}
		nviol++
		rp := filepath.Join(replayDir, fmt.Sprintf("%s-%016x.json", p.ID, hashString(k)))
		b, _ := json.MarshalIndent(map[string]any{"property": p.ID, "tier": tier, "seed": seed, "index": v.Index, "sub": v.Sub, "key": k, "count": v.Count, "witness": v.Witness}, "", " ")
		_ = os.WriteFile(rp, b, 0o644)
		fmt.Printf("VIOLATION property=%s replay=%s\n", p.ID, rp)
		fmt.Printf("  key=%s count=%d case=%d witness=%s\n", k, v.Count, v.Index, trunc(string(v.Witness), 1500))
		exit = 1
	}
	for k, fd := range known {
		if _, seen := a.viols[k]; !seen && only < 0 {
			fmt.Printf("note: listed finding not reproduced by this run: property=%s %s (%s)\n", p.ID, k, fd.What)
		}
	}
	floor := int64(2)
	if p.Floor != nil {
		floor = p.Floor(tier)
	}
	infra := false
	if only < 0 && distinct < floor {
		fmt.Printf("INCONCLUSIVE property=%s observed only %d distinct non-trivial cases (floor %d)\n", p.ID, distinct, floor)
		infra = true
	}
	for _, s := range a.inconclusive {
		fmt.Printf("INCONCLUSIVE property=%s %s\n", p.ID, s)
	}
	if len(a.inconclusive) > 0 && only < 0 {
		// a few undecided cases do not make the run useless, but a dead shard does
		for _, s := range a.inconclusive {
			if strings.Contains(s, "died outside a case") {
				infra = true
			}
		}
	}

	// ---- evidence
	if only < 0 {
		sort.Slice(a.samples, func(i, j int) bool { return a.samples[i].I < a.samples[j].I })
		var samples []any
		for i, s := range a.samples {
			if i >= 5 {
				break
			}
			samples = append(samples, map[string]any{"case": s.I, "sample": s.V})
		}
		if len(samples) == 0 {
			samples = append(samples, map[string]any{"note": "no sample emitted"})
		}
		cov := map[string]any{
			"evaluations":         a.evals,
			"distinct_nontrivial": distinct,
			"rule":                p.Rule,
			"samples":             samples,
			"cases":               a.casesDone,
			"counters":            a.counters,
			"known_findings_seen": knownSeen,
			"inconclusive":        a.inconclusive,
			"shard_processes":     procs,
		}
		if p.Exhaustive != nil && p.Exhaustive(tier) {
			cov["exhaustive"] = true
		}
		if p.Extra != nil {
			for k, v := range p.Extra(a.counters) {
				cov[k] = v
			}
		}
		evd := map[string]any{
			"property_id": p.ID, "tier": tier, "seed": seed, "level": p.Level,
			"coverage": cov, "assumptions": p.Assumptions,
			"wall_s": time.Since(start).Seconds(), "violations": nviol,
		}
		b, _ := json.MarshalIndent(evd, "", " ")
		_ = os.MkdirAll(evidenceDir, 0o755)
		ep := filepath.Join(evidenceDir, p.ID+".json")
		if err := os.WriteFile(ep+".tmp", b, 0o644); err == nil {
			_ = os.Rename(ep+".tmp", ep)
		}
	}
	fmt.Printf("%s tier=%s seed=%d cases=%d evaluations=%d distinct_nontrivial=%d violations=%d known=%d inconclusive=%d wall=%.1fs\n",
		p.ID, tier, seed, a.casesDone, a.evals, distinct, nviol, len(knownSeen), len(a.inconclusive), time.Since(start).Seconds())
	if exit == 0 && infra {
		return 2
	}
	return exit
}

// consume merges a shard's event file; returns the last begun case and whether it was left open.
func (a *agg) consume(path string) (last int, open bool) {
	f, err := os.Open(path)
	if err != nil {
		return -1, false
	}
	defer f.Close()
	sc := bufio.NewScanner(f)
	sc.Buffer(make([]byte, 1<<22), 1<<26)
	a.mu.Lock()
	defer a.mu.Unlock()
	last = -1
	for sc.Scan() {
		line := sc.Bytes()
		var e Event
		if err := json.Unmarshal(bytes.TrimSpace(line), &e); err != nil {
			continue
		}
		switch e.T {
		case "begin":
			last, open = e.I, true
		case "end":
			open = false
			a.casesDone++
			a.evals += e.Evals
			a.distinctN += e.Distinct
			for _, d := range e.Desc {
				a.descs[d] = struct{}{}
			}
			for k, v := range e.Counters {
				a.counters[k] += v
			}
		case "viol":
			a.addViol(e.Key, e.I, e.Sub, e.Witness)
		case "sample":
			if len(a.samples) < 64 {
				a.samples = append(a.samples, sampleAt{e.I, e.Witness})
			}
		case "inconclusive":
			a.inconclusive = append(a.inconclusive, fmt.Sprintf("case %d: %s", e.I, e.Reason))
		}
	}
	return
}

func tail(s string, n int) string {
	if len(s) <= n {
		return s
	}
	return "…" + s[len(s)-n:]
}

func trunc(s string, n int) string {
	if len(s) <= n {
		return s
	}
	return s[:n] + "…"
}

type raceReport struct {
	key       string
	caseIndex int
	text      string
}

// parseRaceReports extracts the race detector's reports from a shard's stderr. The key of a
// report is the pair of the first library frames of its two access stacks.
// RaceKeys returns key -> report text for every race-detector report in a stderr capture
// (key = sorted pair of the first library frames of the two conflicting accesses).
func RaceKeys(stderr string) map[string]string {
	out := map[string]string{}
	for _, r := range parseRaceReports(stderr) {
		if _, ok := out[r.key]; !ok {
			out[r.key] = r.text
		}
	}
	return out
}

// RaceBinary is the path of the -race build of this harness ("" when it was not built).
func RaceBinary() string {
	self, _ := os.Executable()
	if strings.Contains(filepath.Base(self), "vcheck-race") {
		return self
	}
	rb := filepath.Join(filepath.Dir(self), strings.Replace(filepath.Base(self), "vcheck", "vcheck-race", 1))
	if _, err := os.Stat(rb); err != nil {
		return ""
	}
	return rb
}

func parseRaceReports(stderr string) []raceReport {
	var out []raceReport
	curCase := -1
	lines := strings.Split(stderr, "\n")
	for i := 0; i < len(lines); i++ {
		l := lines[i]
		if strings.HasPrefix(l, "VERIF-CASE-BEGIN ") {
			if n, err := strconv.Atoi(strings.TrimSpace(strings.TrimPrefix(l, "VERIF-CASE-BEGIN "))); err == nil {
				curCase = n
			}
			continue
		}
		if !strings.HasPrefix(l, "WARNING: DATA RACE") {
			continue
		}
		j := i + 1
		for j < len(lines) && !strings.HasPrefix(lines[j], "==================") {
			j++
		}
		block := lines[i:j]
		// split into paragraphs; the first two describe the conflicting accesses
		var stacks []string
		var cur []string
		for _, bl := range block[1:] {
			if strings.TrimSpace(bl) == "" {
				if len(cur) > 0 {
					stacks = append(stacks, strings.Join(cur, "\n"))
					cur = nil
				}
				continue
			}
			cur = append(cur, strings.TrimSpace(bl))
		}
		if len(cur) > 0 {
			stacks = append(stacks, strings.Join(cur, "\n"))
		}
		var sites []string
		for k := 0; k < len(stacks) && k < 2; k++ {
			sites = append(sites, SiteFromStack(stacks[k]))
		}
		sort.Strings(sites)
		out = append(out, raceReport{key: strings.Join(sites, "|"), caseIndex: curCase, text: strings.Join(block, "\n")})
		i = j
	}
	return out
}
