package ev

import (
	"encoding/json"
	"fmt"
	"os"
	"regexp"
	"runtime/debug"
	"strings"
	"sync"
)

// Event is one JSON line written by a shard process and read by the driver.
type Event struct {
	T        string           `json:"t"` // begin | end | viol | sample | inconclusive | note
	I        int              `json:"i"`
	Desc     []string         `json:"d,omitempty"`  // descriptors of distinct non-trivial cases seen
	Evals    int64            `json:"ev,omitempty"` // evaluations performed by this case
	Distinct int64            `json:"dn,omitempty"` // distinct non-trivial cases counted by construction (disjoint partition)
	Counters map[string]int64 `json:"c,omitempty"`
	Key      string           `json:"k,omitempty"`
	Witness  json.RawMessage  `json:"w,omitempty"`
	Reason   string           `json:"r,omitempty"`
	Sub      *int             `json:"s,omitempty"` // sub-input the event belongs to (see Ctx.Mark)
}

// Ctx is handed to a property's Run function for one case.
type Ctx struct {
	Prop   string
	Tier   string
	Seed   int64
	Index  int
	R      *Rand
	Dir    string // scratch directory for this case (removed afterwards)
	Replay bool

	// Sub-inputs: a case that feeds many inputs to the code under test announces each with
	// Mark before running it. When the process dies, the driver restarts the case behind the
	// marked input (SubFrom); a replay of a death runs only the marked input (SubOnly).
	SubFrom  int // skip sub-inputs below this index
	SubOnly  int // -1: all
	markPath string
	curSub   *int
	onMark   func() // restarts the CPU budget: it is per sub-input when a case marks them

	mu       sync.Mutex
	out      *json.Encoder
	descs    []string
	evals    int64
	distinct int64
	counters map[string]int64
	samples  int
	viols    int
	perKey   map[string]int
}

func (c *Ctx) Thorough() bool { return c.Tier == "thorough" }

// SkipSub says whether sub-input sub is outside what this run has to execute.
func (c *Ctx) SkipSub(sub int) bool {
	return sub < c.SubFrom || (c.SubOnly >= 0 && sub != c.SubOnly)
}

// Mark records (durably, before the input is run) which sub-input is about to run.
func (c *Ctx) Mark(sub int, desc string) {
	c.curSub = &sub
	if c.onMark != nil {
		c.onMark()
	}
	if c.markPath == "" {
		return
	}
	_ = os.WriteFile(c.markPath, []byte(fmt.Sprintf("%d\t%d\t%s", c.Index, sub, desc)), 0o644)
}

// Pick returns q in the quick tier and t in the thorough tier.
func (c *Ctx) Pick(q, t int) int {
	if c.Thorough() {
		return t
	}
	return q
}

func (c *Ctx) emit(e Event) {
	e.I = c.Index
	if err := c.out.Encode(e); err != nil {
		fmt.Fprintln(os.Stderr, "ev: cannot write event:", err)
		os.Exit(98)
	}
}

// Case records one evaluated case. desc is its canonical descriptor (used to count
// distinct cases); nontrivial says whether it satisfies the property's stated
// non-triviality rule.
func (c *Ctx) Case(desc string, nontrivial bool) {
	c.mu.Lock()
	defer c.mu.Unlock()
	c.evals++
	if nontrivial {
		c.descs = append(c.descs, fmt.Sprintf("%016x", hashString(desc)))
	}
}

// Evals adds n evaluations without descriptors.
func (c *Ctx) Evals(n int64) { c.mu.Lock(); c.evals += n; c.mu.Unlock() }

// DistinctN adds n distinct non-trivial cases that are distinct by construction
// (e.g. a disjoint range of an enumerated input space).
func (c *Ctx) DistinctN(n int64) { c.mu.Lock(); c.distinct += n; c.mu.Unlock() }

func (c *Ctx) Count(name string, n int64) {
	c.mu.Lock()
	if c.counters == nil {
		c.counters = map[string]int64{}
	}
	c.counters[name] += n
	c.mu.Unlock()
}

// CounterValue returns the current value of a counter of this case.
func (c *Ctx) CounterValue(name string) int64 {
	c.mu.Lock()
	defer c.mu.Unlock()
	return c.counters[name]
}

// Sample writes out an actual case so a reader of the evidence can see what cases look like.
// Only the first two samples of a case are forwarded.
func (c *Ctx) Sample(v any) {
	c.mu.Lock()
	defer c.mu.Unlock()
	if c.samples >= 2 {
		return
	}
	c.samples++
	b, err := json.Marshal(v)
	if err != nil {
		b, _ = json.Marshal(fmt.Sprint(v))
	}
	if len(b) > 4000 {
		b, _ = json.Marshal(string(b[:4000]) + "…")
	}
	c.emit(Event{T: "sample", Witness: b})
}

// Violation reports that the oracle refuted the property on this case. key is the
// classifier key (root cause / trigger class); witness is everything needed to understand it.
func (c *Ctx) Violation(key string, witness any) {
	c.mu.Lock()
	defer c.mu.Unlock()
	c.viols++
	if c.perKey == nil {
		c.perKey = map[string]int{}
	}
	c.perKey[key]++
	if c.perKey[key] > 3 {
		// counted by the driver through the "more" counter, not written out again
		if c.counters == nil {
			c.counters = map[string]int64{}
		}
		c.counters["violations_not_written:"+key]++
		return
	}
	b, err := json.Marshal(witness)
	if err != nil {
		b, _ = json.Marshal(fmt.Sprint(witness))
	}
	if len(b) > 20000 {
		b, _ = json.Marshal(string(b[:20000]) + "…")
	}
	c.emit(Event{T: "viol", Key: key, Witness: b, Sub: c.curSub})
}

func (c *Ctx) Violations() int { c.mu.Lock(); defer c.mu.Unlock(); return c.viols }

// Inconclusive records that this case could not be decided (never folded into held/violated).
func (c *Ctx) Inconclusive(reason string) {
	c.mu.Lock()
	c.emit(Event{T: "inconclusive", Reason: reason})
	c.mu.Unlock()
}

func (c *Ctx) Note(reason string) {
	c.mu.Lock()
	c.emit(Event{T: "note", Reason: reason})
	c.mu.Unlock()
}

// Guard runs f and converts a panic into (site, message, true).
func Guard(f func()) (site, msg string, panicked bool) {
	defer func() {
		if r := recover(); r != nil {
			panicked = true
			msg = fmt.Sprint(r)
			site = SiteFromStack(string(debug.Stack()))
		}
	}()
	f()
	return
}

var frameRe = regexp.MustCompile(`^(github\.com/scigolib/hdf5[^\s(]*(?:\([^)]*\))?[^\s(]*)\(`)

// SiteFromStack returns the first library frame (function name, no line numbers) of a Go
// stack trace text that is not harness code. For a panic trace, frames above the panic call
// are skipped.
func SiteFromStack(st string) string {
	lines := strings.Split(st, "\n")
	start := 0
	for i, l := range lines {
		if strings.HasPrefix(l, "panic(") || strings.HasPrefix(l, "runtime.throw") || strings.HasPrefix(l, "runtime.newstack") {
			start = i
		}
	}
	for _, l := range lines[start:] {
		if !strings.HasPrefix(l, "github.com/scigolib/hdf5") {
			continue
		}
		if strings.Contains(l, "/internal/zzverif/") || strings.Contains(l, "hdf5.Verif") {
			continue
		}
		fn := l
		if i := strings.LastIndex(fn, "("); i > 0 {
			fn = fn[:i]
		}
		fn = strings.TrimPrefix(fn, "github.com/scigolib/hdf5")
		fn = strings.TrimPrefix(fn, "/internal/")
		fn = strings.TrimPrefix(fn, ".")
		// strip generic/closure noise
		fn = strings.ReplaceAll(fn, "(*", "")
		fn = strings.ReplaceAll(fn, ")", "")
		return fn
	}
	return "unknown"
}

// PanicClass reduces a panic message to a stable class.
func PanicClass(msg string) string {
	switch {
	case strings.Contains(msg, "index out of range"):
		return "index"
	case strings.Contains(msg, "slice bounds out of range"):
		return "slice"
	case strings.Contains(msg, "nil pointer") || strings.Contains(msg, "nil map"):
		return "nil"
	case strings.Contains(msg, "makeslice") || strings.Contains(msg, "len out of range") || strings.Contains(msg, "cap out of range"):
		return "makeslice"
	case strings.Contains(msg, "divide by zero"):
		return "div0"
	case strings.Contains(msg, "out of memory"):
		return "oom"
	case strings.Contains(msg, "close of closed channel") || strings.Contains(msg, "close of nil channel"):
		return "chan"
	case strings.Contains(msg, "interface conversion"):
		return "typeassert"
	default:
		return "other"
	}
}
