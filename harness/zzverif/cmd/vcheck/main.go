// Command vcheck is the runtime-monitoring harness for scigolib/hdf5 (driver + shard modes).
package main

import (
	"encoding/json"
	"fmt"
	"os"
	"runtime"
	"strconv"

	"github.com/scigolib/hdf5/internal/zzverif/dump"
	"github.com/scigolib/hdf5/internal/zzverif/ev"
	"github.com/scigolib/hdf5/internal/zzverif/hx"
	"github.com/scigolib/hdf5/internal/zzverif/props"
	"github.com/scigolib/hdf5/internal/zzverif/specdec"
)

func main() {
	// debugging aid: vcheck script <script.json> <out.h5> runs an operation script and prints
	// per-operation results and the logical dump of the reopened file
	if len(os.Args) >= 4 && os.Args[1] == "c17script" {
		// debugging aid: writer history k of C17 as JSON
		k, _ := strconv.Atoi(os.Args[2])
		_ = os.WriteFile(os.Args[3], props.C17WriterScriptJSON(k), 0o644)
		return
	}
	if len(os.Args) >= 3 && os.Args[1] == "fields" {
		// debugging aid: the field map C07 uses for a file
		for _, l := range props.C07FieldLines(os.Args[2]) {
			fmt.Println(l)
		}
		return
	}
	if len(os.Args) >= 4 && os.Args[1] == "libseed" {
		// debugging aid: write library seed k (C07/C17) to a file
		k, _ := strconv.Atoi(os.Args[2])
		fmt.Println(props.C07LibSeedWrite(k, os.Args[3]))
		return
	}
	if len(os.Args) >= 3 && os.Args[1] == "c07synth" {
		// debugging aid: write every structural input of C07 into a directory
		for _, l := range props.C07SynthWrite(os.Args[2]) {
			fmt.Println(l)
		}
		return
	}
	if len(os.Args) >= 4 && os.Args[1] == "c18first" {
		// worker of C18: first writes of this process from eight goroutines at once
		seed, _ := strconv.ParseInt(os.Args[3], 10, 64)
		props.C18FirstUse(os.Args[2], seed)
		return
	}
	if len(os.Args) >= 2 && os.Args[1] == "c20first" {
		// worker of C20: this process's first conversions, made from many goroutines at once
		for _, l := range props.C20FirstUseLines() {
			fmt.Println(l)
		}
		return
	}
	if len(os.Args) >= 4 && os.Args[1] == "script" {
		b, err := os.ReadFile(os.Args[2])
		if err != nil {
			fmt.Println(err)
			os.Exit(2)
		}
		var s hx.Script
		if err := json.Unmarshal(b, &s); err != nil {
			fmt.Println(err)
			os.Exit(2)
		}
		e := hx.Run(os.Args[3], &s)
		for i, r := range e.Res {
			op := "close(final)"
			if i < len(s.Ops) {
				op = s.Ops[i].String()
			}
			fmt.Printf("%3d %-50s %+v\n", i, op, r)
		}
		d := dump.File(os.Args[3], dump.Options{})
		fmt.Printf("open: %+v\n", d.OpenRes)
		for _, o := range d.Objects {
			fmt.Println(o.Logical())
		}
		return
	}
	// worker for OS-level fault injection (C17): vcheck dumpjson <file.h5> <out.json> dumps the
	// file through the public reader on one locked OS thread, so that strace's per-thread
	// call counter addresses exactly the k-th pread64 of the dump.
	if len(os.Args) >= 4 && os.Args[1] == "dumpjson" {
		runtime.GOMAXPROCS(1)
		runtime.LockOSThread()
		d := dump.File(os.Args[2], dump.Options{MaxElems: 1 << 22, RetryIter: true})
		b, _ := json.Marshal(d)
		if err := os.WriteFile(os.Args[3], b, 0o644); err != nil {
			fmt.Println(err)
			os.Exit(2)
		}
		return
	}
	// worker for OS-level write fault injection (C17): vcheck scriptjson <script.json> <out.h5> <res.json>
	// runs the script on one locked OS thread and stores the per-call results.
	if len(os.Args) >= 5 && os.Args[1] == "scriptjson" {
		runtime.GOMAXPROCS(1)
		runtime.LockOSThread()
		b, err := os.ReadFile(os.Args[2])
		if err != nil {
			fmt.Println(err)
			os.Exit(2)
		}
		var s hx.Script
		if err := json.Unmarshal(b, &s); err != nil {
			fmt.Println(err)
			os.Exit(2)
		}
		e := hx.Run(os.Args[3], &s)
		out, _ := json.Marshal(map[string]any{"res": e.Res, "close": e.CloseRes})
		if err := os.WriteFile(os.Args[4], out, 0o644); err != nil {
			fmt.Println(err)
			os.Exit(2)
		}
		return
	}
	// debugging aid: vcheck session <script.json> <existing.h5> runs the ops on an existing file
	if len(os.Args) >= 4 && os.Args[1] == "session" {
		b, err := os.ReadFile(os.Args[2])
		if err != nil {
			fmt.Println(err)
			os.Exit(2)
		}
		var s hx.Script
		if err := json.Unmarshal(b, &s); err != nil {
			fmt.Println(err)
			os.Exit(2)
		}
		e := &hx.Exec{Path: os.Args[3]}
		for i := range s.Ops {
			r := e.Step(i, &s.Ops[i])
			fmt.Printf("%3d %-50s %+v\n", i, s.Ops[i].String(), r)
		}
		d := dump.File(os.Args[3], dump.Options{})
		fmt.Printf("open: %+v\n", d.OpenRes)
		for _, o := range d.Objects {
			fmt.Println(o.Logical())
		}
		return
	}
	// debugging aid: vcheck dump <file.h5> prints the logical dump through the library's reader
	if len(os.Args) >= 3 && os.Args[1] == "dump" {
		d := dump.File(os.Args[2], dump.Options{})
		fmt.Printf("open: %+v\n", d.OpenRes)
		for _, o := range d.Objects {
			l := o.Logical()
			if len(l) > 400 {
				l = l[:400] + "…"
			}
			fmt.Println(l)
		}
		return
	}
	// debugging aid: vcheck specdec <file.h5> prints what the independent decoder finds
	if len(os.Args) >= 3 && os.Args[1] == "specdec" {
		for _, mode := range []string{"strict", "tolerant"} {
			f, err := os.Open(os.Args[2])
			if err != nil {
				fmt.Println(err)
				os.Exit(2)
			}
			st, _ := f.Stat()
			opt := specdec.Options{}
			if mode == "tolerant" {
				opt.Tolerate = specdec.AllTolerances()
			}
			sf, err := specdec.Decode(f, st.Size(), opt)
			if err != nil {
				fmt.Println(mode, "decode error:", err)
				continue
			}
			keys := map[string]int{}
			for _, is := range append(sf.Issues, sf.CheckExtents()...) {
				keys[is.Key]++
			}
			fmt.Println("==", mode, "objects:", len(sf.Objects), "extents:", len(sf.Extents), "fields:", len(sf.Fields), "tolerances used:", sf.TolerancesUsed)
			for k, n := range keys {
				fmt.Printf("   %-45s %d\n", k, n)
			}
			if mode == "tolerant" && os.Getenv("VERIF_EXTENTS") != "" {
				for _, x := range sf.Extents {
					fmt.Printf("   extent [%d,%d) %s of %s\n", x.Start, x.End, x.Kind, x.Owner)
				}
			}
			if mode == "tolerant" {
				sf.Walk(func(path string, o *specdec.Object, l *specdec.Link) {
					if o == nil {
						fmt.Printf("   %s -> link %s\n", path, l.Kind)
						return
					}
					extra := ""
					if o.Kind == "dataset" {
						d, err := sf.ReadData(o)
						extra = fmt.Sprintf(" dims=%v class=%d size=%d data=%d bytes err=%v", o.Space.Dims, o.Type.Class, o.Type.Size, len(d), err)
					}
					fmt.Printf("   %s %s attrs=%d%s\n", path, o.Kind, len(o.Attrs), extra)
				})
			}
			f.Close()
		}
		return
	}
	ev.Main(props.All)
}
