// Command vcheck is the runtime-monitoring harness for scigolib/hdf5 (driver + shard modes).
package main

import (
	"github.com/scigolib/hdf5/internal/zzverif/ev"
	"github.com/scigolib/hdf5/internal/zzverif/props"
)

func main() { ev.Main(props.All) }
