// Command vcheck is the runtime-monitoring harness for scigolib/hdf5 (driver + shard modes).
package main

import (
	"encoding/json"
	"fmt"
	"os"

	"github.com/scigolib/hdf5/internal/zzverif/dump"
	"github.com/scigolib/hdf5/internal/zzverif/ev"
	"github.com/scigolib/hdf5/internal/zzverif/hx"
	"github.com/scigolib/hdf5/internal/zzverif/props"
)

func main() {
	// debugging aid: vcheck script <script.json> <out.h5> runs an operation script and prints
	// per-operation results and the logical dump of the reopened file
	if len(os.Args) >= 4 && os.Args[1] == "script" {
		b, err := os.ReadFile(os.Args[2])
		if err != nil {
			fmt.Println(err)
			os.Exit(2)
		}
		var s hx.Script
		if err := json.Unmarshal(b, &s); err != nil {
			fmt.Println(err)
			os.Exit(2)
		}
		e := hx.Run(os.Args[3], &s)
		for i, r := range e.Res {
			op := "close(final)"
			if i < len(s.Ops) {
				op = s.Ops[i].String()
			}
			fmt.Printf("%3d %-50s %+v\n", i, op, r)
		}
		d := dump.File(os.Args[3], dump.Options{})
		fmt.Printf("open: %+v\n", d.OpenRes)
		for _, o := range d.Objects {
			fmt.Println(o.Logical())
		}
		return
	}
	ev.Main(props.All)
}
