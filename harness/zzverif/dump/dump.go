// Package dump produces a canonical logical dump of an HDF5 file through the library's
// public reader: everything the reader offers for every object, each call recorded as
// value | error | panic. Error texts are kept for witnesses but never compared.
package dump

import (
	"crypto/sha1"
	"encoding/hex"
	"fmt"
	"math"
	"sort"
	"strings"
	"sync/atomic"

	hdf5 "github.com/scigolib/hdf5"
	"github.com/scigolib/hdf5/internal/core"
	"github.com/scigolib/hdf5/internal/zzverif/ev"
	"github.com/scigolib/hdf5/internal/zzverif/pools"
)

// Res is the outcome of one reader call.
type Res struct {
	Err   string `json:"err,omitempty"`   // non-empty: the call returned an error
	Panic string `json:"panic,omitempty"` // non-empty: the call panicked (site)
}

func (r Res) OK() bool { return r.Err == "" && r.Panic == "" }

type Attr struct {
	Name     string   `json:"name"`
	Class    int      `json:"class"`
	Size     uint32   `json:"size"`
	BitField uint32   `json:"bitfield"`
	Dims     []uint64 `json:"dims"`
	Raw      string   `json:"raw"` // hex
	Value    string   `json:"value"`
	ValueRes Res      `json:"value_res"`
	// typed view of the ReadValue result (one of the three is set)
	Nums   []float64 `json:"-"`
	IsInt  bool      `json:"-"`
	Ints   []int64   `json:"-"` // exact integers when IsInt (unsigned values above MaxInt64 are in Uints)
	Uints  []uint64  `json:"-"`
	Strs   []string  `json:"-"`
	HasStr bool      `json:"-"`
}

// typed fills the typed view from a ReadValue result.
func (a *Attr) typed(v interface{}) {
	addI := func(x int64) {
		a.IsInt = true
		a.Ints = append(a.Ints, x)
		a.Uints = append(a.Uints, uint64(x))
		a.Nums = append(a.Nums, float64(x))
	}
	addU := func(x uint64) {
		a.IsInt = true
		a.Ints = append(a.Ints, int64(x))
		a.Uints = append(a.Uints, x)
		a.Nums = append(a.Nums, float64(x))
	}
	switch x := v.(type) {
	case int8:
		addI(int64(x))
	case int16:
		addI(int64(x))
	case int32:
		addI(int64(x))
	case int64:
		addI(x)
	case uint8:
		addU(uint64(x))
	case uint16:
		addU(uint64(x))
	case uint32:
		addU(uint64(x))
	case uint64:
		addU(x)
	case []int32:
		for _, e := range x {
			addI(int64(e))
		}
	case []int64:
		for _, e := range x {
			addI(e)
		}
	case []uint32:
		for _, e := range x {
			addU(uint64(e))
		}
	case []uint64:
		for _, e := range x {
			addU(e)
		}
	case float32:
		a.Nums = append(a.Nums, float64(x))
	case float64:
		a.Nums = append(a.Nums, x)
	case []float32:
		for _, e := range x {
			a.Nums = append(a.Nums, float64(e))
		}
	case []float64:
		a.Nums = append(a.Nums, x...)
	case string:
		a.HasStr = true
		a.Strs = []string{x}
	case []string:
		a.HasStr = true
		a.Strs = x
	}
}

type Obj struct {
	Path     string   `json:"path"`
	Kind     string   `json:"kind"` // group | dataset | datatype | other
	Addr     uint64   `json:"addr,omitempty"`
	Children []string `json:"children,omitempty"`

	Info    string `json:"info,omitempty"`
	InfoRes Res    `json:"info_res"`

	// decoded dataset metadata (core.ReadDatasetInfo on the object header)
	MetaRes   Res      `json:"meta_res"`
	TypeClass int      `json:"type_class"`
	TypeSize  uint32   `json:"type_size"`
	TypeBits  uint32   `json:"type_bits"`
	Dims      []uint64 `json:"dims,omitempty"`
	MaxDims   []uint64 `json:"maxdims,omitempty"`
	Layout    int      `json:"layout"`
	Chunk     []uint64 `json:"chunk,omitempty"`

	Read        []uint64 `json:"read,omitempty"` // float64 bit patterns
	ReadRes     Res      `json:"read_res"`
	Reread      string   `json:"reread,omitempty"`       // Options.Twice: how a second Read differed
	IterSum     string   `json:"iter_sum,omitempty"`     // Options.RetryIter
	IterRetried int      `json:"iter_retried,omitempty"` // Options.RetryIter

	Strings    []string `json:"strings,omitempty"`
	StringsRes Res      `json:"strings_res"`

	Compound    []string                 `json:"compound,omitempty"` // canonical rendering per element
	CompoundRes Res                      `json:"compound_res"`
	CompoundRaw []map[string]interface{} `json:"-"`

	Attrs    []Attr `json:"attrs,omitempty"`
	AttrsRes Res    `json:"attrs_res"`

	ExtraRes Res `json:"extra_res"`
}

type Dump struct {
	OpenRes Res    `json:"open_res"`
	SBVer   int    `json:"sb_version"`
	Objects []*Obj `json:"objects"`
	byPath  map[string]*Obj
}

func (d *Dump) Get(path string) *Obj {
	if d.byPath == nil {
		d.byPath = map[string]*Obj{}
		for _, o := range d.Objects {
			if _, dup := d.byPath[o.Path]; !dup {
				d.byPath[o.Path] = o
			}
		}
	}
	return d.byPath[path]
}

// Resolve finds the object for a path even when Walk did not descend into a group again
// under that path (a group reached through a second hard link is listed with its members'
// names but walked only once): the remaining components are followed from the place where
// the same group (by identity) was walked.
func (d *Dump) Resolve(path string) *Obj {
	if o := d.Get(path); o != nil {
		return o
	}
	if o := d.Get(strings.TrimSuffix(path, "/") + "/"); o != nil {
		return o
	}
	walked := map[uint64]string{} // group identity -> first path (with trailing slash) whose members were walked
	for _, o := range d.Objects {
		if o.Kind == "group" && o.Addr != 0 {
			if _, ok := walked[o.Addr]; !ok {
				walked[o.Addr] = o.Path
			}
		}
	}
	parts := strings.Split(strings.Trim(path, "/"), "/")
	cur := "/"
	for i, part := range parts {
		next := cur + part
		o := d.Get(next + "/")
		if o == nil {
			o = d.Get(next)
		}
		if o == nil {
			return nil
		}
		if i == len(parts)-1 {
			return o
		}
		if o.Kind != "group" {
			return nil
		}
		cur = o.Path
		if first, ok := walked[o.Addr]; ok && o.Addr != 0 {
			cur = first
		}
	}
	return nil
}

// Paths returns all object paths in walk order (duplicates preserved).
func (d *Dump) Paths() []string {
	out := make([]string, len(d.Objects))
	for i, o := range d.Objects {
		out[i] = o.Path
	}
	return out
}

var guardCalls atomic.Int64

func guard(f func() error) Res {
	var err error
	pools.Dirty(guardCalls.Add(1)%2048 == 0)
	site, msg, p := ev.Guard(func() { err = f() })
	if p {
		return Res{Panic: ev.PanicClass(msg) + "@" + site}
	}
	if err != nil {
		return Res{Err: trunc(err.Error(), 200)}
	}
	return Res{}
}

func trunc(s string, n int) string {
	if len(s) > n {
		return s[:n]
	}
	return s
}

// Options bound what is read (hostile inputs).
type Options struct {
	// RetryIter: chunked datasets are also walked with the chunk iterator (at most 64 chunks);
	// a Chunk call that fails is repeated once on the same iterator (a transient fault is over
	// by then). Obj.IterSum is a digest of what the chunks finally returned ("" if one of them
	// failed twice), Obj.IterRetried the number of repeated calls.
	RetryIter bool
	// Twice: numeric datasets are read a second time after the first result has been
	// overwritten by the caller; Obj.Reread says how the second result differs ("" = equal)
	Twice      bool
	MaxObjects int  // 0 = 10000
	SkipData   bool // metadata only
	// MaxElems, when non-zero, skips the data of datasets that declare more elements
	// (their three read results carry the error "skipped").
	MaxElems uint64
	// Extra also drives the selection readers and the chunk iterator of every dataset
	// (results discarded; ExtraRes keeps the first error or panic).
	Extra bool
	// DropValues calls every reader but does not keep dataset values (hostile inputs may
	// return gigabytes; the harness must not double them).
	DropValues bool
}

func canonValue(v interface{}) string {
	switch x := v.(type) {
	case float32:
		return fmt.Sprintf("f32:%08x", math.Float32bits(x))
	case float64:
		return fmt.Sprintf("f64:%016x", math.Float64bits(x))
	case []float32:
		var sb strings.Builder
		sb.WriteString("[]f32:")
		for _, e := range x {
			fmt.Fprintf(&sb, "%08x,", math.Float32bits(e))
		}
		return sb.String()
	case []float64:
		var sb strings.Builder
		sb.WriteString("[]f64:")
		for _, e := range x {
			fmt.Fprintf(&sb, "%016x,", math.Float64bits(e))
		}
		return sb.String()
	case string:
		return "str:" + hex.EncodeToString([]byte(x))
	case []string:
		var sb strings.Builder
		sb.WriteString("[]str:")
		for _, e := range x {
			sb.WriteString(hex.EncodeToString([]byte(e)) + ",")
		}
		return sb.String()
	case int8, int16, int32, int64, int, uint8, uint16, uint32, uint64, uint:
		return fmt.Sprintf("int:%d", x)
	case []int32:
		var sb strings.Builder
		sb.WriteString("[]int:")
		for _, e := range x {
			fmt.Fprintf(&sb, "%d,", e)
		}
		return sb.String()
	case []int64:
		var sb strings.Builder
		sb.WriteString("[]int:")
		for _, e := range x {
			fmt.Fprintf(&sb, "%d,", e)
		}
		return sb.String()
	case []uint32:
		var sb strings.Builder
		sb.WriteString("[]int:")
		for _, e := range x {
			fmt.Fprintf(&sb, "%d,", e)
		}
		return sb.String()
	case []uint64:
		var sb strings.Builder
		sb.WriteString("[]int:")
		for _, e := range x {
			fmt.Fprintf(&sb, "%d,", e)
		}
		return sb.String()
	default:
		return fmt.Sprintf("%T:%v", v, v)
	}
}

func attrsOf(get func() ([]*core.Attribute, error)) ([]Attr, Res) {
	var out []Attr
	res := guard(func() error {
		attrs, err := get()
		if err != nil {
			return err
		}
		for _, a := range attrs {
			if a == nil {
				out = append(out, Attr{Name: "<nil attribute>"})
				continue
			}
			da := Attr{Name: a.Name, Raw: hex.EncodeToString(a.Data)}
			if a.Datatype != nil {
				da.Class, da.Size, da.BitField = int(a.Datatype.Class), a.Datatype.Size, a.Datatype.ClassBitField
			} else {
				da.Class = -1
			}
			if a.Dataspace != nil {
				da.Dims = append([]uint64(nil), a.Dataspace.Dimensions...)
			}
			aa := a
			da.ValueRes = guard(func() error {
				v, err := aa.ReadValue()
				if err != nil {
					return err
				}
				da.Value = canonValue(v)
				da.typed(v)
				return nil
			})
			out = append(out, da)
		}
		return nil
	})
	return out, res
}

func compoundCanon(vals []core.CompoundValue) []string {
	out := make([]string, len(vals))
	for i, v := range vals {
		keys := make([]string, 0, len(v))
		for k := range v {
			keys = append(keys, k)
		}
		sort.Strings(keys)
		var sb strings.Builder
		for _, k := range keys {
			fmt.Fprintf(&sb, "%s=%s;", k, canonValue(v[k]))
		}
		out[i] = sb.String()
	}
	return out
}

// File dumps the file at path.
func File(path string, opt Options) *Dump {
	d := &Dump{}
	var f *hdf5.File
	d.OpenRes = guard(func() error {
		var err error
		f, err = hdf5.Open(path)
		return err
	})
	if !d.OpenRes.OK() || f == nil {
		return d
	}
	defer func() { _ = guard(func() error { return f.Close() }) }()
	d.SBVer = int(f.SuperblockVersion())
	max := opt.MaxObjects
	if max == 0 {
		max = 10000
	}
	type item struct {
		path string
		obj  hdf5.Object
	}
	var items []item
	wres := guard(func() error {
		f.Walk(func(p string, obj hdf5.Object) {
			if len(items) < max {
				items = append(items, item{p, obj})
			}
		})
		return nil
	})
	if !wres.OK() {
		d.OpenRes = Res{Panic: "walk:" + wres.Panic}
	}
	for _, it := range items {
		o := &Obj{Path: it.path}
		switch x := it.obj.(type) {
		case *hdf5.Group:
			o.Kind = "group"
			o.Addr = hdf5.VerifGroupIdentity(x)
			for _, ch := range x.Children() {
				if ch == nil {
					o.Children = append(o.Children, "<nil child>")
					continue
				}
				o.Children = append(o.Children, ch.Name())
			}
			o.Attrs, o.AttrsRes = attrsOf(x.Attributes)
		case *hdf5.Dataset:
			o.Kind = "dataset"
			o.Addr = x.Address()
			o.InfoRes = guard(func() error {
				s, err := x.Info()
				o.Info = s
				return err
			})
			o.Attrs, o.AttrsRes = attrsOf(x.Attributes)
			o.MetaRes = guard(func() error {
				hdr, err := core.ReadObjectHeader(f.Reader(), x.Address(), f.Superblock())
				if err != nil {
					return err
				}
				info, err := core.ReadDatasetInfo(hdr, f.Superblock())
				if err != nil {
					return err
				}
				o.TypeClass, o.TypeSize, o.TypeBits = int(info.Datatype.Class), info.Datatype.Size, info.Datatype.ClassBitField
				o.Dims = append([]uint64(nil), info.Dataspace.Dimensions...)
				o.MaxDims = append([]uint64(nil), info.Dataspace.MaxDims...)
				o.Layout = int(info.Layout.Class)
				o.Chunk = append([]uint64(nil), info.Layout.ChunkSize...)
				return nil
			})
			if opt.SkipData {
				break
			}
			if opt.MaxElems != 0 && o.MetaRes.OK() {
				n := uint64(1)
				for _, d := range o.Dims {
					if d != 0 && n > opt.MaxElems/d {
						n = opt.MaxElems + 1
						break
					}
					n *= d
				}
				if n > opt.MaxElems {
					o.ReadRes, o.StringsRes, o.CompoundRes = Res{Err: "skipped"}, Res{Err: "skipped"}, Res{Err: "skipped"}
					break
				}
			}
			o.ReadRes = guard(func() error {
				v, err := x.Read()
				if err != nil {
					return err
				}
				if opt.DropValues {
					return nil
				}
				o.Read = make([]uint64, len(v))
				for i, e := range v {
					o.Read[i] = math.Float64bits(e)
				}
				if opt.Twice {
					// the returned slice is the caller's: overwrite it, read again, compare
					for i := range v {
						v[i] = -7777.25
					}
					v2, err2 := x.Read()
					switch {
					case err2 != nil:
						o.Reread = "second Read failed: " + trunc(err2.Error(), 120)
					case len(v2) != len(o.Read):
						o.Reread = fmt.Sprintf("second Read returned %d elements, the first %d", len(v2), len(o.Read))
					default:
						for i, e := range v2 {
							if math.Float64bits(e) != o.Read[i] {
								o.Reread = fmt.Sprintf("element %d: second Read returned %v, the first %v", i, e, math.Float64frombits(o.Read[i]))
								break
							}
						}
					}
				}
				return nil
			})
			o.StringsRes = guard(func() error {
				v, err := x.ReadStrings()
				if err != nil {
					return err
				}
				if opt.DropValues {
					return nil
				}
				o.Strings = v
				if o.Strings == nil {
					o.Strings = []string{}
				}
				return nil
			})
			o.CompoundRes = guard(func() error {
				v, err := x.ReadCompound()
				if err != nil {
					return err
				}
				if opt.DropValues {
					return nil
				}
				o.Compound = compoundCanon(v)
				for _, e := range v {
					o.CompoundRaw = append(o.CompoundRaw, map[string]interface{}(e))
				}
				return nil
			})
			if opt.Extra {
				keep := func(r Res) {
					if o.ExtraRes.Panic == "" && (r.Panic != "" || o.ExtraRes.Err == "") {
						o.ExtraRes = r
					}
				}
				n := len(o.Dims)
				start, count := make([]uint64, n), make([]uint64, n)
				for i := range count {
					count[i] = 1
					if o.Dims[i] > 1 {
						count[i] = 2
					}
				}
				keep(guard(func() error { _, err := x.ReadSlice(start, count); return err }))
				keep(guard(func() error {
					ones := make([]uint64, n)
					for i := range ones {
						ones[i] = 1
					}
					_, err := x.ReadHyperslab(&hdf5.HyperslabSelection{Start: start, Count: count, Stride: ones, Block: ones})
					return err
				}))
				keep(guard(func() error {
					it, err := x.ChunkIterator()
					if err != nil {
						return err
					}
					for k := 0; k < 64 && it.Next(); k++ {
						if _, err := it.Chunk(); err != nil {
							return err
						}
					}
					return it.Err()
				}))
			}
			if opt.RetryIter && o.Layout == 2 {
				_ = guard(func() error {
					it, err := x.ChunkIterator()
					if err != nil {
						return err
					}
					h := sha1.New()
					okAll := true
					for k := 0; k < 64 && it.Next(); k++ {
						v, err := it.Chunk()
						if err != nil {
							o.IterRetried++
							v, err = it.Chunk() // once more, on the same iterator
						}
						if err != nil {
							okAll = false
							break
						}
						fmt.Fprintf(h, "%v|%v;", it.ChunkCoords(), v)
					}
					if okAll && it.Err() == nil {
						o.IterSum = fmt.Sprintf("%x", h.Sum(nil)[:8])
					}
					return nil
				})
			}
		case *hdf5.NamedDatatype:
			o.Kind = "datatype"
			if dt := x.Datatype(); dt != nil {
				o.Info = dt.String()
			}
		default:
			o.Kind = fmt.Sprintf("other:%T", it.obj)
		}
		d.Objects = append(d.Objects, o)
	}
	return d
}

// Logical returns a canonical string of the observable content of one object with error
// texts removed (error-ness kept), used for equality between two dumps.
func (o *Obj) Logical() string {
	r := func(x Res) string {
		switch {
		case x.Panic != "":
			return "PANIC"
		case x.Err != "":
			return "ERR"
		}
		return "ok"
	}
	var sb strings.Builder
	fmt.Fprintf(&sb, "meta=%s:c%d s%d b%x dims%v max%v|", r(o.MetaRes), o.TypeClass, o.TypeSize, o.TypeBits, o.Dims, o.MaxDims)
	fmt.Fprintf(&sb, "%s|%s|children=%v|info=%s|layout=%d chunk%v|read=%s:%x|strings=%s:%q|compound=%s:%q|attrs=%s:", o.Path, o.Kind, o.Children, r(o.InfoRes), o.Layout, o.Chunk, r(o.ReadRes), o.Read, r(o.StringsRes), o.Strings, r(o.CompoundRes), o.Compound, r(o.AttrsRes))
	as := append([]Attr(nil), o.Attrs...)
	sort.SliceStable(as, func(i, j int) bool { return as[i].Name < as[j].Name })
	for _, a := range as {
		fmt.Fprintf(&sb, "{%s c%d s%d b%x d%v raw=%s val=%s:%s}", a.Name, a.Class, a.Size, a.BitField, a.Dims, a.Raw, r(a.ValueRes), a.Value)
	}
	return sb.String()
}

// Diff compares two dumps and returns the paths whose logical content differs (including
// paths present in only one of them), excluding the given paths.
func Diff(a, b *Dump, exclude map[string]bool) []string {
	var out []string
	if a.OpenRes.OK() != b.OpenRes.OK() {
		return []string{"<open>"}
	}
	seen := map[string]bool{}
	am, bm := map[string][]string{}, map[string][]string{}
	for _, o := range a.Objects {
		am[o.Path] = append(am[o.Path], o.Logical())
	}
	for _, o := range b.Objects {
		bm[o.Path] = append(bm[o.Path], o.Logical())
	}
	for _, src := range []map[string][]string{am, bm} {
		for p := range src {
			if seen[p] || exclude[p] {
				continue
			}
			seen[p] = true
			x, y := am[p], bm[p]
			if len(x) != len(y) {
				out = append(out, p)
				continue
			}
			for i := range x {
				if x[i] != y[i] {
					out = append(out, p)
					break
				}
			}
		}
	}
	sort.Strings(out)
	return out
}
