package hx

import (
	"fmt"
	"reflect"
	"time"

	hdf5 "github.com/scigolib/hdf5"
	"github.com/scigolib/hdf5/internal/core"
	"github.com/scigolib/hdf5/internal/structures"
	"github.com/scigolib/hdf5/internal/zzverif/ev"
)

// Op is one write-API call (JSON-serialisable so that a whole history can be stored in a
// replay file and re-executed).
type Op struct {
	K string `json:"k"`
	// create_ds: Path, DT, Dims, Chunk, MaxDims, Gzip, Shuffle, Fletcher, StrSize, ArrDims, Enum*, OpaqueTag/Size, Data (nil = no write)
	// create_cmp: Path, Dims, Fields, Data(bytes)
	// write: Path, Data        resize: Path, Dims
	// attr: Path (dataset or group), Name, Data      delattr: Path, Name
	// group: Path     densegroup/grouplinks: Path, Links
	// hardlink: Path(link), Target    softlink: Path, Target    extlink: Path, File, Target
	// close | reopen | opends(Path) | close_again
	// rb_disable rb_enable rb_all rb_force rb_lazy_on rb_lazy_off rb_incr_on rb_incr_stop rb_attr(Path)
	Path     string            `json:"path,omitempty"`
	Name     string            `json:"name,omitempty"`
	DT       string            `json:"dt,omitempty"`
	Dims     []uint64          `json:"dims,omitempty"`
	Chunk    []uint64          `json:"chunk,omitempty"`
	MaxDims  []uint64          `json:"maxdims,omitempty"`
	Gzip     int               `json:"gzip,omitempty"`
	Shuffle  bool              `json:"shuffle,omitempty"`
	Fletcher bool              `json:"fletcher,omitempty"`
	StrSize  uint32            `json:"strsize,omitempty"`
	ArrDims  []uint64          `json:"arrdims,omitempty"`
	EnumN    []string          `json:"enum_names,omitempty"`
	EnumV    []int64           `json:"enum_values,omitempty"`
	OpTag    string            `json:"opaque_tag,omitempty"`
	OpSize   uint32            `json:"opaque_size,omitempty"`
	Fields   []Field           `json:"fields,omitempty"`
	Data     *Val              `json:"data,omitempty"`
	Target   string            `json:"target,omitempty"`
	File     string            `json:"file,omitempty"`
	Links    map[string]string `json:"links,omitempty"`
	// Expect: "" unknown, "ok" must succeed, "fail" must fail (set by generators that know)
	Expect string `json:"expect,omitempty"`
	// Tag: free label used by generators (e.g. which validation point a failing call probes)
	Tag string `json:"tag,omitempty"`
}

type Field struct {
	Name string `json:"name"`
	DT   string `json:"dt"` // i32 i64 f32 f64 str<N>
}

func (o Op) String() string {
	s := o.K
	if o.Path != "" {
		s += " " + o.Path
	}
	if o.Name != "" {
		s += " " + o.Name
	}
	if o.DT != "" {
		s += " " + o.DT
	}
	if len(o.Dims) > 0 {
		s += fmt.Sprint(o.Dims)
	}
	if len(o.Chunk) > 0 {
		s += " chunk" + fmt.Sprint(o.Chunk)
	}
	if o.Data != nil {
		s += " " + o.Data.String()
	}
	if o.Target != "" {
		s += " -> " + o.Target
	}
	return s
}

// RB describes the rebalancing configuration a file is created with.
type RB struct {
	NoRebalance bool     `json:"no_rebalance,omitempty"` // WithBTreeRebalancing(false)
	Lazy        bool     `json:"lazy,omitempty"`
	LazyThr     float64  `json:"lazy_threshold,omitempty"`
	LazyDelayNS int64    `json:"lazy_delay_ns,omitempty"`
	LazyBatch   int      `json:"lazy_batch,omitempty"`
	Incr        bool     `json:"incremental,omitempty"`
	IncrBudget  int64    `json:"incr_budget_ns,omitempty"`
	IncrEvery   int64    `json:"incr_interval_ns,omitempty"`
	Smart       bool     `json:"smart,omitempty"`
	SmartDetect bool     `json:"smart_autodetect,omitempty"`
	SmartSwitch bool     `json:"smart_autoswitch,omitempty"`
	SmartMin    uint64   `json:"smart_min_file_size,omitempty"`
	SmartModes  []string `json:"smart_modes,omitempty"`
}

func (r RB) IsDefault() bool {
	return !r.NoRebalance && !r.Lazy && !r.Incr && !r.Smart
}

// Script is a whole history on one file.
type Script struct {
	SB  uint8 `json:"sb"`
	RB  RB    `json:"rb"`
	Ops []Op  `json:"ops"`
}

type OpRes struct {
	Err     string `json:"err,omitempty"`
	Panic   string `json:"panic,omitempty"`
	Skipped string `json:"skipped,omitempty"` // not executed (no writer / no handle): reason
}

func (r OpRes) OK() bool { return r.Err == "" && r.Panic == "" && r.Skipped == "" }

// Exec is the interpreter state.
type Exec struct {
	Path string
	FW   *hdf5.FileWriter
	DS   map[string]*hdf5.DatasetWriter
	GR   map[string]*hdf5.GroupWriter
	Res  []OpRes
	// CloseRes is the outcome of the final Close issued by Run/RunWith.
	CloseRes OpRes
	// Hook, if set, is called before (phase "pre") and after (phase "post") every executed op.
	Hook func(i int, op *Op, phase string, res *OpRes)
	// closedFW keeps the last closed writer so that operations on a closed handle can be probed.
	closedFW *hdf5.FileWriter
	idleFW   *hdf5.FileWriter // see "open_idle"
}

var dtMap = map[string]hdf5.Datatype{
	"i8": hdf5.Int8, "i16": hdf5.Int16, "i32": hdf5.Int32, "i64": hdf5.Int64,
	"u8": hdf5.Uint8, "u16": hdf5.Uint16, "u32": hdf5.Uint32, "u64": hdf5.Uint64,
	"f32": hdf5.Float32, "f64": hdf5.Float64, "str": hdf5.String,
	"arr_i8": hdf5.ArrayInt8, "arr_i16": hdf5.ArrayInt16, "arr_i32": hdf5.ArrayInt32, "arr_i64": hdf5.ArrayInt64,
	"arr_u8": hdf5.ArrayUint8, "arr_u16": hdf5.ArrayUint16, "arr_u32": hdf5.ArrayUint32, "arr_u64": hdf5.ArrayUint64,
	"arr_f32": hdf5.ArrayFloat32, "arr_f64": hdf5.ArrayFloat64,
	"enum_i8": hdf5.EnumInt8, "enum_i16": hdf5.EnumInt16, "enum_i32": hdf5.EnumInt32, "enum_i64": hdf5.EnumInt64,
	"enum_u8": hdf5.EnumUint8, "enum_u16": hdf5.EnumUint16, "enum_u32": hdf5.EnumUint32, "enum_u64": hdf5.EnumUint64,
	"objref": hdf5.ObjectReference, "regref": hdf5.RegionReference, "opaque": hdf5.Opaque,
	"vstr": hdf5.VLenString, "v[]i32": hdf5.VLenInt32, "v[]i64": hdf5.VLenInt64, "v[]f32": hdf5.VLenFloat32,
	"v[]f64": hdf5.VLenFloat64, "v[]u32": hdf5.VLenUint32, "v[]u64": hdf5.VLenUint64,
}

// DTypeOf maps a datatype name to the library constant.
func DTypeOf(name string) (hdf5.Datatype, bool) { d, ok := dtMap[name]; return d, ok }

func (rb RB) options() []interface{} {
	var o []interface{}
	if rb.NoRebalance {
		o = append(o, hdf5.WithBTreeRebalancing(false))
	}
	if rb.Lazy {
		var lo []hdf5.LazyOption
		if rb.LazyThr != 0 {
			lo = append(lo, hdf5.LazyThreshold(rb.LazyThr))
		}
		if rb.LazyDelayNS != 0 {
			lo = append(lo, hdf5.LazyMaxDelay(time.Duration(rb.LazyDelayNS)))
		}
		if rb.LazyBatch != 0 {
			lo = append(lo, hdf5.LazyBatchSize(rb.LazyBatch))
		}
		o = append(o, hdf5.WithLazyRebalancing(lo...))
	}
	if rb.Incr {
		var io []hdf5.IncrementalOption
		if rb.IncrBudget != 0 {
			io = append(io, hdf5.IncrementalBudget(time.Duration(rb.IncrBudget)))
		}
		if rb.IncrEvery != 0 {
			io = append(io, hdf5.IncrementalInterval(time.Duration(rb.IncrEvery)))
		}
		o = append(o, hdf5.WithIncrementalRebalancing(io...))
	}
	if rb.Smart {
		so := []hdf5.SmartOption{hdf5.SmartAutoDetect(rb.SmartDetect), hdf5.SmartAutoSwitch(rb.SmartSwitch)}
		if rb.SmartMin != 0 {
			so = append(so, hdf5.SmartMinFileSize(rb.SmartMin))
		}
		if len(rb.SmartModes) > 0 {
			so = append(so, hdf5.SmartAllowedModes(rb.SmartModes...))
		}
		o = append(o, hdf5.WithSmartRebalancing(so...))
	}
	return o
}

// Start creates the file.
func (e *Exec) Start(s *Script) error {
	opts := []interface{}{hdf5.WithSuperblockVersion(s.SB)}
	opts = append(opts, s.RB.options()...)
	fw, err := hdf5.CreateForWrite(e.Path, hdf5.CreateTruncate, opts...)
	if err != nil {
		return err
	}
	e.FW = fw
	e.DS = map[string]*hdf5.DatasetWriter{}
	e.GR = map[string]*hdf5.GroupWriter{}
	return nil
}

func fieldDT(name string) (*core.DatatypeMessage, error) {
	switch name {
	case "i32":
		return core.CreateBasicDatatypeMessage(core.DatatypeFixed, 4)
	case "i64":
		return core.CreateBasicDatatypeMessage(core.DatatypeFixed, 8)
	case "f32":
		return core.CreateBasicDatatypeMessage(core.DatatypeFloat, 4)
	case "f64":
		return core.CreateBasicDatatypeMessage(core.DatatypeFloat, 8)
	}
	var n uint32
	if _, err := fmt.Sscanf(name, "str%d", &n); err == nil && n > 0 {
		return core.CreateBasicDatatypeMessage(core.DatatypeString, n)
	}
	return nil, fmt.Errorf("unknown field type %q", name)
}

// FieldSize returns the size in bytes of a compound field type name.
func FieldSize(name string) uint32 {
	dt, err := fieldDT(name)
	if err != nil {
		return 0
	}
	return dt.Size
}

func (e *Exec) do(op *Op) (err error, skipped string) {
	fw := e.FW
	needFW := func() bool {
		if fw == nil {
			skipped = "no open writer"
			return false
		}
		return true
	}
	switch op.K {
	case "create_ds":
		if !needFW() {
			return
		}
		dt, ok := dtMap[op.DT]
		if !ok {
			dt = hdf5.Datatype(9999) // deliberately unknown
		}
		var opts []hdf5.DatasetOption
		if op.StrSize != 0 {
			opts = append(opts, hdf5.WithStringSize(op.StrSize))
		}
		if op.ArrDims != nil {
			opts = append(opts, hdf5.WithArrayDims(op.ArrDims))
		}
		if op.EnumN != nil || op.EnumV != nil {
			opts = append(opts, hdf5.WithEnumValues(op.EnumN, op.EnumV))
		}
		if op.OpTag != "" || op.OpSize != 0 {
			opts = append(opts, hdf5.WithOpaqueTag(op.OpTag, op.OpSize))
		}
		// shape arguments are passed in slices of the caller that are reused (overwritten) as
		// soon as the call has returned
		dimsArg := append([]uint64(nil), op.Dims...)
		var chunkArg, maxArg []uint64
		if op.Chunk != nil {
			chunkArg = append([]uint64{}, op.Chunk...)
			opts = append(opts, hdf5.WithChunkDims(chunkArg))
		}
		if op.MaxDims != nil {
			maxArg = append([]uint64{}, op.MaxDims...)
			opts = append(opts, hdf5.WithMaxDims(maxArg))
		}
		defer func() { Poison(dimsArg); Poison(chunkArg); Poison(maxArg) }()
		if op.Shuffle {
			opts = append(opts, hdf5.WithShuffle())
		}
		if op.Gzip != 0 {
			opts = append(opts, hdf5.WithGZIPCompression(op.Gzip))
		}
		if op.Fletcher {
			opts = append(opts, hdf5.WithFletcher32())
		}
		ds, cerr := fw.CreateDataset(op.Path, dt, dimsArg, opts...)
		if cerr != nil {
			return cerr, ""
		}
		e.DS[op.Path] = ds
		if op.Data != nil {
			return e.write(ds, op), ""
		}
		return nil, ""
	case "create_cmp":
		if !needFW() {
			return
		}
		var fs []core.CompoundFieldDef
		off := uint32(0)
		for _, f := range op.Fields {
			dt, derr := fieldDT(f.DT)
			if derr != nil {
				return derr, ""
			}
			fs = append(fs, core.CompoundFieldDef{Name: f.Name, Offset: off, Type: dt})
			off += dt.Size
		}
		ct, cerr := core.CreateCompoundTypeFromFields(fs)
		if cerr != nil {
			return cerr, ""
		}
		ds, cerr := fw.CreateCompoundDataset(op.Path, ct, op.Dims)
		if cerr != nil {
			return cerr, ""
		}
		e.DS[op.Path] = ds
		if op.Data != nil {
			b := append([]byte(nil), op.Data.B...)
			werr := ds.WriteRaw(b)
			Poison(b)
			return werr, ""
		}
		return nil, ""
	case "write":
		ds := e.DS[op.Path]
		if ds == nil {
			return nil, "no dataset handle"
		}
		return e.write(ds, op), ""
	case "resize":
		ds := e.DS[op.Path]
		if ds == nil {
			return nil, "no dataset handle"
		}
		nd := append([]uint64(nil), op.Dims...)
		rerr := ds.Resize(nd)
		Poison(nd)
		return rerr, ""
	case "attr":
		if ds := e.DS[op.Path]; ds != nil {
			g := op.Data.Go()
			aerr := ds.WriteAttribute(op.Name, g)
			Poison(g)
			return aerr, ""
		}
		if g := e.GR[op.Path]; g != nil {
			gv := op.Data.Go()
			aerr := g.WriteAttribute(op.Name, gv)
			Poison(gv)
			return aerr, ""
		}
		return nil, "no handle"
	case "delattr":
		ds := e.DS[op.Path]
		if ds == nil {
			return nil, "no dataset handle"
		}
		return ds.DeleteAttribute(op.Name), ""
	case "group":
		if !needFW() {
			return
		}
		g, gerr := fw.CreateGroup(op.Path)
		if gerr == nil && g != nil {
			e.GR[op.Path] = g
		}
		return gerr, ""
	case "densegroup":
		if !needFW() {
			return
		}
		return fw.CreateDenseGroup(op.Path, op.Links), ""
	case "grouplinks":
		if !needFW() {
			return
		}
		return fw.CreateGroupWithLinks(op.Path, op.Links), ""
	case "hardlink":
		if !needFW() {
			return
		}
		return fw.CreateHardLink(op.Path, op.Target), ""
	case "softlink":
		if !needFW() {
			return
		}
		return fw.CreateSoftLink(op.Path, op.Target), ""
	case "extlink":
		if !needFW() {
			return
		}
		return fw.CreateExternalLink(op.Path, op.File, op.Target), ""
	case "close":
		if !needFW() {
			return
		}
		cerr := fw.Close()
		e.closedFW = fw
		e.FW = nil
		// handles of the closed session stay in e.DS so that "operations on a closed
		// handle" can be probed; reopen clears them
		return cerr, ""
	case "close_again":
		if e.closedFW == nil {
			return nil, "nothing closed yet"
		}
		return e.closedFW.Close(), ""
	case "closed_create_ds": // a call on a closed FileWriter
		if e.closedFW == nil {
			return nil, "nothing closed yet"
		}
		_, cerr := e.closedFW.CreateDataset(op.Path, hdf5.Int32, []uint64{2})
		return cerr, ""
	case "closed_group":
		if e.closedFW == nil {
			return nil, "nothing closed yet"
		}
		_, cerr := e.closedFW.CreateGroup(op.Path)
		return cerr, ""
	case "reopen":
		if e.FW != nil {
			return nil, "writer still open"
		}
		nfw, oerr := hdf5.OpenForWrite(e.Path, hdf5.OpenReadWrite)
		if oerr != nil {
			return oerr, ""
		}
		e.FW = nfw
		e.DS = map[string]*hdf5.DatasetWriter{}
		e.GR = map[string]*hdf5.GroupWriter{}
		return nil, ""
	case "open_idle": // a second read-write handle on the file that is never used to modify anything
		if e.idleFW != nil {
			return nil, "idle handle already open"
		}
		ifw, oerr := hdf5.OpenForWrite(e.Path, hdf5.OpenReadWrite)
		if oerr != nil {
			return oerr, ""
		}
		e.idleFW = ifw
		return nil, ""
	case "close_idle":
		if e.idleFW == nil {
			return nil, "no idle handle"
		}
		cerr := e.idleFW.Close()
		e.idleFW = nil
		return cerr, ""
	case "opends":
		if !needFW() {
			return
		}
		ds, oerr := fw.OpenDataset(op.Path)
		if oerr != nil {
			return oerr, ""
		}
		if op.Name != "" { // second handle on the same object under an alias key
			e.DS[op.Name] = ds
		} else {
			e.DS[op.Path] = ds
		}
		return nil, ""
	case "rb_disable":
		if !needFW() {
			return
		}
		fw.DisableRebalancing()
		return nil, ""
	case "rb_enable":
		if !needFW() {
			return
		}
		fw.EnableRebalancing()
		return nil, ""
	case "rb_all":
		if !needFW() {
			return
		}
		return fw.RebalanceAllBTrees(), ""
	case "rb_force":
		if !needFW() {
			return
		}
		_ = fw.ForceBatchRebalance() // "not enabled" is a legitimate answer
		return nil, ""
	case "rb_lazy_on":
		if !needFW() {
			return
		}
		cfg := structures.DefaultLazyConfig()
		_ = fw.EnableLazyRebalancing(cfg)
		return nil, ""
	case "rb_lazy_off":
		if !needFW() {
			return
		}
		_ = fw.DisableLazyRebalancing()
		return nil, ""
	case "rb_incr_on":
		if !needFW() {
			return
		}
		cfg := structures.DefaultIncrementalConfig()
		cfg.Interval = 50 * time.Microsecond
		_ = fw.EnableIncrementalRebalancing(cfg)
		return nil, ""
	case "rb_incr_stop":
		if !needFW() {
			return
		}
		_ = fw.StopIncrementalRebalancing()
		return nil, ""
	case "rb_attr":
		ds := e.DS[op.Path]
		if ds == nil {
			return nil, "no dataset handle"
		}
		_ = ds.RebalanceAttributeBTree()
		return nil, ""
	}
	return fmt.Errorf("hx: unknown op kind %q", op.K), ""
}

func (e *Exec) write(ds *hdf5.DatasetWriter, op *Op) error {
	if op.Data.Kind == "raw" {
		b := append([]byte(nil), op.Data.B...)
		err := ds.WriteRaw(b)
		Poison(b)
		return err
	}
	g := op.Data.Go()
	err := ds.Write(g)
	Poison(g)
	return err
}

// Poison overwrites what the caller passed to a write call once the call has returned (every
// element of every slice, nested ones too): a caller may reuse its buffers, so a library that
// kept a reference instead of the values shows the poison in the file.
func Poison(v interface{}) {
	poisonValue(reflect.ValueOf(v))
}

func poisonValue(rv reflect.Value) {
	if rv.Kind() != reflect.Slice {
		return
	}
	for i := 0; i < rv.Len(); i++ {
		el := rv.Index(i)
		switch el.Kind() {
		case reflect.Slice:
			poisonValue(el)
		case reflect.Int, reflect.Int8, reflect.Int16, reflect.Int32, reflect.Int64:
			el.SetInt(0x5A)
		case reflect.Uint, reflect.Uint8, reflect.Uint16, reflect.Uint32, reflect.Uint64:
			el.SetUint(0x5A)
		case reflect.Float32, reflect.Float64:
			el.SetFloat(-90.5)
		case reflect.String:
			el.SetString("POISONED-AFTER-RETURN")
		}
	}
}

// Step executes one op, recovering panics.
func (e *Exec) Step(i int, op *Op) OpRes {
	var res OpRes
	if e.Hook != nil {
		e.Hook(i, op, "pre", &res)
	}
	var err error
	var skipped string
	DirtyPools(i%64 == 0)
	site, msg, p := ev.Guard(func() { err, skipped = e.do(op) })
	switch {
	case p:
		res.Panic = ev.PanicClass(msg) + "@" + site
	case skipped != "":
		res.Skipped = skipped
	case err != nil:
		res.Err = err.Error()
		if len(res.Err) > 300 {
			res.Err = res.Err[:300]
		}
	}
	if e.Hook != nil {
		e.Hook(i, op, "post", &res)
	}
	e.Res = append(e.Res, res)
	return res
}

// Run executes a whole script on path. It always ends with a Close if a writer is open.
func Run(path string, s *Script) *Exec {
	e := &Exec{Path: path}
	return RunWith(e, s)
}

func RunWith(e *Exec, s *Script) *Exec {
	var startErr error
	site, msg, p := ev.Guard(func() { startErr = e.Start(s) })
	if p {
		e.Res = append(e.Res, OpRes{Panic: ev.PanicClass(msg) + "@" + site})
		return e
	}
	if startErr != nil {
		e.Res = append(e.Res, OpRes{Err: "create: " + startErr.Error()})
		return e
	}
	for i := range s.Ops {
		e.Step(i, &s.Ops[i])
	}
	e.CloseRes = e.Finish()
	if e.CloseRes.Skipped != "" {
		e.CloseRes = OpRes{}
	}
	return e
}

// Finish closes an open writer (recorded as an extra result).
func (e *Exec) Finish() OpRes {
	if e.FW == nil {
		return OpRes{Skipped: "already closed"}
	}
	var err error
	var res OpRes
	site, msg, p := ev.Guard(func() { err = e.FW.Close() })
	if p {
		res.Panic = ev.PanicClass(msg) + "@" + site
	} else if err != nil {
		res.Err = err.Error()
	}
	e.closedFW = e.FW
	e.FW = nil
	return res
}
