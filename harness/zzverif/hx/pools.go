package hx

import "github.com/scigolib/hdf5/internal/zzverif/pools"

// DirtyPools: see pools.Dirty.
func DirtyPools(big bool) { pools.Dirty(big) }
