// Package hx holds the file-level harness: serialisable values and operations on the
// write API, an interpreter that executes operation scripts against the real library, and
// the executable reference model the monitors compare against.
package hx

import (
	"encoding/binary"
	"fmt"
	"math"

	"github.com/scigolib/hdf5/internal/zzverif/ev"
)

// Val is a JSON-serialisable description of a Go value passed to the write API (an
// attribute value or dataset data). Exactly one payload field is used, chosen by Kind.
//
// Kinds: i8 i16 i32 i64 u8 u16 u32 u64 f32 f64 str (scalars, attributes only);
// []i8 .. []f64, []str, bytes (slices: dataset data, or 1-D attribute values);
// [][]u8-style vlen kinds: vstr, v[]i32, v[]i64, v[]u32, v[]u64, v[]f32, v[]f64;
// unsupported kinds for negative tests: int, bool, nil, struct, map, []int, []bool, empty[]i32.
type Val struct {
	Kind string     `json:"kind"`
	I    []int64    `json:"i,omitempty"`
	U    []uint64   `json:"u,omitempty"`
	F    []uint64   `json:"f,omitempty"` // float bit patterns (32-bit patterns for f32)
	S    []string   `json:"s,omitempty"`
	B    []byte     `json:"b,omitempty"`
	VU   [][]uint64 `json:"vu,omitempty"` // vlen sequences (ints as two's complement / floats as bits)
}

func (v Val) IsScalar() bool {
	return len(v.Kind) > 0 && v.Kind[0] != '[' && v.Kind != "bytes" && v.Kind[0] != 'v'
}

// Len returns the number of elements.
func (v Val) Len() int {
	switch {
	case len(v.I) > 0:
		return len(v.I)
	case len(v.U) > 0:
		return len(v.U)
	case len(v.F) > 0:
		return len(v.F)
	case len(v.S) > 0:
		return len(v.S)
	case len(v.VU) > 0:
		return len(v.VU)
	case v.Kind == "bytes":
		return len(v.B)
	}
	return 0
}

// ElemSize returns the element size in bytes for numeric kinds.
func (v Val) ElemSize() int {
	switch v.base() {
	case "i8", "u8":
		return 1
	case "i16", "u16":
		return 2
	case "i32", "u32", "f32":
		return 4
	case "i64", "u64", "f64":
		return 8
	}
	return 0
}

func (v Val) base() string {
	k := v.Kind
	if len(k) > 2 && k[:2] == "[]" {
		return k[2:]
	}
	if len(k) > 3 && k[:3] == "v[]" {
		return k[3:]
	}
	return k
}

func (v Val) Base() string { return v.base() }

func (v Val) Supported() bool {
	switch v.Kind {
	case "int", "bool", "nil", "struct", "map", "[]int", "[]bool", "empty[]i32", "[]i8attr", "[]u16attr":
		return false
	}
	return true
}

// Go builds the Go value handed to the library.
func (v Val) Go() interface{} {
	switch v.Kind {
	case "i8":
		return int8(v.I[0])
	case "i16":
		return int16(v.I[0])
	case "i32":
		return int32(v.I[0])
	case "i64":
		return v.I[0]
	case "u8":
		return uint8(v.U[0])
	case "u16":
		return uint16(v.U[0])
	case "u32":
		return uint32(v.U[0])
	case "u64":
		return v.U[0]
	case "f32":
		return math.Float32frombits(uint32(v.F[0]))
	case "f64":
		return math.Float64frombits(v.F[0])
	case "str":
		return v.S[0]
	case "[]i8":
		o := make([]int8, len(v.I))
		for i, x := range v.I {
			o[i] = int8(x)
		}
		return o
	case "[]i16":
		o := make([]int16, len(v.I))
		for i, x := range v.I {
			o[i] = int16(x)
		}
		return o
	case "[]i32":
		o := make([]int32, len(v.I))
		for i, x := range v.I {
			o[i] = int32(x)
		}
		return o
	case "[]i64":
		return append([]int64(nil), v.I...)
	case "[]u8":
		o := make([]uint8, len(v.U))
		for i, x := range v.U {
			o[i] = uint8(x)
		}
		return o
	case "[]u16":
		o := make([]uint16, len(v.U))
		for i, x := range v.U {
			o[i] = uint16(x)
		}
		return o
	case "[]u32":
		o := make([]uint32, len(v.U))
		for i, x := range v.U {
			o[i] = uint32(x)
		}
		return o
	case "[]u64":
		return append([]uint64(nil), v.U...)
	case "[]f32":
		o := make([]float32, len(v.F))
		for i, x := range v.F {
			o[i] = math.Float32frombits(uint32(x))
		}
		return o
	case "[]f64":
		o := make([]float64, len(v.F))
		for i, x := range v.F {
			o[i] = math.Float64frombits(x)
		}
		return o
	case "[]str", "vstr":
		return append([]string(nil), v.S...)
	case "bytes":
		return append([]byte(nil), v.B...)
	case "v[]i32":
		o := make([][]int32, len(v.VU))
		for i, s := range v.VU {
			o[i] = make([]int32, len(s))
			for j, x := range s {
				o[i][j] = int32(x)
			}
		}
		return o
	case "v[]i64":
		o := make([][]int64, len(v.VU))
		for i, s := range v.VU {
			o[i] = make([]int64, len(s))
			for j, x := range s {
				o[i][j] = int64(x)
			}
		}
		return o
	case "v[]u32":
		o := make([][]uint32, len(v.VU))
		for i, s := range v.VU {
			o[i] = make([]uint32, len(s))
			for j, x := range s {
				o[i][j] = uint32(x)
			}
		}
		return o
	case "v[]u64":
		o := make([][]uint64, len(v.VU))
		for i, s := range v.VU {
			o[i] = append([]uint64{}, s...)
		}
		return o
	case "v[]f32":
		o := make([][]float32, len(v.VU))
		for i, s := range v.VU {
			o[i] = make([]float32, len(s))
			for j, x := range s {
				o[i][j] = math.Float32frombits(uint32(x))
			}
		}
		return o
	case "v[]f64":
		o := make([][]float64, len(v.VU))
		for i, s := range v.VU {
			o[i] = make([]float64, len(s))
			for j, x := range s {
				o[i][j] = math.Float64frombits(x)
			}
		}
		return o
	// ---- unsupported kinds (negative tests)
	case "int":
		return int(7)
	case "bool":
		return true
	case "nil":
		return nil
	case "struct":
		return struct{ A int }{1}
	case "map":
		return map[string]int{"a": 1}
	case "[]int":
		return []int{1, 2}
	case "[]bool":
		return []bool{true}
	case "empty[]i32":
		return []int32{}
	case "[]i8attr":
		return []int8{1, 2}
	case "[]u16attr":
		return []uint16{1, 2}
	}
	panic("hx.Val.Go: unknown kind " + v.Kind)
}

// Bytes returns the little-endian raw bytes the value must be stored as (numeric kinds,
// bytes; "str" as attribute: the string plus a NUL terminator).
func (v Val) Bytes() []byte {
	es := v.ElemSize()
	put := func(dst []byte, x uint64) {
		switch es {
		case 1:
			dst[0] = byte(x)
		case 2:
			binary.LittleEndian.PutUint16(dst, uint16(x))
		case 4:
			binary.LittleEndian.PutUint32(dst, uint32(x))
		case 8:
			binary.LittleEndian.PutUint64(dst, x)
		}
	}
	switch {
	case v.Kind == "str":
		return append([]byte(v.S[0]), 0)
	case v.Kind == "bytes":
		return append([]byte(nil), v.B...)
	case len(v.I) > 0:
		out := make([]byte, es*len(v.I))
		for i, x := range v.I {
			put(out[i*es:], uint64(x))
		}
		return out
	case len(v.U) > 0:
		out := make([]byte, es*len(v.U))
		for i, x := range v.U {
			put(out[i*es:], x)
		}
		return out
	case len(v.F) > 0:
		out := make([]byte, es*len(v.F))
		for i, x := range v.F {
			put(out[i*es:], x)
		}
		return out
	}
	return nil
}

// AsFloat64Bits returns what the reader's documented widening to float64 must yield
// for each element (bit patterns), or nil if the kind has no numeric read.
func (v Val) AsFloat64Bits() []uint64 {
	switch v.base() {
	case "i8", "i16", "i32", "i64":
		out := make([]uint64, len(v.I))
		for i, x := range v.I {
			out[i] = math.Float64bits(float64(x))
		}
		return out
	case "u8", "u16", "u32", "u64":
		out := make([]uint64, len(v.U))
		for i, x := range v.U {
			out[i] = math.Float64bits(float64(x))
		}
		return out
	case "f32":
		out := make([]uint64, len(v.F))
		for i, x := range v.F {
			out[i] = math.Float64bits(float64(math.Float32frombits(uint32(x))))
		}
		return out
	case "f64":
		return append([]uint64(nil), v.F...)
	}
	return nil
}

func (v Val) String() string {
	n := v.Len()
	return fmt.Sprintf("%s×%d", v.Kind, n)
}

// ---- generators

var intExtremes = map[int][]int64{
	1: {0, 1, -1, 127, -128, 42},
	2: {0, 1, -1, 32767, -32768, 12345},
	4: {0, 1, -1, math.MaxInt32, math.MinInt32, 1 << 30},
	8: {0, 1, -1, math.MaxInt64, math.MinInt64, 1 << 53, 1<<53 + 1},
}

var uintExtremes = map[int][]uint64{
	1: {0, 1, 255, 128},
	2: {0, 1, 65535, 32768},
	4: {0, 1, math.MaxUint32, 1 << 31, 4000000000},
	8: {0, 1, math.MaxUint64, 1 << 63, 1 << 53, 1<<63 + 1},
}

// GenNumeric fills a slice kind ("[]i32", ...) with n elements using a data style:
// 0 zeros, 1 extremes, 2 ramp, 3 random.
func GenNumeric(r *ev.Rand, kind string, n, style int) Val {
	v := Val{Kind: kind}
	es := v.ElemSize()
	switch v.base()[0] {
	case 'i':
		v.I = make([]int64, n)
		for i := range v.I {
			switch style {
			case 0:
			case 1:
				e := intExtremes[es]
				v.I[i] = e[r.Intn(len(e))]
			case 2:
				v.I[i] = int64(i) - int64(n/2)
			default:
				x := int64(r.Uint64())
				switch es {
				case 1:
					x = int64(int8(x))
				case 2:
					x = int64(int16(x))
				case 4:
					x = int64(int32(x))
				}
				v.I[i] = x
			}
			// keep ramp inside the type's range
			switch es {
			case 1:
				v.I[i] = int64(int8(v.I[i]))
			case 2:
				v.I[i] = int64(int16(v.I[i]))
			}
		}
	case 'u':
		v.U = make([]uint64, n)
		for i := range v.U {
			switch style {
			case 0:
			case 1:
				e := uintExtremes[es]
				v.U[i] = e[r.Intn(len(e))]
			case 2:
				v.U[i] = uint64(i)
			default:
				v.U[i] = r.Uint64()
			}
			if es < 8 {
				v.U[i] &= 1<<(8*uint(es)) - 1
			}
		}
		if n == 0 {
			v.U = []uint64{}
		}
	case 'f':
		v.F = make([]uint64, n)
		for i := range v.F {
			switch style {
			case 0:
			case 1:
				if es == 4 {
					v.F[i] = uint64(r.Float32Bits())
				} else {
					v.F[i] = r.Float64Bits()
				}
			case 2:
				if es == 4 {
					v.F[i] = uint64(math.Float32bits(float32(i) * 0.25))
				} else {
					v.F[i] = math.Float64bits(float64(i) * 0.25)
				}
			default:
				if es == 4 {
					v.F[i] = uint64(r.Uint32())
				} else {
					v.F[i] = r.Uint64()
				}
			}
		}
	}
	return v
}

// ScalarOf returns a scalar Val of the given kind.
func ScalarOf(r *ev.Rand, kind string) Val {
	s := GenNumeric(r, "[]"+kind, 1, 1+r.Intn(3))
	s.Kind = kind
	return s
}
