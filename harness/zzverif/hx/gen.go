package hx

import (
	"fmt"
	"strings"

	"github.com/scigolib/hdf5/internal/zzverif/ev"
)

// NumericKinds are the ten scalar element kinds of the write API.
var NumericKinds = []string{"i8", "i16", "i32", "i64", "u8", "u16", "u32", "u64", "f32", "f64"}

// ReadableKinds are the kinds for which the reader offers a typed numeric read.
var ReadableKinds = map[string]bool{"i32": true, "i64": true, "u32": true, "u64": true, "f32": true, "f64": true}

var dimPool = []uint64{1, 2, 3, 4, 5, 7, 8, 9, 11, 13, 16, 17, 31, 32, 64}

// GenDims returns a shape of the given rank with at most maxElems elements.
func GenDims(r *ev.Rand, rank int, maxElems uint64) []uint64 {
	for {
		d := make([]uint64, rank)
		total := uint64(1)
		for i := range d {
			d[i] = dimPool[r.Intn(len(dimPool))]
			if rank == 1 && r.Chance(1, 3) {
				d[i] = uint64(r.Range(1, int(maxElems)))
			}
			total *= d[i]
		}
		if total <= maxElems {
			return d
		}
	}
}

// GenChunk returns a chunk shape for dims. style: 0 = whole extent, 1 = non-dividing,
// 2 = many chunks per dimension, 3 = chunk of one element, 4 = random.
func GenChunk(r *ev.Rand, dims []uint64, style int) []uint64 {
	c := make([]uint64, len(dims))
	for i, d := range dims {
		switch style {
		case 0:
			c[i] = d
		case 1:
			c[i] = d/2 + 1
			if d > 2 && d%c[i] == 0 {
				c[i]--
			}
		case 2:
			c[i] = 1 + d/4
			if c[i] > 3 {
				c[i] = 3
			}
		case 3:
			c[i] = 1
		default:
			c[i] = uint64(r.Range(1, int(d)))
		}
		if c[i] == 0 {
			c[i] = 1
		}
	}
	return c
}

func NumElems(dims []uint64) uint64 {
	t := uint64(1)
	for _, d := range dims {
		t *= d
	}
	return t
}

// ChunkClass names the layout class used in finding keys.
func ChunkClass(dims, chunk []uint64) string {
	if chunk == nil {
		return "contig"
	}
	edge, multi, one := false, false, true
	for i := range dims {
		if dims[i]%chunk[i] != 0 {
			edge = true
		}
		if chunk[i] < dims[i] {
			multi = true
		}
		if chunk[i] != 1 {
			one = false
		}
	}
	switch {
	case edge:
		return "chunk-edge"
	case one && multi:
		return "chunk1"
	case multi && len(dims) > 1:
		return "chunkN-ND"
	case multi:
		return "chunkN-1D"
	}
	return "chunk-whole"
}

// GenStrings returns n strings of at most size bytes without NUL bytes.
func GenStrings(r *ev.Rand, n int, size int) []string {
	out := make([]string, n)
	for i := range out {
		l := r.Intn(size + 1)
		switch r.Intn(6) {
		case 0:
			l = size // exactly fills the field (no terminator)
		case 1:
			l = 0
		}
		b := make([]byte, l)
		for j := range b {
			b[j] = byte(r.Range(0x20, 0x7e))
		}
		if l >= 2 && r.Chance(1, 5) {
			copy(b, "é")
		}
		out[i] = string(b)
	}
	return out
}

// GenName returns an object/attribute name from a small pool style.
func GenName(r *ev.Rand, i int) string {
	switch r.Intn(8) {
	case 0:
		return fmt.Sprintf("a%d", i)
	case 1:
		return fmt.Sprintf("%012d", i)
	case 2:
		return fmt.Sprintf("naïve-ключ-%d", i)
	case 3:
		return fmt.Sprintf("L%d_%s", i, strings.Repeat("x", r.Range(20, 60)))
	case 4:
		return fmt.Sprintf("with space %d", i)
	default:
		return fmt.Sprintf("n%d_%x", i, r.Bytes(r.Intn(6)))
	}
}

// Unlimited is the library's marker for an unlimited maximum dimension.
const Unlimited uint64 = 0xFFFFFFFFFFFFFFFF
