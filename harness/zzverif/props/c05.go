package props

import (
	"bytes"
	"fmt"
	"os"
	"path/filepath"
	"sort"
	"strings"

	"github.com/scigolib/hdf5/internal/zzverif/ev"
	"github.com/scigolib/hdf5/internal/zzverif/hx"
	"github.com/scigolib/hdf5/internal/zzverif/specdec"
)

// C05 — written files are well-formed: in bounds, disjoint, consistent, spec-decodable.
//
// Observer: specdec, an independent decoder of the HDF5 file format written from the
// specification (shares no code with the library; validated against the reference corpus
// and its h5dump outputs, see C06). Every file produced by a seeded write history is
//   (1) decoded in strict mode: every deviation from the specification is an issue key;
//   (2) decoded with the named tolerances on, so that the walk gets past known deviations:
//       further issues, and the extent invariants (inside the file, below the superblock's
//       end-of-file address, pairwise disjoint) are checked on everything reachable;
//   (3) compared with what the history wrote: tree, shapes, datatypes, raw dataset bytes,
//       attribute bytes.

type c05Obj struct {
	Kind   string // dataset | group
	DS     *c01DS
	Attrs  attrModel
	Dims   []uint64
	Target string
	Stale  bool // resized and not written since: shape known, values not compared
}

func c05ExpectedRaw(d *c01DS) []byte {
	op := d.Op
	switch d.Family {
	case "string":
		out := make([]byte, 0, len(op.Data.S)*int(op.StrSize))
		for _, s := range op.Data.S {
			b := make([]byte, op.StrSize)
			copy(b, s)
			out = append(out, b...)
		}
		return out
	case "compound", "opaque":
		return op.Data.B
	default:
		return op.Data.Bytes()
	}
}

// c05NormIssue collapses issue keys that name one root cause in many variants.
func c05NormIssue(k string) string {
	if strings.HasPrefix(k, "overlap:") || strings.HasPrefix(k, "oob:") || strings.HasPrefix(k, "beyond-eof:") {
		if strings.Contains(k, "TREE") {
			// v1 B-tree nodes are allocated at the size of the entries in use; the format fixes
			// the node size at 2K entries, which is the size the decoder must assume
			return "tree-node-smaller-than-2K-entries"
		}
	}
	return k
}

// c05DenseGarbage: a link of the dense group decoded at the place a non-conforming heap id
// names is garbage; when the garbage happens to parse as a link, following it fails somewhere
// else (an object header outside the file, ...). Same deviation, not another one.
func c05DenseGarbage(is specdec.Issue) bool {
	return strings.Contains(is.Detail, " of /dense/") || strings.Contains(is.Detail, "/dense/\x00")
}

func c05Run(c *ev.Ctx) {
	r := c.R
	sbv := []uint8{0, 2, 3}[r.Intn(3)]
	forceMinimal := c.Index%20 == 3 // every twentieth file: no object at all, superblock versions in turn
	if forceMinimal {
		sbv = []uint8{0, 2, 3}[(c.Index/20)%3]
	}
	s := &hx.Script{SB: sbv}
	model := map[string]*c05Obj{}
	var groups []string
	ngroups := r.Intn(4)
	for i := 0; i < ngroups; i++ {
		p := fmt.Sprintf("/g%d", i)
		if len(groups) > 0 && r.Bool() {
			p = groups[r.Intn(len(groups))] + p
		}
		s.Ops = append(s.Ops, hx.Op{K: "group", Path: p})
		model[p] = &c05Obj{Kind: "group", Attrs: attrModel{}}
		groups = append(groups, p)
	}
	nds := r.Range(1, 4)
	// one file in twelve holds no dataset; half of those hold nothing at all, or only the
	// traces of calls that were refused (a session that allocates nothing after creation)
	minimal := r.Chance(1, 12) || forceMinimal
	if minimal {
		nds = 0
		if r.Bool() || forceMinimal {
			s.Ops, groups, ngroups = nil, nil, 0
			model = map[string]*c05Obj{}
			if r.Bool() {
				s.Ops = append(s.Ops, hx.Op{K: "create_ds", Path: "/nope/x", DT: "i32", Dims: []uint64{2}}, hx.Op{K: "group", Path: "relative"})
			}
		}
	}
	var dss, resizable []string
	maxElems := uint64(c.Pick(600, 5000))
	for i := 0; i < nds; i++ {
		d := c01GenDataset(r, i, maxElems)
		if d.Family == "ref" {
			d.Family = "numeric"
			d.Op.DT = "u64"
		}
		if len(groups) > 0 && r.Bool() {
			d.Op.Path = groups[r.Intn(len(groups))] + d.Op.Path
		}
		if r.Chance(1, 3) && d.Op.Chunk != nil && d.Family == "numeric" {
			// resizable: unlimited, a maximum equal to the extent, or a little above it
			d.Op.MaxDims = make([]uint64, len(d.Op.Dims))
			mode := r.Intn(3)
			for j := range d.Op.MaxDims {
				switch mode {
				case 0:
					d.Op.MaxDims[j] = hx.Unlimited
				case 1:
					d.Op.MaxDims[j] = d.Op.Dims[j]
				default:
					d.Op.MaxDims[j] = d.Op.Dims[j] + uint64(r.Intn(4))
				}
			}
			resizable = append(resizable, d.Op.Path)
		}
		dd := d
		s.Ops = append(s.Ops, d.Op)
		model[d.Op.Path] = &c05Obj{Kind: "dataset", DS: &dd, Attrs: attrModel{}, Dims: d.Op.Dims}
		dss = append(dss, d.Op.Path)
	}
	// one file in eight: a group whose 256-byte name heap is filled to refusal with names of
	// three bytes per character (also the root group's, in a third of those)
	if r.Chance(1, 8) && !forceMinimal {
		parent := "/fill"
		if r.Chance(1, 3) {
			parent = ""
		} else {
			s.Ops = append(s.Ops, hx.Op{K: "group", Path: parent})
			model[parent] = &c05Obj{Kind: "group", Attrs: attrModel{}}
		}
		// every second of those instead: 30-40 children with names of two or three bytes, so
		// that the group's 32 symbol table entries run out before its name heap does (an entry
		// accepted beyond them is decoded from whatever follows the node: seeded C05.r9)
		nfill, short := 26, r.Bool()
		if short {
			nfill = r.Range(30, 40)
			c.Count("files_with_group_filled_beyond_32_entries", 1)
		}
		for j := 0; j < nfill; j++ {
			name := strings.Repeat("語", r.Range(3, 12)) + fmt.Sprint(j)
			if short {
				name = fmt.Sprintf("c%d", j)
				if j%4 == 3 {
					s.Ops = append(s.Ops, hx.Op{K: "group", Path: parent + "/" + name})
					model[parent+"/"+name] = &c05Obj{Kind: "group", Attrs: attrModel{}}
					continue
				}
			}
			d := c01DS{Family: "numeric", Layout: "contiguous"}
			v := hx.GenNumeric(r, "[]i16", 2, 2)
			d.Op = hx.Op{K: "create_ds", Path: parent + "/" + name, DT: "i16", Dims: []uint64{2}, Data: &v}
			dd := d
			s.Ops = append(s.Ops, d.Op)
			model[d.Op.Path] = &c05Obj{Kind: "dataset", DS: &dd, Attrs: attrModel{}, Dims: d.Op.Dims}
		}
	}
	// variable-length data (global heap collections, also larger than the default 4 KiB)
	// followed by another object, so that a collection that claims more than it was given
	// collides with something
	var vlenWant map[string][][]byte
	if r.Chance(1, 3) && !forceMinimal {
		vlenWant = map[string][][]byte{}
		nv := r.Range(2, 6)
		var strs []string
		var want [][]byte
		for i := 0; i < nv; i++ {
			n := []int{0, 5, 60, 4040 + r.Intn(10), 4049, 5000, 9000}[r.Weighted([]int{1, 3, 3, 2, 1, 2, 1})]
			b := r.Bytes(n)
			for j := range b {
				b[j] = 'a' + b[j]%26
			}
			strs = append(strs, string(b))
			want = append(want, b)
		}
		v := hx.Val{Kind: "vstr", S: strs}
		s.Ops = append(s.Ops, hx.Op{K: "create_ds", Path: "/vlen_strings", DT: "vstr", Dims: []uint64{uint64(nv)}, Data: &v})
		vlenWant["/vlen_strings"] = want
		av := hx.GenNumeric(r, "[]f64", 8, 2)
		s.Ops = append(s.Ops, hx.Op{K: "create_ds", Path: "/after_vlen", DT: "f64", Dims: []uint64{8}, Data: &av})
		dd := c01DS{Op: s.Ops[len(s.Ops)-1], Family: "numeric", Layout: "contiguous"}
		model["/after_vlen"] = &c05Obj{Kind: "dataset", DS: &dd, Attrs: attrModel{}, Dims: []uint64{8}}
		model["/vlen_strings"] = &c05Obj{Kind: "dataset", Attrs: attrModel{}, Dims: []uint64{uint64(nv)}}
		dss = append(dss, "/after_vlen")
	}
	// attributes (some objects pushed into dense storage)
	targets := append(append([]string(nil), dss...), groups...)
	for _, t := range targets {
		if !r.Chance(2, 3) {
			continue
		}
		n := r.Range(1, 6)
		if r.Chance(1, 4) {
			n = r.Range(9, 20)
		}
		for j := 0; j < n; j++ {
			v := genAttrVal(r, r.Bool())
			if !v.Supported() {
				v = hx.ScalarOf(r, "u16")
			}
			name := fmt.Sprintf("a%d", j%14)
			s.Ops = append(s.Ops, hx.Op{K: "attr", Path: t, Name: name, Data: &v})
			if r.Chance(1, 4) {
				// the attribute just stored is replaced at once by a value of another size
				// (delete + insert at the end of its storage), more attributes follow
				v2 := genAttrVal(r, r.Bool())
				if !v2.Supported() || len(v2.Bytes()) == len(v.Bytes()) {
					v2 = hx.Val{Kind: "str", S: []string{strings.Repeat("r", 3+len(v.Bytes())%40)}}
				}
				s.Ops = append(s.Ops, hx.Op{K: "attr", Path: t, Name: name, Data: &v2})
			}
		}
		if model[t].Kind == "dataset" && r.Chance(1, 3) {
			s.Ops = append(s.Ops, hx.Op{K: "delattr", Path: t, Name: fmt.Sprintf("a%d", r.Intn(6))})
		}
	}
	// hard links
	nhl := r.Intn(3)
	for i := 0; i < nhl && len(targets) > 0; i++ {
		t := targets[r.Intn(len(targets))]
		p := fmt.Sprintf("/hl%d", i)
		s.Ops = append(s.Ops, hx.Op{K: "hardlink", Path: p, Target: t})
	}
	// resize histories: every resize is followed by a full write at the new shape
	for _, p := range resizable {
		if !r.Chance(2, 3) {
			continue
		}
		m := model[p]
		cur := append([]uint64(nil), m.DS.Op.Dims...)
		for round := r.Range(1, 3); round > 0; round-- {
			nd := append([]uint64(nil), cur...)
			if !r.Chance(1, 4) {
				for j := range nd {
					hi := m.DS.Op.MaxDims[j]
					if hi == hx.Unlimited {
						hi = cur[j] + 5
					}
					nd[j] = uint64(r.Range(1, int(hi)))
				}
			}
			if hx.NumElems(nd) > 20000 {
				continue
			}
			cur = nd
			v := hx.GenNumeric(r, "[]"+m.DS.Op.DT, int(hx.NumElems(nd)), 1+r.Intn(3))
			s.Ops = append(s.Ops, hx.Op{K: "resize", Path: p, Dims: nd}, hx.Op{K: "write", Path: p, Data: &v})
		}
	}
	// a dense group now and then
	if len(dss) > 0 && r.Chance(1, 4) {
		links := map[string]string{}
		for j := 0; j < r.Range(1, 12); j++ {
			links[fmt.Sprintf("l%d", j)] = dss[r.Intn(len(dss))]
		}
		s.Ops = append(s.Ops, hx.Op{K: "densegroup", Path: "/dense", Links: links})
	}
	path := filepath.Join(c.Dir, "c05.h5")
	dumpScriptIfReplay(c, s)
	e := hx.Run(path, s)
	var ops []string
	for i, op := range s.Ops {
		st := "ok"
		if i < len(e.Res) && !e.Res[i].OK() {
			st = "ERR:" + e.Res[i].Err
		}
		ops = append(ops, fmt.Sprintf("%d:%s[%s]", i, op.String(), st))
	}
	wit := func(detail any) map[string]any {
		t := ops
		if len(t) > 40 {
			t = t[:40]
		}
		return map[string]any{"sb": sbv, "detail": detail, "ops": t}
	}
	// step the model with the outcomes
	for i, op := range s.Ops {
		if i >= len(e.Res) {
			break
		}
		res := e.Res[i]
		if res.Panic != "" {
			c.Violation("op-panic:"+op.K+"@"+res.Panic, wit(res))
			return
		}
		switch op.K {
		case "attr":
			if res.OK() {
				model[op.Path].Attrs[op.Name] = *op.Data
			}
		case "delattr":
			if res.OK() {
				delete(model[op.Path].Attrs, op.Name)
			}
		case "resize":
			if m := model[op.Path]; m != nil && m.DS != nil && res.OK() {
				m.DS.Op.Dims, m.Dims, m.Stale = op.Dims, op.Dims, true
				c.Count("resizes", 1)
			}
		case "write":
			if m := model[op.Path]; m != nil && m.DS != nil {
				if res.OK() {
					m.DS.Op.Data, m.Stale = op.Data, false
				} else {
					m.Stale = true
				}
			}
		case "create_ds", "create_cmp", "group":
			if !res.OK() {
				delete(model, op.Path)
			}
		case "hardlink":
			if res.OK() {
				model[op.Path] = &c05Obj{Kind: model[op.Target].Kind, Target: op.Target}
			}
		case "densegroup":
			if res.OK() {
				model[op.Path] = &c05Obj{Kind: "group", Attrs: attrModel{}}
				for ln, t := range op.Links {
					model[op.Path+"/"+ln] = &c05Obj{Kind: "dataset", Target: t}
				}
			}
		}
	}

	f, err := os.Open(path)
	if err != nil {
		c.Violation("file-missing", err.Error())
		return
	}
	defer f.Close()
	st, _ := f.Stat()

	features := map[string]bool{}
	for _, op := range s.Ops {
		features[op.K] = true
		if op.Chunk != nil {
			features["chunked"] = true
		}
		if op.Gzip != 0 || op.Shuffle || op.Fletcher {
			features["filtered"] = true
		}
	}
	var fl []string
	for k := range features {
		fl = append(fl, k)
	}
	sort.Strings(fl)
	c.Case(fmt.Sprintf("sb%d|%s|ds%d|g%d|ops%d", sbv, strings.Join(fl, ","), nds, ngroups, len(s.Ops)/5), true)
	c.Count("files", 1)

	// ---- (1) strict
	strict, err := specdec.Decode(f, st.Size(), specdec.Options{})
	if err != nil {
		c.Violation("strict:undecodable", wit(err.Error()))
		return
	}
	// the library's fractal-heap ids do not follow the specification (listed finding
	// decode:heap-id / fheap-offset-in-header): a dense link object that cannot be decoded at
	// the place such an id names is that deviation again, not another one
	heapIDsOff := false
	for _, is := range strict.Issues {
		if is.Key == "decode:heap-id" || strings.HasPrefix(is.Key, "fheap-offset-in-header") {
			heapIDsOff = true
		}
	}
	strictKeys := map[string]specdec.Issue{}
	for _, is := range strict.Issues {
		k := c05NormIssue(is.Key)
		if heapIDsOff && (is.Key == "decode:msg:link" && strings.Contains(is.Detail, "dense link") || c05DenseGarbage(is)) {
			k = "decode:heap-id"
		}
		if _, ok := strictKeys[k]; !ok {
			strictKeys[k] = is
		}
	}
	c.Count("structures_decoded_strict", int64(len(strict.Extents)))
	c.Count("fields_decoded_strict", int64(len(strict.Fields)))

	// ---- (2) tolerant + extents
	tol, err := specdec.Decode(f, st.Size(), specdec.Options{Tolerate: specdec.AllTolerances()})
	if err != nil {
		c.Violation("tolerant:undecodable", wit(err.Error()))
		return
	}
	tol.TouchGlobalHeaps()
	allKeys := map[string]specdec.Issue{}
	for k, v := range strictKeys {
		allKeys[k] = v
	}
	for _, is := range append(append([]specdec.Issue(nil), tol.Issues...), tol.CheckExtents()...) {
		k := c05NormIssue(is.Key)
		if heapIDsOff && (is.Key == "decode:msg:link" && strings.Contains(is.Detail, "dense link") || c05DenseGarbage(is)) {
			k = "decode:heap-id"
		}
		if _, ok := allKeys[k]; !ok {
			allKeys[k] = is
		}
	}
	c.Count("structures_decoded", int64(len(tol.Extents)))
	c.Count("fields_decoded", int64(len(tol.Fields)))
	keys := make([]string, 0, len(allKeys))
	for k := range allKeys {
		keys = append(keys, k)
	}
	sort.Strings(keys)
	for _, k := range keys {
		is := allKeys[k]
		c.Violation("spec:"+k, wit(map[string]any{"issue": is.Key, "at": is.Addr, "detail": is.Detail}))
	}

	// ---- (3) the decoder recovers the tree and the values
	got := map[string]*specdec.Object{}
	tol.Walk(func(p string, o *specdec.Object, l *specdec.Link) {
		if o != nil {
			if _, dup := got[p]; !dup {
				got[p] = o
			}
		}
	})
	paths := make([]string, 0, len(model))
	for p := range model {
		paths = append(paths, p)
	}
	sort.Strings(paths)
	for _, p := range paths {
		m := model[p]
		o := got[p]
		if o == nil {
			// members of dense groups are covered by the decode issue on their link objects
			if strings.HasPrefix(p, "/dense/") {
				c.Count("dense_group_members_not_decodable", 1)
				continue
			}
			c.Violation("decode-mismatch:missing:"+m.Kind, wit(map[string]any{"path": p}))
			continue
		}
		if o.Kind != m.Kind {
			c.Violation("decode-mismatch:kind:"+m.Kind+"-as-"+o.Kind, wit(map[string]any{"path": p}))
			continue
		}
		src := m
		if m.Target != "" {
			src = model[m.Target]
			if src == nil {
				continue
			}
			if t := got[m.Target]; t != nil && t.Addr != o.Addr {
				c.Violation("decode-mismatch:hardlink-target", wit(map[string]any{"path": p, "target": m.Target}))
			}
		}
		if src.Kind == "dataset" && src.DS != nil {
			d := src.DS
			fam := typeFamily(*d)
			// a dataset may have been resized by nothing in this generator: dims as created
			if !eqU64s(o.Space.Dims, d.Op.Dims) {
				c.Violation("decode-mismatch:shape:"+fam, wit(map[string]any{"path": p, "decoded": o.Space.Dims, "written": d.Op.Dims}))
				continue
			}
			if d.Family == "compound" {
				// the member list an independent reader recovers from the datatype message
				c.Count("compound_datatypes_compared", 1)
				var got []string
				if o.Type != nil {
					for _, m := range o.Type.Members {
						got = append(got, fmt.Sprintf("%s@%d", m.Name, m.Offset))
					}
				}
				var want []string
				off := uint32(0)
				for _, f := range d.Op.Fields {
					want = append(want, fmt.Sprintf("%s@%d", f.Name, off))
					off += hx.FieldSize(f.DT)
				}
				if strings.Join(got, ",") != strings.Join(want, ",") {
					c.Violation("decode-mismatch:compound-members", wit(map[string]any{"path": p, "decoded_members": got, "written_members": want, "datatype_bytes": fmt.Sprintf("%x", headB(o.Type.Raw, 48))}))
				}
			}
			if src.Stale {
				c.Count("datasets_resized_not_rewritten", 1)
				continue
			}
			raw, rerr := tol.ReadData(o)
			if rerr != nil {
				var stored, computed uint32
				if i := strings.Index(rerr.Error(), "fletcher32 mismatch: stored "); i >= 0 {
					if _, e2 := fmt.Sscanf(rerr.Error()[i:], "fletcher32 mismatch: stored 0x%x computed 0x%x", &stored, &computed); e2 == nil {
						eq := func(a, b uint32) bool { return a%65535 == b%65535 }
						rev := (computed&0x00ff00ff)<<8 | (computed&0xff00ff00)>>8 // the byte-swapped form HDF5 also accepts
						if (eq(stored&0xffff, computed&0xffff) && eq(stored>>16, computed>>16)) || (eq(stored&0xffff, rev&0xffff) && eq(stored>>16, rev>>16)) {
							// same residues, different representation of zero (0x0000 vs 0xFFFF)
							c.Violation("spec:fletcher32-zero-residue-as-0000", wit(map[string]any{"path": p, "err": rerr.Error()}))
							continue
						}
						c.Violation("spec:fletcher32-checksum-mismatch", wit(map[string]any{"path": p, "err": rerr.Error()}))
						continue
					}
				}
				c.Violation("decode-mismatch:data-unreadable:"+d.Layout, wit(map[string]any{"path": p, "err": rerr.Error()}))
				continue
			}
			if want := c05ExpectedRaw(d); !bytes.Equal(raw, want) {
				c.Violation("decode-mismatch:data:"+d.Layout+":"+fam, wit(map[string]any{"path": p, "decoded_len": len(raw), "written_len": len(want), "first_diff": firstDiff(raw, want)}))
			}
			c.Count("datasets_compared_bytewise", 1)
		}
		if want, isV := vlenWant[p]; isV {
			c.Count("vlen_datasets_compared", 1)
			if o.Type == nil || o.Type.Class != 9 {
				c.Violation("decode-mismatch:vlen-class", wit(map[string]any{"path": p}))
			} else if raw, rerr := tol.ReadData(o); rerr != nil {
				c.Violation("decode-mismatch:data-unreadable:vlen", wit(map[string]any{"path": p, "err": rerr.Error()}))
			} else if els, verr := tol.VLenElements(raw, o.Type); verr != nil {
				c.Violation("decode-mismatch:vlen-elements-unreadable", wit(map[string]any{"path": p, "err": verr.Error()}))
			} else {
				for i := range want {
					if i >= len(els) || !bytes.Equal(els[i], want[i]) {
						c.Violation("decode-mismatch:vlen-element", wit(map[string]any{"path": p, "index": i, "written_len": len(want[i])}))
						break
					}
				}
			}
		}
		// attributes
		if src.Attrs != nil {
			gotA := map[string]specdec.Attr{}
			for _, a := range o.Attrs {
				if _, dup := gotA[a.Name]; dup {
					c.Violation("decode-mismatch:attr-duplicate", wit(map[string]any{"path": p, "name": a.Name}))
				}
				gotA[a.Name] = a
			}
			names := make([]string, 0, len(src.Attrs))
			for n := range src.Attrs {
				names = append(names, n)
			}
			sort.Strings(names)
			for _, n := range names {
				a, ok := gotA[n]
				if !ok {
					c.Violation("decode-mismatch:attr-missing", wit(map[string]any{"path": p, "name": n, "decoded_attrs": len(gotA), "written_attrs": len(src.Attrs)}))
					continue
				}
				if !bytes.Equal(a.Raw, src.Attrs[n].Bytes()) {
					c.Violation("decode-mismatch:attr-bytes", wit(map[string]any{"path": p, "name": n, "decoded": fmt.Sprintf("%x", headB(a.Raw, 40)), "written": fmt.Sprintf("%x", headB(src.Attrs[n].Bytes(), 40))}))
				}
				c.Count("attributes_compared_bytewise", 1)
			}
			for n := range gotA {
				if _, ok := src.Attrs[n]; !ok {
					c.Violation("decode-mismatch:attr-extra", wit(map[string]any{"path": p, "name": n}))
				}
			}
		}
	}
	for p, o := range got {
		if _, ok := model[p]; !ok && p != "/" {
			// paths below hard-linked groups are aliases
			alias := false
			for mp, m := range model {
				if m.Target != "" && m.Kind == "group" && strings.HasPrefix(p, mp+"/") {
					alias = true
				}
			}
			if strings.HasPrefix(p, "/dense/") {
				c.Count("dense_group_members_decoded_under_other_names", 1)
				continue
			}
			if !alias {
				c.Violation("decode-mismatch:extra-object", wit(map[string]any{"path": p, "kind": o.Kind}))
			}
		}
	}
	if c.Index < 3 {
		c.Sample(map[string]any{"sb": sbv, "ops": ops, "strict_issue_keys": keys})
	}
}

var C05 = &ev.Property{
	ID:    "C05",
	Level: "exploration",
	Rule: "each case builds a file through the public API (superblock 0/2/3; 0-3 nested groups; 1-4 datasets from the C01 generator: all type families, contiguous/chunked/filtered, a third of the chunked numeric ones resizable with an unlimited maximum, a maximum equal to the extent or a little above it and then taken through 1-3 rounds of Resize + full Write; attribute bursts that take some objects into dense storage plus deletes; hard links; sometimes a dense group; one file in eight fills a group or the root group to refusal, with 26 names of three bytes per character against the 256-byte name heap or with 30-40 names of two or three bytes against the 32 symbol table entries) and hands the bytes to an independent spec-based decoder: strict decode (every deviation = issue key), tolerant decode + extent invariants (in file, below the superblock end-of-file address, pairwise disjoint), and comparison of the decoded tree, shapes, datatypes, raw dataset bytes and attribute bytes with what the history wrote. " +
		"distinct = (superblock, feature set, dataset/group counts, ops/5); every file is non-trivial.",
	Assumptions: []string{
		"the independent decoder (harness/zzverif/specdec) is the specification's stand-in: written from the format specification, sharing no code with the library, validated on the bundled reference corpus against h5dump output",
		"conformance is decided only for structures the decoder visits (everything reachable from the superblock in these files)",
	},
	Cases: func(tier string) int {
		if tier == "thorough" {
			return 3000
		}
		return 250
	},
	Run:   c05Run,
	Floor: func(tier string) int64 { return 50 },
}
