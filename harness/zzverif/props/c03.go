package props

import (
	"fmt"
	"os"
	"path/filepath"
	"sort"
	"strings"

	"github.com/scigolib/hdf5/internal/zzverif/dump"
	"github.com/scigolib/hdf5/internal/zzverif/ev"
	"github.com/scigolib/hdf5/internal/zzverif/hx"
)

// C03 — group/link namespace after reopen equals the tree that was built.

type c03Node struct {
	Kind   string // group | dataset | soft | ext
	Target string // canonical path of the object a hard link resolves to ("" = itself)
	Dense  bool   // created through CreateDenseGroup (not extendable through the API)
	// NearFull: the object's header is within a few bytes of its 255-byte capacity (a soft link
	// with a very long target): a first hard link to it may be refused for lack of room
	NearFull bool
}

type c03Model struct {
	nodes map[string]*c03Node // by path ("/a/b")
	// capacity bookkeeping per symbol-table group (documented limits: 32 entries, 256-byte name heap)
	entries  map[string]int
	heapUsed map[string]int
}

func newC03Model() *c03Model {
	return &c03Model{nodes: map[string]*c03Node{"/": {Kind: "group"}}, entries: map[string]int{}, heapUsed: map[string]int{"/": 8}}
}

func splitPath(p string) (parent, name string) {
	p = strings.TrimSuffix(p, "/")
	i := strings.LastIndex(p, "/")
	if i <= 0 {
		return "/", p[1:]
	}
	return p[:i], p[i+1:]
}

// canon resolves hard links of groups along the path so that /link/x and /orig/x name the same node.
func (m *c03Model) canon(p string) string {
	if p == "/" {
		return p
	}
	parts := strings.Split(strings.Trim(p, "/"), "/")
	cur := "/"
	for _, part := range parts {
		next := strings.TrimSuffix(cur, "/") + "/" + part
		n := m.nodes[next]
		if n == nil {
			return ""
		}
		if n.Target != "" {
			next = n.Target
		}
		cur = next
	}
	return cur
}

func alignUp8(n int) int { return (n + 7) &^ 7 }

// expectLink decides what must happen when a new name is linked into parent.
// returns "ok" (must succeed), "fail" (must fail) or "either" (at a documented capacity limit).
func (m *c03Model) expectLink(parent, name string) string {
	pn := m.nodes[parent]
	if pn == nil || pn.Kind != "group" || pn.Target != "" || pn.Dense {
		return "fail"
	}
	if name == "" {
		return "fail"
	}
	if _, exists := m.nodes[strings.TrimSuffix(parent, "/")+"/"+name]; exists {
		return "fail"
	}
	if m.entries[parent] >= 32 {
		return "fail"
	}
	if m.heapUsed[parent]+alignUp8(len(name)+1) > 256-8 || m.entries[parent] >= 24 {
		return "either"
	}
	return "ok"
}

func (m *c03Model) link(parent, name string, n *c03Node) {
	m.nodes[strings.TrimSuffix(parent, "/")+"/"+name] = n
	m.entries[parent]++
	m.heapUsed[parent] += alignUp8(len(name) + 1)
}

type c03Gen struct {
	r     *ev.Rand
	m     *c03Model
	names []string
}

func (g *c03Gen) existing(kind string) []string {
	var out []string
	for p, n := range g.m.nodes {
		if (kind == "" || n.Kind == kind) && n.Target == "" && p != "/" {
			out = append(out, p)
		}
	}
	sort.Strings(out)
	return out
}

func (g *c03Gen) groupsForChildren() []string {
	out := []string{"/"}
	for _, p := range g.existing("group") {
		if !g.m.nodes[p].Dense {
			out = append(out, p)
		}
	}
	return out
}

func (g *c03Gen) newPath(valid bool) string {
	r := g.r
	gs := g.groupsForChildren()
	parent := gs[r.Intn(len(gs))]
	if r.Chance(1, 2) { // prefer deep parents
		sort.Slice(gs, func(i, j int) bool { return len(gs[i]) > len(gs[j]) })
		parent = gs[r.Intn(1+len(gs)/3)]
	}
	name := g.names[r.Intn(len(g.names))]
	if !valid {
		switch r.Intn(6) {
		case 4, 5:
			// ".." and "." are ordinary link names in HDF5, not directory navigation: a path
			// through a component of that name names a member that does not exist
			comp := []string{"..", ".", "...", ".. "}[r.Intn(4)]
			if r.Bool() && parent != "/" {
				return strings.TrimSuffix(parent, "/") + "/" + comp + "/" + name
			}
			return "/" + comp + "/" + name
		case 0: // existing name
			if ex := g.existing(""); len(ex) > 0 {
				return ex[r.Intn(len(ex))]
			}
		case 1: // missing parent
			return "/missing_" + name + "/" + name
		case 2:
			return "relative/" + name
		default:
			return ""
		}
	}
	return strings.TrimSuffix(parent, "/") + "/" + name
}

func c03Run(c *ev.Ctx) {
	r := c.R
	sbv := []uint8{0, 2, 3}[r.Intn(3)]
	m := newC03Model()
	g := &c03Gen{r: r, m: m}
	nn := r.Range(3, 40)
	for i := 0; i < nn; i++ {
		switch r.Intn(6) {
		case 0:
			g.names = append(g.names, fmt.Sprintf("%s%d", strings.Repeat("long", r.Range(5, 15)), i))
		case 1:
			g.names = append(g.names, fmt.Sprintf("ü-%d", i))
		case 2:
			// three bytes per character: what a name takes in the group's name heap is its
			// bytes, not its characters
			g.names = append(g.names, strings.Repeat("語", r.Range(4, 14))+fmt.Sprint(i))
		default:
			g.names = append(g.names, fmt.Sprintf("n%d", i))
		}
	}
	// names that are proper prefixes / extensions of one another: a name lookup that compares
	// without the terminator, or by length only, resolves to the wrong sibling (seeded C03.r8)
	if r.Chance(1, 2) {
		for j, k := 0, r.Range(2, 6); j < k; j++ {
			base := g.names[r.Intn(len(g.names))]
			if rs := []rune(base); r.Bool() && len(rs) > 1 {
				g.names = append(g.names, string(rs[:len(rs)-1]))
			} else {
				g.names = append(g.names, base+[]string{"_raw", "0", "語", " "}[r.Intn(4)])
			}
		}
		c.Count("histories_with_prefix_names", 1)
	}
	s := &hx.Script{SB: sbv}
	path := filepath.Join(c.Dir, "c03.h5")
	e := &hx.Exec{Path: path}
	var startErr error
	_, _, p := ev.Guard(func() { startErr = e.Start(s) })
	if p || startErr != nil {
		c.Violation("create-file-failed", fmt.Sprint(startErr))
		return
	}
	nops := r.Range(1, 80)
	fill := r.Chance(1, 5) // capacity-filling history: many siblings in one group
	var log []string
	wit := func(detail any) map[string]any {
		t := log
		if len(t) > 30 {
			t = t[len(t)-30:]
		}
		return map[string]any{"sb": sbv, "detail": detail, "ops_total": len(log), "last_ops": t}
	}
	kinds := map[string]int{}
	ancestorLink, capEdge := false, false
	// one history in sixteen starts with a chain of 40-140 nested groups (a dataset every
	// seventh level, and at the end a hard link from the root to the deepest group): depth is
	// unbounded in the format, and readers recurse along it
	var forced []hx.Op
	if r.Chance(1, 16) && !fill {
		depth := r.Range(40, 140)
		p := ""
		for d := 1; d <= depth; d++ {
			p += fmt.Sprintf("/c%d", d)
			forced = append(forced, hx.Op{K: "group", Path: p})
			if d%7 == 0 {
				v := hx.GenNumeric(r, "[]i32", 2, 2)
				forced = append(forced, hx.Op{K: "create_ds", Path: p + "/leaf", DT: "i32", Dims: []uint64{2}, Data: &v})
			}
		}
		forced = append(forced, hx.Op{K: "hardlink", Path: "/deepest", Target: p})
		nops += len(forced)
		c.Count("histories_with_deep_chain", 1)
	} else if r.Chance(1, 12) {
		// one group (or the root) given 30-40 children with names of two or three bytes: its 32
		// symbol table entries run out long before its name heap does, which the random
		// histories above (at most 40 names over many groups) practically never reach
		parent := ""
		if r.Bool() {
			parent = "/full"
			forced = append(forced, hx.Op{K: "group", Path: parent})
		}
		for j, n := 0, r.Range(30, 40); j < n; j++ {
			p := fmt.Sprintf("%s/s%d", parent, j)
			if j%3 == 2 {
				forced = append(forced, hx.Op{K: "group", Path: p})
			} else {
				v := hx.GenNumeric(r, "[]i32", 2, 2)
				forced = append(forced, hx.Op{K: "create_ds", Path: p, DT: "i32", Dims: []uint64{2}, Data: &v})
			}
		}
		nops += len(forced)
		c.Count("histories_with_group_beyond_32_entries", 1)
	}
	for i := 0; i < nops; i++ {
		valid := !r.Chance(1, 5)
		var op hx.Op
		var node *c03Node
		k := r.Weighted([]int{6, 4, 3, 2, 1, 1})
		if fill {
			k = r.Weighted([]int{6, 6, 1, 0, 0, 0})
		}
		expect := "ok"
		nearFullCreate := false
		if len(forced) > 0 {
			k = 99
		}
		switch k {
		case 99:
			op, forced = forced[0], forced[1:]
			valid = true
			switch op.K {
			case "group":
				node = &c03Node{Kind: "group"}
			case "create_ds":
				node = &c03Node{Kind: "dataset"}
			default:
				node = &c03Node{Kind: "group", Target: op.Target}
			}
		case 0:
			op = hx.Op{K: "group", Path: g.newPath(valid)}
			node = &c03Node{Kind: "group"}
		case 1:
			v := hx.GenNumeric(r, "[]i32", 2, 2)
			op = hx.Op{K: "create_ds", Path: g.newPath(valid), DT: "i32", Dims: []uint64{2}, Data: &v}
			if r.Chance(1, 3) {
				op.Chunk = []uint64{uint64(r.Range(1, 2))} // chunked creation is a code path of its own
			}
			node = &c03Node{Kind: "dataset"}
		case 2:
			ex := g.existing("")
			if len(ex) == 0 {
				continue
			}
			target := ex[r.Intn(len(ex))]
			tn := m.nodes[target]
			if (tn.Kind == "soft" || tn.Kind == "ext") && !tn.NearFull {
				continue
			}
			if tn.NearFull {
				expect = "either" // the reference-count message may not fit: capacity edge
			}
			op = hx.Op{K: "hardlink", Path: g.newPath(valid), Target: target}
			if !valid && r.Bool() {
				op.Path = g.newPath(true)
				op.Target = "/no/such/target"
				expect = "fail"
			}
			node = &c03Node{Kind: tn.Kind, Target: target}
			if op.Path != "" && strings.HasPrefix(op.Path, strings.TrimSuffix(target, "/")+"/") {
				ancestorLink = true
			}
		case 3:
			op = hx.Op{K: "softlink", Path: g.newPath(valid), Target: "/" + g.names[r.Intn(len(g.names))]}
			node = &c03Node{Kind: "soft"}
			if r.Chance(1, 3) && strings.HasPrefix(op.Path, "/") && len(op.Path) > 1 && !strings.HasSuffix(op.Path, "/") {
				// a target path that fills the link object's header almost to capacity (the link
				// message holds the link's own name too): creation itself sits at a capacity edge
				_, last := splitPath(op.Path)
				if n := r.Range(236, 250) - len(last) - 8; n > 1 {
					op.Target = "/" + strings.Repeat("t", n)
					node.NearFull = true
					nearFullCreate = true
				}
			}
		case 4:
			op = hx.Op{K: "extlink", Path: g.newPath(valid), File: "other.h5", Target: "/x"}
			node = &c03Node{Kind: "ext"}
		default:
			// dense group with links to existing objects
			ex := g.existing("")
			links := map[string]string{}
			nl := r.Range(0, 12)
			for j := 0; j < nl && len(ex) > 0; j++ {
				t := ex[r.Intn(len(ex))]
				if tk := m.nodes[t].Kind; tk == "soft" || tk == "ext" {
					continue
				}
				links[fmt.Sprintf("l%d", j)] = t
			}
			op = hx.Op{K: "densegroup", Path: g.newPath(valid), Links: links}
			node = &c03Node{Kind: "group", Dense: true}
		}
		// expectation from the model
		if expect == "ok" {
			switch {
			case op.Path == "" || !strings.HasPrefix(op.Path, "/") || strings.Contains(op.Path, "//"):
				expect = "fail"
			default:
				parent, name := splitPath(op.Path)
				if cp := m.canon(parent); cp != "" && m.nodes[cp].Target == "" && cp == parent {
					expect = m.expectLink(parent, name)
				} else if cp == "" {
					expect = "fail"
				} else {
					expect = "either" // parent reached through a link: the API may or may not support it
				}
			}
			if op.K == "hardlink" && m.nodes[op.Target] == nil {
				expect = "fail"
			}
		}
		if nearFullCreate && expect == "ok" {
			expect = "either"
		}
		if expect == "either" {
			capEdge = true
		}
		res := e.Step(i, &op)
		st := "ok"
		if !res.OK() {
			st = "ERR"
		}
		log = append(log, fmt.Sprintf("%d:%s[%s,expect %s]", i, op.String(), st, expect))
		kinds[op.K]++
		if res.Panic != "" {
			c.Violation("op-panic:"+op.K+"@"+res.Panic, wit(res))
			return
		}
		switch {
		case expect == "fail" && res.OK():
			why := "invalid-path"
			if op.Path != "" && strings.HasPrefix(op.Path, "/") {
				parent, name := splitPath(op.Path)
				switch {
				case m.nodes[op.Path] != nil:
					why = "existing-name"
				case m.canon(parent) == "":
					why = "missing-parent"
				case m.entries[parent] >= 32:
					why = "beyond-32-entries"
				case op.K == "hardlink" && m.nodes[op.Target] == nil:
					why = "missing-target"
				default:
					why = "other:" + name
				}
			}
			c.Violation("accepted-invalid:"+why+":"+op.K, wit(op.String()))
			return
		case expect == "ok" && !res.OK():
			if op.K == "densegroup" && len(op.Links) == 0 {
				c.Count("densegroup_without_links_refused", 1)
				continue
			}
			c.Violation("refused-valid:"+op.K, wit(map[string]any{"op": op.String(), "err": res.Err}))
			return
		}
		if res.OK() {
			parent, name := splitPath(op.Path)
			n := *node
			m.link(parent, name, &n)
			if op.K == "densegroup" {
				for ln, t := range op.Links {
					tn := m.nodes[t]
					m.nodes[op.Path+"/"+ln] = &c03Node{Kind: tn.Kind, Target: t}
				}
			}
			if op.K == "group" {
				m.heapUsed[op.Path] = 8
			}
		}
	}
	fr := e.Finish()
	if fr.Panic != "" {
		c.Violation("close-panic@"+fr.Panic, wit(fr))
		return
	}
	desc := fmt.Sprintf("sb%d|ops%d|nodes%d|kinds%v|anc%v|cap%v|fill%v", sbv, len(log)/10, len(m.nodes)/5, len(kinds), ancestorLink, capEdge, fill)
	c.Case(desc, len(log) >= 2)
	for k, n := range kinds {
		c.Count("op:"+k, int64(n))
	}
	if ancestorLink {
		c.Count("histories_with_link_to_ancestor", 1)
	}

	// ---- read back
	dp := dump.File(path, dump.Options{SkipData: true})
	if c.Replay && os.Getenv("VERIF_SCRIPT_OUT") != "" {
		_ = os.WriteFile(os.Getenv("VERIF_SCRIPT_OUT"), []byte(strings.Join(log, "\n")+"\n--- walked paths\n"+strings.Join(dp.Paths(), "\n")+"\n"), 0o644)
	}
	if !dp.OpenRes.OK() {
		key := "open-fail"
		if dp.OpenRes.Panic != "" {
			key = "open-panic@" + dp.OpenRes.Panic
		}
		c.Violation(key+fmt.Sprintf(":anc%v", ancestorLink), wit(dp.OpenRes))
		return
	}
	// Graph-based comparison (independent of how the reader presents shared or cyclic
	// groups): every walked path must resolve in the model to a node of the same kind; the
	// member names of every walked group must be the model's member names of the group it
	// resolves to; every created object must be reached by at least one walked path.
	childrenOf := func(canonGroup string) []string {
		var out []string
		prefix := strings.TrimSuffix(canonGroup, "/") + "/"
		for p := range m.nodes {
			if p != "/" && strings.HasPrefix(p, prefix) && !strings.Contains(p[len(prefix):], "/") {
				out = append(out, p[len(prefix):])
			}
		}
		sort.Strings(out)
		return out
	}
	covered := map[string]bool{}
	seenPath := map[string]bool{}
	for _, o := range dp.Objects {
		if seenPath[o.Path] {
			c.Violation("duplicate-path", wit(o.Path))
		}
		seenPath[o.Path] = true
		mp := strings.TrimSuffix(o.Path, "/")
		if mp == "" {
			mp = "/"
		}
		// resolve the walked path in the model: last component may itself be a link
		cp := m.canon(mp)
		if cp == "" {
			c.Violation("extra-path", wit(map[string]any{"path": o.Path, "kind": o.Kind}))
			continue
		}
		direct := m.nodes[mp] // nil when an intermediate component was a link
		node := m.nodes[cp]
		kind := node.Kind
		if direct != nil {
			kind = direct.Kind
		}
		covered[cp] = true
		switch {
		case kind == "soft" || kind == "ext":
			// the reader has no link object: the only wrong answer is a different kind of object
			c.Violation("kind:"+kind+"-link-shown-as-"+o.Kind, wit(map[string]any{"path": o.Path}))
			continue
		case o.Kind != kind:
			c.Violation("kind:"+kind+"-shown-as-"+o.Kind, wit(map[string]any{"path": o.Path}))
			continue
		}
		if o.Kind == "group" {
			got := append([]string(nil), o.Children...)
			sort.Strings(got)
			for i := 1; i < len(got); i++ {
				if got[i] == got[i-1] {
					c.Violation("duplicate-name-in-group", wit(map[string]any{"group": o.Path, "name": got[i]}))
				}
			}
			want := childrenOf(cp)
			if strings.Join(got, "\x00") != strings.Join(want, "\x00") {
				switch {
				case node.Dense && len(got) == 0:
					c.Violation("dense-group-members-invisible", wit(map[string]any{"group": o.Path, "members": want}))
				default:
					cls := "plain"
					if direct == nil || direct.Target != "" {
						cls = "via-hardlink"
					}
					c.Violation("members:"+cls, wit(map[string]any{"group": o.Path, "walked_members": got, "model_members": want}))
				}
			}
		}
	}
	// coverage: every created object is reachable in the walk (members of dense groups are
	// covered by the classified finding above)
	var canonPaths []string
	for p, n := range m.nodes {
		if n.Target == "" {
			canonPaths = append(canonPaths, p)
		}
	}
	sort.Strings(canonPaths)
	for _, p := range canonPaths {
		if covered[p] {
			continue
		}
		parent, _ := splitPath(p)
		if !covered[parent] && parent != "/" {
			continue // reported at the highest missing ancestor only
		}
		if pn := m.nodes[parent]; pn != nil && pn.Dense {
			continue
		}
		c.Violation("missing:"+m.nodes[p].Kind, wit(map[string]any{"path": p}))
	}
	// hard links resolve to the same object: same address for datasets
	addr := map[string]uint64{}
	for _, o := range dp.Objects {
		if o.Kind == "dataset" {
			addr[o.Path] = o.Addr
		}
	}
	for p, n := range m.nodes {
		if n.Target != "" && n.Kind == "dataset" {
			if a, ok := addr[p]; ok {
				if b, ok2 := addr[n.Target]; ok2 && a != b {
					c.Violation("hardlink-different-object", wit(map[string]any{"link": p, "target": n.Target}))
				}
			}
		}
	}
	if len(log) <= 8 {
		c.Sample(map[string]any{"sb": sbv, "ops": log})
	}
}

var C03 = &ev.Property{
	ID:    "C03",
	Level: "exploration",
	Rule: "each case is a seeded sequence of 1-80 creations (CreateGroup, small CreateDataset, CreateHardLink to datasets/groups/ancestors, CreateSoftLink, CreateExternalLink, CreateDenseGroup with links) over a pool of 3-40 names (short, long enough to fill the 256-byte name heap, UTF-8 with two and three bytes per character; in every second history 2-6 more names that are a proper prefix or an extension of another name), depth up to 6 (one history in sixteen starts with a chain of 40-140 nested groups), one fifth of the requests deliberately invalid (existing name, missing parent, relative/empty path, a path through a \"..\" or \".\" component that is no member, missing link target), one fifth of the histories filling groups towards their 32-entry capacity, one in twelve giving one group (or the root) 30-40 children with names of two or three bytes so that the 32 entries run out before the name heap; a tree model decides for every request whether it must succeed, must fail, or sits at a documented capacity limit; after Close and reopen the walked tree (paths, kinds, no duplicate names, hard-linked datasets at the same address) is compared with the model expanded through hard links. " +
		"non-trivial: >=2 operations; distinct = (superblock, ops/10, nodes/5, op kinds used, ancestor link, capacity edge, fill).",
	Assumptions: []string{
		"documented capacity limits (32 entries, 256-byte name heap) make a refusal legitimate ('either'); below 24 entries and with heap room a valid creation must succeed",
		"creating under a parent that is reached through a hard link is not judged (either outcome accepted)",
	},
	Cases: func(tier string) int {
		if tier == "thorough" {
			return 4000
		}
		return 300
	},
	Run:             c03Run,
	Floor:           func(tier string) int64 { return 40 },
	HangIsViolation: true,
	CPUPerCase:      30,
}
