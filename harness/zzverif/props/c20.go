package props

import (
	"bytes"
	"encoding/json"
	"fmt"
	"math"
	"os"
	"os/exec"
	"runtime"
	"sort"
	"strings"
	"sync"
	"sync/atomic"

	"github.com/scigolib/hdf5/internal/core"
	"github.com/scigolib/hdf5/internal/zzverif/ev"
)

// C20 — FP8 / bfloat16 conversions: exact on codes, monotone, correctly rounded.
//
// Reference (independent of the library): the value of a code is computed from the
// format parameters (sign, exponent field, mantissa field, bias) in float64, where every
// value of these formats, every float32 and every midpoint between two representable
// values is exact; "nearest" is decided by comparing exact distances.

type lpFormat struct {
	name         string
	ebits, mbits uint
	bias         int
	ncodes       int
	dec          func(code uint32) float32
	enc          func(x float32) uint32
	// finite non-negative representable values, ascending, with their codes (built from the
	// reference, not from the decoder)
	vals  []float64
	codes []uint32
}

func (f *lpFormat) expMax() uint32 { return (1 << f.ebits) - 1 }

// refValue is the exact value of a code per the format definition. class: 0 finite,
// 1 inf, 2 nan. For FP8 the library defines: exponent all-ones & mantissa all-ones = Inf,
// exponent all-ones otherwise = NaN (documented in datatype_fp8.go and pinned by its tests).
// For bfloat16: IEEE (mantissa 0 = Inf, else NaN).
func (f *lpFormat) refValue(code uint32) (v float64, class int) {
	sign := code >> (f.ebits + f.mbits) & 1
	e := code >> f.mbits & f.expMax()
	m := code & (1<<f.mbits - 1)
	s := 1.0
	if sign == 1 {
		s = -1.0
	}
	if e == f.expMax() {
		if f.name == "bfloat16" {
			if m == 0 {
				return s * math.Inf(1), 1
			}
			return math.NaN(), 2
		}
		if m == 1<<f.mbits-1 {
			return s * math.Inf(1), 1
		}
		return math.NaN(), 2
	}
	if e == 0 {
		return s * math.Ldexp(float64(m), 1-f.bias-int(f.mbits)), 0
	}
	return s * math.Ldexp(float64(m|1<<f.mbits), int(e)-f.bias-int(f.mbits)), 0
}

func (f *lpFormat) init() {
	half := f.ncodes / 2
	for c := 0; c < half; c++ {
		v, cl := f.refValue(uint32(c))
		if cl == 0 {
			f.vals = append(f.vals, v)
			f.codes = append(f.codes, uint32(c))
		}
	}
	if !sort.Float64sAreSorted(f.vals) {
		panic("reference values not ascending")
	}
}

var lpFormats = func() []*lpFormat {
	fs := []*lpFormat{
		{name: "E4M3", ebits: 4, mbits: 3, bias: 7, ncodes: 256,
			dec: func(c uint32) float32 { return core.FP8E4M3(c).ToFloat32() },
			enc: func(x float32) uint32 { return uint32(core.Float32ToFP8E4M3(x)) }},
		{name: "E5M2", ebits: 5, mbits: 2, bias: 15, ncodes: 256,
			dec: func(c uint32) float32 { return core.FP8E5M2(c).ToFloat32() },
			enc: func(x float32) uint32 { return uint32(core.Float32ToFP8E5M2(x)) }},
		{name: "bfloat16", ebits: 8, mbits: 7, bias: 127, ncodes: 65536,
			dec: func(c uint32) float32 { return core.BFloat16(c).ToFloat32() },
			enc: func(x float32) uint32 { return uint32(core.Float32ToBFloat16(x)) }},
	}
	for _, f := range fs {
		f.init()
	}
	return fs
}()

// nearest returns the acceptable results for |x| = a (finite, >0): the index range of
// f.vals that are nearest (one value; on an exact tie the one with even mantissa LSB), and
// whether Inf is acceptable (overflow band).
func (f *lpFormat) nearest(a float64) (want float64, infOK, satOK bool, class string) {
	n := len(f.vals)
	maxv := f.vals[n-1]
	if a > maxv {
		// beyond the largest finite value: "saturating/overflowing as documented": the docs
		// say both, so the union is accepted.
		return maxv, true, true, "overflow"
	}
	i := sort.SearchFloat64s(f.vals, a) // first vals[i] >= a
	if f.vals[i] == a {
		return a, false, false, "exact"
	}
	lo, hi := f.vals[i-1], f.vals[i]
	dl, dh := a-lo, hi-a
	class = "normal"
	minNormal := math.Ldexp(1, 1-f.bias)
	if a < minNormal {
		class = "subnormal"
	}
	if a < f.vals[1] {
		class = "underflow"
	}
	switch {
	case dl < dh:
		return lo, false, false, class
	case dh < dl:
		// rounds up: if hi is a power of two the mantissa carries into the exponent
		if fr, _ := math.Frexp(hi); fr == 0.5 && class == "normal" {
			class = "carry"
		}
		return hi, false, false, class
	default:
		if f.codes[i-1]&1 == 0 {
			return lo, false, false, "tie"
		}
		return hi, false, false, "tie"
	}
}

type c20Viol struct {
	Format string `json:"format"`
	Clause string `json:"clause"`
	X      string `json:"x_bits,omitempty"`
	XVal   string `json:"x,omitempty"`
	Code   string `json:"code,omitempty"`
	Got    string `json:"got,omitempty"`
	Want   string `json:"want,omitempty"`
}

func f32s(v float32) string { return fmt.Sprintf("%g(0x%08x)", v, math.Float32bits(v)) }

// checkCodes: clauses 1, 2, 7 over all codes of a format.
func c20Codes(c *ev.Ctx, f *lpFormat) {
	for code := 0; code < f.ncodes; code++ {
		cu := uint32(code)
		got := f.dec(cu)
		want, cl := f.refValue(cu)
		c.Evals(1)
		// clause 2: decode is the exact value
		switch cl {
		case 0:
			if float64(got) != want || math.Signbit(float64(got)) != math.Signbit(want) {
				c.Violation(f.name+":c2-decode-exact", c20Viol{Format: f.name, Clause: "decode(code) is not the exact value", Code: fmt.Sprintf("0x%x", cu), Got: f32s(got), Want: fmt.Sprint(want)})
			}
		case 1:
			if !math.IsInf(float64(got), int(math.Copysign(1, want))) {
				c.Violation(f.name+":c2-decode-inf", c20Viol{Format: f.name, Clause: "decode(inf code) is not that infinity", Code: fmt.Sprintf("0x%x", cu), Got: f32s(got)})
			}
		case 2:
			if !math.IsNaN(float64(got)) {
				c.Violation(f.name+":c2-decode-nan", c20Viol{Format: f.name, Clause: "decode(nan code) is not NaN", Code: fmt.Sprintf("0x%x", cu), Got: f32s(got)})
			}
		}
		// clause 1: code -> float32 -> code
		back := f.enc(got)
		if math.IsNaN(float64(got)) {
			if !math.IsNaN(float64(f.dec(back))) {
				c.Violation(f.name+":c1-roundtrip-nan", c20Viol{Format: f.name, Clause: "NaN code does not stay NaN through float32 and back", Code: fmt.Sprintf("0x%x", cu), Got: fmt.Sprintf("0x%x", back)})
			}
		} else if back != cu {
			cls := "finite"
			if cl == 1 {
				cls = "inf"
			} else if want == 0 {
				cls = "zero"
			} else if cu>>f.mbits&f.expMax() == 0 {
				cls = "subnormal"
			}
			c.Violation(f.name+":c1-roundtrip-"+cls, c20Viol{Format: f.name, Clause: "code -> float32 -> code changed the code", Code: fmt.Sprintf("0x%x", cu), Got: fmt.Sprintf("0x%x", back)})
		}
		// clause 7: byte encoding round-trips (bfloat16 only has a byte codec)
		if f.name == "bfloat16" {
			b := core.BFloat16(cu).Encode()
			if len(b) != 2 || uint32(core.DecodeBFloat16(b)) != cu || b[0] != byte(cu) || b[1] != byte(cu>>8) {
				c.Violation("bfloat16:c7-bytes", c20Viol{Format: f.name, Clause: "byte encoding does not round-trip (little-endian)", Code: fmt.Sprintf("0x%x", cu), Got: fmt.Sprintf("%x", b)})
			}
			// the bytes returned belong to the caller: they are overwritten here, and every code
			// is encoded once more afterwards (below) — a result that shares memory with an
			// earlier one shows the overwrite
			for i := range b {
				b[i] = 0xA5
			}
		}
	}
	if f.name == "bfloat16" {
		for code := 0; code < f.ncodes; code++ {
			cu := uint32(code)
			b := core.BFloat16(cu).Encode()
			if len(b) != 2 || b[0] != byte(cu) || b[1] != byte(cu>>8) {
				c.Violation("bfloat16:c7-bytes-after-caller-wrote-into-earlier-result", c20Viol{Format: f.name, Clause: "byte encoding changes after the caller overwrote a buffer returned earlier", Code: fmt.Sprintf("0x%x", cu), Got: fmt.Sprintf("%x", b)})
			}
			c.Evals(1)
		}
	}
}

// c20One checks clauses 3, 4, 6 for one float32 bit pattern; returns decoded result for
// the monotonicity sweep (clause 5).
func c20One(c *ev.Ctx, f *lpFormat, bits uint32) (res float32) {
	x := math.Float32frombits(bits)
	code := f.enc(x)
	res = f.dec(code)
	x64 := float64(x)
	r64 := float64(res)
	report := func(key, clause, want string) {
		c.Violation(f.name+":"+key, c20Viol{Format: f.name, Clause: clause, X: fmt.Sprintf("0x%08x", bits), XVal: fmt.Sprint(x64), Code: fmt.Sprintf("0x%x", code), Got: f32s(res), Want: want})
	}
	switch {
	case x != x:
		if res == res {
			report("c3-nan-to-number", "a NaN was converted to a number", "NaN")
		}
		return
	case res != res:
		cls := "normal"
		if math.IsInf(x64, 0) {
			cls = "inf"
		} else if math.Abs(x64) > f.vals[len(f.vals)-1] {
			cls = "overflow"
		}
		report("c3-number-to-nan:"+cls, "a number was converted to NaN", "a number")
		return
	}
	if math.Signbit(r64) != math.Signbit(x64) {
		report("c6-sign", "sign lost", "same sign")
		return
	}
	a := math.Abs(x64)
	ra := math.Abs(r64)
	switch {
	case math.IsInf(a, 0):
		if !math.IsInf(ra, 0) {
			report("c4-inf", "infinity not preserved", "Inf")
		}
	case a == 0:
		if ra != 0 {
			report("c4-zero", "zero not preserved", "0")
		}
	default:
		want, infOK, _, class := f.nearest(a)
		if ra == want || (infOK && math.IsInf(ra, 0)) {
			return
		}
		report("c4-nearest:"+class, "result is not the nearest representable value (ties to even)", fmt.Sprint(math.Copysign(want, x64)))
	}
	return
}

// c20Sweep checks bits in [lo,hi) (all same sign, non-NaN region handled by caller) incl. monotonicity.
func c20Sweep(c *ev.Ctx, f *lpFormat, lo, hi uint64) {
	var prev float32
	havePrev := false
	// start one earlier to cover the boundary with the previous block
	if lo&0x7fffffff != 0 {
		p := uint32(lo - 1)
		if v := math.Float32frombits(p); v == v {
			prev = f.dec(f.enc(v))
			havePrev = prev == prev
		}
	}
	for b := lo; b < hi; b++ {
		bits := uint32(b)
		r := c20One(c, f, bits)
		x := math.Float32frombits(bits)
		if x != x || r != r {
			havePrev = false
			continue
		}
		if havePrev {
			// bits ascending: positive values ascend, negative values descend
			if bits&0x80000000 == 0 && r < prev || bits&0x80000000 != 0 && r > prev {
				c.Violation(f.name+":c5-monotone", c20Viol{Format: f.name, Clause: "conversion is not monotone", X: fmt.Sprintf("0x%08x", bits), XVal: fmt.Sprint(x), Got: f32s(r), Want: "ordered w.r.t. previous " + f32s(prev)})
			}
		}
		prev, havePrev = r, true
	}
	c.Evals(int64(hi - lo))
}

const c20Blocks = 4096 // thorough: 2^32 / 2^20

var c20FirstUse sync.Once

// c20Concurrent makes this process's first conversions from many goroutines at once (every
// shard process does this before anything else): a conversion is a pure function of its
// argument, so what it returns may not depend on who else is converting at the time, first
// use included. Every goroutine decodes every code and re-encodes it.
type c20Bad struct {
	Format string `json:"format"`
	Code   uint32 `json:"code"`
	Got    string `json:"decoded"`
	Back   uint32 `json:"re_encoded"`
	Sym    string `json:"symptom"`
}

const c20G = 48

func c20ConcurrentFirstUse(maxCodes int) []c20Bad {
	var mu sync.Mutex
	var bads []c20Bad
	var wg sync.WaitGroup
	var ready, goFlag atomic.Int32
	for g := 0; g < c20G; g++ {
		wg.Add(1)
		go func(g int) {
			defer wg.Done()
			ready.Add(1)
			for goFlag.Load() == 0 {
				runtime.Gosched()
			}
			for _, f := range lpFormats {
				n := f.ncodes
				for k := 0; k < n && k < maxCodes; k++ {
					code := uint32((k*97 + g*31) % n)
					if g%2 == 1 {
						code = uint32(n-1) - code
					}
					want, cl := f.refValue(code)
					got := f.dec(code)
					ok := false
					switch cl {
					case 0, 1:
						ok = float64(got) == want && math.Signbit(float64(got)) == math.Signbit(want)
					default:
						ok = got != got
					}
					if !ok {
						mu.Lock()
						bads = append(bads, c20Bad{f.name, code, f32s(got), 0, "decode"})
						mu.Unlock()
						continue
					}
					if cl == 0 {
						if back := f.enc(got); back != code {
							mu.Lock()
							bads = append(bads, c20Bad{f.name, code, f32s(got), back, "roundtrip"})
							mu.Unlock()
						}
					}
				}
			}
		}(g)
	}
	for ready.Load() < c20G {
		runtime.Gosched()
	}
	goFlag.Store(1)
	wg.Wait()
	return bads
}

// C20FirstUseLines is the body of the "c20first" worker process: one JSON line per wrong result.
func C20FirstUseLines() []string {
	var out []string
	for _, b := range c20ConcurrentFirstUse(2048) {
		j, _ := json.Marshal(b)
		out = append(out, "C20BAD "+string(j))
	}
	return out
}

// c20Concurrent makes this process's first conversions from many goroutines at once (every
// shard process does this before anything else): a conversion is a pure function of its
// argument, so what it returns may not depend on who else is converting at the time, first
// use included. Every goroutine decodes every code and re-encodes it.
func c20Concurrent(c *ev.Ctx) {
	bads := c20ConcurrentFirstUse(1 << 16)
	n := int64(0)
	for _, f := range lpFormats {
		n += int64(f.ncodes)
	}
	c.Count("concurrent_first_use:processes", 1)
	c.Count("concurrent_first_use:conversions", n*c20G)
	c20ReportBads(c, bads)
}

func c20ReportBads(c *ev.Ctx, bads []c20Bad) {
	seen := map[string]bool{}
	for _, b := range bads {
		k := b.Format + ":concurrent-first-use:" + b.Sym
		if seen[k] {
			continue
		}
		seen[k] = true
		c.Violation(k, map[string]any{"first": b, "goroutines": c20G, "wrong_results": len(bads)})
	}
}

// c20Workers (case 0): fresh worker processes, each making its first conversions from 48
// goroutines; when the -race build of the harness exists they run under the race detector,
// which reports unsynchronised shared state of the conversions whatever the timing was.
func c20Workers(c *ev.Ctx) {
	bin, race := ev.RaceBinary(), true
	if bin == "" {
		bin, _ = os.Executable()
		race = false
	}
	n := c.Pick(8, 40)
	type wres struct {
		so, se string
		err    error
	}
	res := make([]wres, n)
	for lo := 0; lo < n; lo += 8 {
		var wg sync.WaitGroup
		for i := lo; i < lo+8 && i < n; i++ {
			wg.Add(1)
			go func(i int) {
				defer wg.Done()
				cmd := exec.Command(bin, "c20first")
				var so, se bytes.Buffer
				cmd.Stdout, cmd.Stderr = &so, &se
				cmd.Env = append(os.Environ(), "GORACE=halt_on_error=0 exitcode=0", fmt.Sprintf("GOMAXPROCS=%d", []int{16, 4, 2, 8}[i%4]))
				err := cmd.Run()
				res[i] = wres{so.String(), se.String(), err}
			}(i)
		}
		wg.Wait()
	}
	for _, w := range res {
		if w.err != nil {
			c.Inconclusive("c20first worker failed: " + w.err.Error() + " " + tailStr(w.se, 300))
			return
		}
		c.Count("concurrent_first_use:worker_processes", 1)
		if race {
			c.Count("concurrent_first_use:worker_processes_under_-race", 1)
		}
		var bads []c20Bad
		for _, l := range strings.Split(w.so, "\n") {
			if strings.HasPrefix(l, "C20BAD ") {
				var b c20Bad
				if json.Unmarshal([]byte(l[7:]), &b) == nil {
					bads = append(bads, b)
				}
			}
		}
		c20ReportBads(c, bads)
		for k, text := range ev.RaceKeys(w.se) {
			c.Count("concurrent_first_use:race_reports", 1)
			c.Violation("race:"+k, map[string]any{"report": tailStr(text, 4000)})
		}
	}
}

func tailStr(s string, n int) string {
	if len(s) > n {
		return s[:n]
	}
	return s
}

func c20Run(c *ev.Ctx) {
	c20FirstUse.Do(func() { c20Concurrent(c) })
	if c.Index == 0 {
		c20Workers(c)
	}
	i := c.Index
	switch {
	case i < 3:
		f := lpFormats[i]
		c20Codes(c, f)
		c.DistinctN(int64(f.ncodes))
		c.Count("codes:"+f.name, int64(f.ncodes))
		// neighbours of every representable value and every midpoint, ±3 ulp (float32)
		n := int64(0)
		for k, v := range f.vals {
			pts := []float64{v}
			if k+1 < len(f.vals) {
				pts = append(pts, (v+f.vals[k+1])/2)
			} else {
				// overflow band: around max finite + half ulp and the next power of two
				ulp := v - f.vals[k-1]
				pts = append(pts, v+ulp/2, v+ulp, v*2, v*4)
			}
			for _, p := range pts {
				if p > math.MaxFloat32 {
					continue
				}
				pb := math.Float32bits(float32(p))
				// ±1..3 ulp, and ± every single low bit 2^k ulp (k = 2..22): a rounding
				// step that loses one bit of the discarded part (a sticky bit) shows exactly there
				ds := []int64{-3, -2, -1, 0, 1, 2, 3}
				for k := uint(2); k <= 22; k++ {
					ds = append(ds, int64(1)<<k, -(int64(1) << k))
				}
				for _, d := range ds {
					b := uint32(int64(pb) + d)
					if b&0x7fffffff > 0x7f800000 {
						continue
					}
					c20One(c, f, b)
					c20One(c, f, b|0x80000000)
					n += 2
				}
			}
		}
		// NaN inputs whose payload lies entirely in the bits the format drops (the kept mantissa
		// bits are zero): every 16-bit pattern of the low bits, both signs, plus 65536 sampled
		// patterns of the full dropped field for the 8-bit formats. NaN must stay NaN.
		keep := uint(23) - f.mbits // dropped low bits
		for lo := uint32(1); lo < 1<<16; lo++ {
			for _, sign := range []uint32{0, 0x80000000} {
				c20One(c, f, sign|0x7f800000|lo)
				n++
				if keep > 16 {
					c20One(c, f, sign|0x7f800000|(uint32(c.R.Intn(1<<(keep-16)))<<16)|lo)
					n++
				}
			}
		}
		c.Evals(n)
		c.Count("neighbours+midpoints:"+f.name, n)
		if f.name == "E4M3" {
			c.Sample(map[string]any{"format": f.name, "finite_values": len(f.vals), "max_finite": f.vals[len(f.vals)-1], "min_subnormal": f.vals[1], "example": "x=0x3f880000 (1.0625, midpoint of 1.0 and 1.125) must round to 1.0 (even)"})
		}
	case i < 3+256:
		// stratified: exponent field e, 4096 mantissa strata, both signs, all formats;
		// NaN payload classes when e == 255
		e := uint32(i - 3)
		for _, f := range lpFormats {
			for s := uint32(0); s < 4096; s++ {
				m := s<<11 | uint32(c.R.Intn(2048))
				bits := e<<23 | m
				c20One(c, f, bits)
				c20One(c, f, bits|0x80000000)
			}
			c.Evals(8192)
		}
		c.DistinctN(8192)
		c.Count("stratified", 8192*3)
	default:
		// exhaustive block (thorough only)
		blk := uint64(i - 3 - 256)
		lo, hi := blk<<20, (blk+1)<<20
		for _, f := range lpFormats {
			c20Sweep(c, f, lo, hi)
		}
		c.DistinctN(int64(hi - lo))
		c.Count("exhaustive_float32_patterns_per_format", int64(hi-lo))
		if blk == 1016 {
			c.Sample(map[string]any{"block": blk, "bits_from": fmt.Sprintf("0x%08x", lo), "bits_to": fmt.Sprintf("0x%08x", hi-1), "formats": 3})
		}
	}
}

var C20 = &ev.Property{
	ID:    "C20",
	Level: "exploration",
	Rule: "every shard process first converts from 48 goroutines at once (its very first conversions: every code of the three formats decoded and re-encoded against the reference), and case 0 starts 8 (thorough 40) fresh worker processes built with -race that do the same, so that shared state behind the conversions is reported by the race detector whatever the timing; case 0-2: every code of E4M3/E5M2/bfloat16 (decode exactness, code->float32->code, byte codec) plus the float32 neighbours (±1..3 ulp and ± every single low bit 2^k ulp, k=2..22, both signs) of every representable value, every midpoint between adjacent representable values and the overflow band, and every NaN whose payload lies only in the low 16 of the dropped mantissa bits; " +
		"cases 3-258: per float32 exponent field 4096 mantissa strata × both signs (incl. all NaN payload strata); thorough adds 4096 blocks of 2^20 consecutive bit patterns = all 2^32 float32 values per format with a monotonicity sweep. " +
		"distinct_nontrivial counts distinct (by construction) codes + float32 bit patterns evaluated per format; every input is non-trivial (each is a conversion with an exact reference answer).",
	Assumptions: []string{
		"reference values computed in float64, which represents every value of the three formats, every float32 and every midpoint exactly",
		"FP8 special codes as documented and pinned by the repository's tests: exponent all-ones & mantissa all-ones = Inf, other all-ones-exponent codes = NaN",
		"beyond the largest finite value both saturation and overflow to Inf are accepted (the documentation states both)",
	},
	Cases: func(tier string) int {
		if tier == "thorough" {
			return 3 + 256 + c20Blocks
		}
		return 3 + 256
	},
	Run:        c20Run,
	Floor:      func(tier string) int64 { return 1000 },
	Exhaustive: func(tier string) bool { return tier == "thorough" },
}
