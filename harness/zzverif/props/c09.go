package props

import (
	"fmt"
	"math"
	"os"
	"path/filepath"
	"strings"

	hdf5 "github.com/scigolib/hdf5"
	"github.com/scigolib/hdf5/internal/zzverif/ev"
	"github.com/scigolib/hdf5/internal/zzverif/hx"
)

// C09 — partial reads agree with the full read.
//
// Oracle: a coordinate enumerator over (start, count, stride, block); the dataset's own
// full Read() is the reference (its correctness is C01/C06's business).

type c09Sel struct {
	Start, Count, Stride, Block []uint64
	Kind                        string
}

func (s c09Sel) String() string {
	return fmt.Sprintf("%s start=%v count=%v stride=%v block=%v", s.Kind, s.Start, s.Count, s.Stride, s.Block)
}

// coordsOf returns the selected coordinates of one dimension in order.
func (s c09Sel) coordsOf(d int) []uint64 {
	stride, block := uint64(1), uint64(1)
	if s.Stride != nil {
		stride = s.Stride[d]
	}
	if s.Block != nil {
		block = s.Block[d]
	}
	var out []uint64
	for c := uint64(0); c < s.Count[d]; c++ {
		for b := uint64(0); b < block; b++ {
			out = append(out, s.Start[d]+c*stride+b)
		}
	}
	return out
}

// expected picks the selection out of the full read (row-major).
func (s c09Sel) expected(full []float64, dims []uint64) []float64 {
	rank := len(dims)
	lists := make([][]uint64, rank)
	total := 1
	for d := 0; d < rank; d++ {
		lists[d] = s.coordsOf(d)
		total *= len(lists[d])
	}
	out := make([]float64, 0, total)
	idx := make([]int, rank)
	for {
		lin := uint64(0)
		for d := 0; d < rank; d++ {
			lin = lin*dims[d] + lists[d][idx[d]]
		}
		out = append(out, full[lin])
		d := rank - 1
		for d >= 0 {
			idx[d]++
			if idx[d] < len(lists[d]) {
				break
			}
			idx[d] = 0
			d--
		}
		if d < 0 {
			break
		}
	}
	return out
}

func c09GenSelections(r *ev.Rand, dims, chunk []uint64, n int) []c09Sel {
	rank := len(dims)
	ones := func() []uint64 {
		o := make([]uint64, rank)
		for i := range o {
			o[i] = 1
		}
		return o
	}
	var out []c09Sel
	full := c09Sel{Kind: "full", Start: make([]uint64, rank), Count: append([]uint64(nil), dims...)}
	out = append(out, full)
	first := c09Sel{Kind: "single", Start: make([]uint64, rank), Count: ones()}
	out = append(out, first)
	last := c09Sel{Kind: "last", Start: make([]uint64, rank), Count: ones()}
	for i := range dims {
		last.Start[i] = dims[i] - 1
	}
	out = append(out, last)
	for ax := 0; ax < rank; ax++ { // half along each axis
		s := c09Sel{Kind: "axis-half", Start: make([]uint64, rank), Count: append([]uint64(nil), dims...)}
		s.Count[ax] = (dims[ax] + 1) / 2
		s.Start[ax] = dims[ax] - s.Count[ax]
		out = append(out, s)
	}
	if d := dims[rank-1]; d >= 20000 {
		// wide last axis: blocks separated by gaps around 8 Ki and 16 Ki elements (64 KiB in
		// 8- and 4-byte elements) and beyond, enumerated
		for _, gap := range []uint64{8189, 8190, 8191, 8192, 8193, 8194, 8200, 16383, 16384, 16385, 16390} {
			for _, blk := range []uint64{1, 2, 3} {
				stride := blk + gap
				cnt := (d-blk)/stride + 1
				if cnt < 2 {
					continue
				}
				if cnt > 3 {
					cnt = 3
				}
				sel := c09Sel{Kind: "wide-gap+stride+block", Start: make([]uint64, rank), Count: ones(), Stride: ones(), Block: ones()}
				sel.Start[rank-1], sel.Count[rank-1], sel.Stride[rank-1], sel.Block[rank-1] = 5, cnt, stride, blk
				if 5+(cnt-1)*stride+blk > d {
					sel.Start[rank-1] = 0
				}
				out = append(out, sel)
			}
		}
	}
	if chunk != nil { // straddle a chunk boundary in every axis
		s := c09Sel{Kind: "chunk-straddle", Start: make([]uint64, rank), Count: make([]uint64, rank)}
		ok := true
		for i := range dims {
			if chunk[i] < dims[i] {
				s.Start[i] = chunk[i] - 1
				s.Count[i] = 2
			} else {
				s.Start[i] = 0
				s.Count[i] = dims[i]
			}
			if s.Start[i]+s.Count[i] > dims[i] {
				ok = false
			}
		}
		if ok {
			out = append(out, s)
		}
	}
	for len(out) < n {
		s := c09Sel{Kind: "random", Start: make([]uint64, rank), Count: make([]uint64, rank)}
		useStride, useBlock := r.Chance(1, 2), r.Chance(1, 3)
		if useStride {
			s.Stride = make([]uint64, rank)
			s.Kind = "random-stride"
		}
		if useBlock {
			s.Block = make([]uint64, rank)
			s.Kind += "+block"
			if s.Stride == nil {
				s.Stride = make([]uint64, rank)
			}
		}
		for i, d := range dims {
			stride, block := uint64(1), uint64(1)
			if useBlock {
				block = uint64(r.Range(1, int(min64(3, int64(d)))))
				s.Block[i] = block
			}
			if s.Stride != nil {
				stride = block + uint64(r.Intn(3))
				if !useStride {
					stride = block
				}
				if stride == 0 {
					stride = 1
				}
				// wide axes: gaps between blocks of thousands of elements (byte distances
				// around and beyond 64 KiB), where a reader may switch strategy
				if d >= 1000 && useStride && r.Bool() {
					stride = block + []uint64{1000, 8189, 8190, 8191, 8192, 8193, 8200, 16384, d / 3}[r.Intn(9)]
					if !strings.Contains(s.Kind, "wide-gap") {
						s.Kind += "+wide-gap"
					}
				}
				s.Stride[i] = stride
			}
			// count so that start + (count-1)*stride + block <= d
			maxCount := uint64(1)
			if d >= block {
				maxCount = (d-block)/stride + 1
			}
			s.Count[i] = uint64(r.Range(1, int(maxCount)))
			span := (s.Count[i]-1)*stride + block
			if span > d {
				s.Count[i], span = 1, block
			}
			s.Start[i] = uint64(r.Intn(int(d-span) + 1))
			// a single block may be wider than the stride (the stride separates blocks, and
			// there is only one): valid in HDF5, and a different code path in the reader
			if useBlock && r.Chance(1, 5) && d >= 2 {
				blk := uint64(r.Range(2, int(d)))
				s.Count[i], s.Block[i] = 1, blk
				s.Stride[i] = uint64(r.Range(1, int(blk)))
				s.Start[i] = uint64(r.Intn(int(d-blk) + 1))
				if !strings.Contains(s.Kind, "single-wide-block") {
					s.Kind += "+single-wide-block"
				}
			}
		}
		out = append(out, s)
	}
	return out
}

func c09Invalid(r *ev.Rand, dims []uint64) []c09Sel {
	rank := len(dims)
	mk := func(kind string) c09Sel {
		s := c09Sel{Kind: kind, Start: make([]uint64, rank), Count: make([]uint64, rank)}
		for i := range s.Count {
			s.Count[i] = 1
		}
		return s
	}
	ax := r.Intn(rank)
	var out []c09Sel
	a := mk("invalid:start>=dim")
	a.Start[ax] = dims[ax]
	out = append(out, a)
	b := mk("invalid:start+count>dim")
	b.Start[ax] = dims[ax] - 1
	b.Count[ax] = 2
	out = append(out, b)
	cc := mk("invalid:overflow")
	cc.Start[ax] = math.MaxUint64 - 1
	cc.Count[ax] = 3
	out = append(out, cc)
	d := mk("invalid:zero-count")
	d.Count[ax] = 0
	out = append(out, d)
	e := mk("invalid:stride-past-end")
	e.Stride = make([]uint64, rank)
	for i := range e.Stride {
		e.Stride[i] = 1
	}
	e.Count[ax] = 2
	e.Stride[ax] = dims[ax]
	out = append(out, e)
	f := mk("invalid:rank")
	f.Start = append(f.Start, 0)
	f.Count = append(f.Count, 1)
	out = append(out, f)
	g := mk("invalid:stride-overflow")
	g.Stride = make([]uint64, rank)
	for i := range g.Stride {
		g.Stride[i] = 1
	}
	g.Count[ax] = 3
	g.Stride[ax] = math.MaxUint64 / 2
	out = append(out, g)
	return out
}

func toF64(v interface{}) ([]float64, bool) {
	switch x := v.(type) {
	case []float64:
		return x, true
	case []float32:
		o := make([]float64, len(x))
		for i, e := range x {
			o[i] = float64(e)
		}
		return o, true
	case []int32:
		o := make([]float64, len(x))
		for i, e := range x {
			o[i] = float64(e)
		}
		return o, true
	case []int64:
		o := make([]float64, len(x))
		for i, e := range x {
			o[i] = float64(e)
		}
		return o, true
	}
	return nil, false
}

func sameF64(a, b []float64) int {
	if len(a) != len(b) {
		return -2
	}
	for i := range a {
		if math.Float64bits(a[i]) != math.Float64bits(b[i]) && !(math.IsNaN(a[i]) && math.IsNaN(b[i])) {
			return i
		}
	}
	return -1
}

// c09CheckDataset runs the selections against one open dataset.
func c09CheckDataset(c *ev.Ctx, r *ev.Rand, ds *hdf5.Dataset, dims, chunk []uint64, layoutTag, origin string, nsel int) {
	full, err := ds.Read()
	if err != nil {
		c.Count("datasets_skipped_full_read_error", 1)
		return
	}
	if uint64(len(full)) != hx.NumElems(dims) || len(full) == 0 {
		c.Count("datasets_skipped_shape", 1)
		return
	}
	rankTag := fmt.Sprintf("%dD", len(dims))
	if len(dims) > 2 {
		rankTag = "ND"
	}
	wit := func(s c09Sel, detail any) map[string]any {
		return map[string]any{"dataset": origin, "dims": dims, "chunk": chunk, "layout": layoutTag, "selection": s.String(), "detail": detail}
	}
	feature := func(s c09Sel) string {
		var f []string
		if s.Stride != nil {
			for _, x := range s.Stride {
				if x > 1 {
					f = append(f, "stride>1")
					break
				}
			}
		}
		if s.Block != nil {
			for _, x := range s.Block {
				if x > 1 {
					f = append(f, "block>1")
					break
				}
			}
		}
		if chunk != nil {
			multi := false
			for i := range dims {
				if chunk[i] > 0 && s.Start[i]/chunk[i] != (s.Start[i]+s.coordsOf(i)[len(s.coordsOf(i))-1]-s.Start[i])/chunk[i] {
					multi = true
				}
			}
			if multi {
				f = append(f, "multi-chunk")
			}
		}
		if len(f) == 0 {
			// partial rows in a contiguous N-D dataset
			partial := false
			for i := 1; i < len(dims); i++ {
				if s.Count[i] != dims[i] {
					partial = true
				}
			}
			if partial {
				f = append(f, "partial-rows")
			} else {
				f = append(f, "plain")
			}
		}
		return strings.Join(f, "+")
	}
	for _, s := range c09GenSelections(r, dims, chunk, nsel) {
		sel := &hdf5.HyperslabSelection{Start: append([]uint64(nil), s.Start...), Count: append([]uint64(nil), s.Count...)}
		if s.Stride != nil {
			sel.Stride = append([]uint64(nil), s.Stride...)
		}
		if s.Block != nil {
			sel.Block = append([]uint64(nil), s.Block...)
		}
		want := s.expected(full, dims)
		var got interface{}
		var gerr error
		site, msg, p := ev.Guard(func() { got, gerr = ds.ReadHyperslab(sel) })
		// the selection is the caller's, including what the library may have filled in for
		// omitted strides and blocks: the caller reuses (overwrites) all of it after the call
		hx.Poison(sel.Start)
		hx.Poison(sel.Count)
		hx.Poison(sel.Stride)
		hx.Poison(sel.Block)
		c.Evals(1)
		key := func(sym string) string {
			return fmt.Sprintf("%s:%s:%s:%s", sym, layoutTag, rankTag, feature(s))
		}
		switch {
		case p:
			c.Violation(key("panic")+"@"+site, wit(s, msg))
			continue
		case gerr != nil:
			c.Violation(key("error"), wit(s, gerr.Error()))
			continue
		}
		g, ok := toF64(got)
		if !ok {
			c.Violation(key("type"), wit(s, fmt.Sprintf("%T", got)))
			continue
		}
		switch d := sameF64(g, want); {
		case d == -2:
			c.Violation(key("length"), wit(s, fmt.Sprintf("got %d elements, selection has %d", len(g), len(want))))
		case d >= 0:
			sym := "values"
			// same multiset but different order?
			if sameMultiset(g, want) {
				sym = "order"
			}
			c.Violation(key(sym), wit(s, fmt.Sprintf("element %d: got %v, full read has %v", d, g[d], want[d])))
		}
		// ReadSlice is the stride-1 / block-1 form
		if s.Stride == nil && s.Block == nil {
			var got2 interface{}
			var err2 error
			site, msg, p := ev.Guard(func() { got2, err2 = ds.ReadSlice(s.Start, s.Count) })
			c.Evals(1)
			switch {
			case p:
				c.Violation(key("panic:ReadSlice")+"@"+site, wit(s, msg))
			case err2 != nil:
				c.Violation(key("error:ReadSlice"), wit(s, err2.Error()))
			default:
				if g2, ok := toF64(got2); !ok || sameF64(g2, want) != -1 {
					c.Violation(key("values:ReadSlice"), wit(s, fmt.Sprintf("differs at %d", sameF64(g2, want))))
				}
			}
		}
	}
	for _, s := range c09Invalid(r, dims) {
		sel := &hdf5.HyperslabSelection{Start: s.Start, Count: s.Count, Stride: s.Stride, Block: s.Block}
		var gerr error
		var got interface{}
		site, msg, p := ev.Guard(func() { got, gerr = ds.ReadHyperslab(sel) })
		c.Evals(1)
		if p {
			c.Violation("panic:"+s.Kind+"@"+site, wit(s, msg))
			continue
		}
		if gerr == nil {
			n := -1
			if g, ok := toF64(got); ok {
				n = len(g)
			}
			c.Violation("accepted:"+s.Kind+":"+layoutTag, wit(s, fmt.Sprintf("returned %d elements and no error", n)))
		}
		if s.Stride == nil && s.Kind != "invalid:zero-count" {
			var err2 error
			site, msg, p := ev.Guard(func() { _, err2 = ds.ReadSlice(s.Start, s.Count) })
			if p {
				c.Violation("panic:ReadSlice:"+s.Kind+"@"+site, wit(s, msg))
			} else if err2 == nil {
				c.Violation("accepted:ReadSlice:"+s.Kind+":"+layoutTag, wit(s, "no error"))
			}
		}
	}
	// chunk iterator
	if chunk != nil {
		var it *hdf5.ChunkIterator
		var ierr error
		site, msg, p := ev.Guard(func() { it, ierr = ds.ChunkIterator() })
		if p {
			c.Violation("iterator:panic@"+site, wit(c09Sel{Kind: "iterator"}, msg))
			return
		}
		if ierr != nil {
			c.Violation("iterator:error:"+layoutTag, wit(c09Sel{Kind: "iterator"}, ierr.Error()))
			return
		}
		covered := make([]int, len(full))
		seen := map[string]int{}
		nchunks := 0
		site, msg, p = ev.Guard(func() {
			for it.Next() {
				nchunks++
				cc := it.ChunkCoords()
				seen[fmt.Sprint(cc)]++
				v, err := it.Chunk()
				if err != nil {
					c.Violation("iterator:chunk-error:"+layoutTag, wit(c09Sel{Kind: "iterator"}, map[string]any{"coords": cc, "err": err.Error()}))
					return
				}
				g, ok := toF64(v)
				if !ok {
					return
				}
				// the piece covers [cc*chunk, min((cc+1)*chunk, dims))
				s := c09Sel{Start: make([]uint64, len(dims)), Count: make([]uint64, len(dims))}
				for i := range dims {
					s.Start[i] = cc[i] * chunk[i]
					if s.Start[i] >= dims[i] {
						c.Violation("iterator:chunk-outside:"+layoutTag, wit(s, cc))
						return
					}
					s.Count[i] = chunk[i]
					if s.Start[i]+s.Count[i] > dims[i] {
						s.Count[i] = dims[i] - s.Start[i]
					}
				}
				want := s.expected(full, dims)
				if sameF64(g, want) != -1 {
					c.Violation("iterator:piece-values:"+layoutTag+":"+rankTag, wit(s, fmt.Sprintf("chunk %v: differs at %d", cc, sameF64(g, want))))
					return
				}
				// mark coverage
				s.markCovered(covered, dims)
			}
		})
		if p {
			c.Violation("iterator:panic@"+site, wit(c09Sel{Kind: "iterator"}, msg))
			return
		}
		if err := it.Err(); err != nil {
			c.Violation("iterator:err-on-valid-file:"+layoutTag, wit(c09Sel{Kind: "iterator"}, err.Error()))
		}
		for k, n := range seen {
			if n > 1 {
				c.Violation("iterator:chunk-visited-twice:"+layoutTag, wit(c09Sel{Kind: "iterator"}, k))
				break
			}
		}
		for i, n := range covered {
			if n == 0 && strings.Contains(layoutTag, "missing-chunk") && full[i] == 0 {
				continue // the element of a chunk that is not stored: no piece, fill value in the full read
			}
			if n != 1 {
				c.Violation("iterator:tiling:"+layoutTag+":"+rankTag, wit(c09Sel{Kind: "iterator"}, fmt.Sprintf("element %d covered %d times by %d chunks", i, n, nchunks)))
				break
			}
		}
		c.Count("chunk_iterations", 1)
		c.Count("chunks_visited", int64(nchunks))
	}
}

func (s c09Sel) markCovered(cov []int, dims []uint64) {
	rank := len(dims)
	idx := make([]uint64, rank)
	for {
		lin := uint64(0)
		for d := 0; d < rank; d++ {
			lin = lin*dims[d] + s.Start[d] + idx[d]
		}
		cov[lin]++
		d := rank - 1
		for d >= 0 {
			idx[d]++
			if idx[d] < s.Count[d] {
				break
			}
			idx[d] = 0
			d--
		}
		if d < 0 {
			return
		}
	}
}

func sameMultiset(a, b []float64) bool {
	if len(a) != len(b) {
		return false
	}
	m := map[uint64]int{}
	for _, x := range a {
		m[math.Float64bits(x)]++
	}
	for _, x := range b {
		m[math.Float64bits(x)]--
	}
	for _, n := range m {
		if n != 0 {
			return false
		}
	}
	return true
}

// c09DropLastChunk removes the last entry of the (single) chunk index leaf of a file that holds
// one chunked dataset: version 1 B-tree node, type 1, level 0, "entries used" reduced by one.
// which: 0 the last entry, otherwise an entry in front of it (first, middle, ...), so that the
// chunk that is not stored has stored successors in the index order. An entry of a chunk index
// leaf is a key (chunk size 4, filter mask 4, one 8-byte offset per dimension as this library
// writes them) and a child address.
func c09DropChunk(path string, rank, which int) bool {
	b, err := os.ReadFile(path)
	if err != nil {
		return false
	}
	for i := 0; i+24 <= len(b); i++ {
		if b[i] == 'T' && b[i+1] == 'R' && b[i+2] == 'E' && b[i+3] == 'E' && b[i+4] == 1 && b[i+5] == 0 {
			n := int(b[i+6]) | int(b[i+7])<<8
			if n < 2 {
				return false
			}
			if which != 0 {
				entry := 8 + 8*rank + 8 // the library writes rank offsets per key (listed C05 deviation), not rank+1
				k := []int{0, 0, n / 2, n - 2}[which%4] // entry to remove
				lo := i + 24 + k*entry
				hi := i + 24 + n*entry + (entry - 8) // behind the final key
				if hi > len(b) || lo+entry > hi {
					return false
				}
				copy(b[lo:], b[lo+entry:hi])
			}
			n--
			b[i+6], b[i+7] = byte(n), byte(n>>8)
			return os.WriteFile(path, b, 0o644) == nil
		}
	}
	return false
}

func c09LibCases(tier string) int {
	if tier == "thorough" {
		return 1500
	}
	return 200
}

func c09Run(c *ev.Ctx) {
	r := c.R
	nsel := c.Pick(30, 120)
	if c.Index < c09LibCases(c.Tier) {
		// library-written dataset
		rank := r.Range(1, 4)
		dims := make([]uint64, rank)
		for i := range dims {
			dims[i] = uint64(r.Range(1, 12))
		}
		wide := r.Chance(1, 12)
		if wide { // a wide last axis (tens of thousands of elements)
			rank = r.Range(1, 2)
			dims = make([]uint64, rank)
			dims[rank-1] = uint64(r.Range(20000, 50000))
			if rank == 2 {
				dims[0] = uint64(r.Range(2, 3))
			}
		}
		// a chunk grid with more than sixteen chunks along two or three axes at once
		grid := !wide && r.Chance(1, 10)
		if grid {
			rank = r.Range(2, 3)
			dims = make([]uint64, rank)
			for i := range dims {
				dims[i] = uint64(r.Range(17, []int{0, 0, 60, 22}[rank]))
			}
		}
		kind := []string{"i32", "i64", "u32", "u64", "f32", "f64"}[r.Intn(6)]
		op := hx.Op{K: "create_ds", Path: "/d", DT: kind, Dims: dims}
		layoutTag := "contig"
		if grid || r.Chance(2, 3) {
			op.Chunk = hx.GenChunk(r, dims, r.Intn(5))
			if grid {
				for i := range op.Chunk {
					op.Chunk[i] = uint64(r.Range(1, []int{0, 0, 3, 1}[rank]))
				}
			}
			if wide { // at most a few hundred chunks: the subject is the selection, not the index size
				op.Chunk[rank-1] = uint64(r.Range(int(dims[rank-1])/200+1, int(dims[rank-1])))
			}
			layoutTag = "chunked"
			// deflate allocates a compressor per chunk: datasets with thousands of chunks stay
			// unfiltered (memory of the writer is not this property's subject)
			if r.Chance(1, 3) && hx.NumElems(dims)/hx.NumElems(op.Chunk) <= 2000 {
				op.Gzip = r.Range(1, 9)
				op.Shuffle = r.Bool()
				layoutTag = "chunked+filter"
			}
		}
		v := hx.GenNumeric(r, "[]"+kind, int(hx.NumElems(dims)), 2+r.Intn(2))
		op.Data = &v
		s := &hx.Script{SB: []uint8{0, 2, 3}[r.Intn(3)], Ops: []hx.Op{op}}
		path := filepath.Join(c.Dir, "c09.h5")
		e := hx.Run(path, s)
		if len(e.Res) == 0 || !e.Res[0].OK() {
			c.Count("library_dataset_not_written", 1)
			return
		}
		if op.Chunk != nil && r.Chance(1, 3) {
			// a chunk that was never written (as in files other writers leave partially filled):
			// the last entry of the chunk index leaf is dropped, the reader must treat the chunk
			// as fill values in every kind of read
			if c09DropChunk(path, len(dims), r.Intn(4)) {
				layoutTag += "+missing-chunk"
				c.Count("datasets:library:with_a_chunk_that_is_not_stored", 1)
			}
		}
		f, err := hdf5.Open(path)
		if err != nil {
			c.Count("library_file_not_opened", 1)
			return
		}
		defer f.Close()
		var ds *hdf5.Dataset
		f.Walk(func(p string, o hdf5.Object) {
			if d, ok := o.(*hdf5.Dataset); ok && p == "/d" {
				ds = d
			}
		})
		if ds == nil {
			c.Count("library_dataset_not_found", 1)
			return
		}
		c.Case(fmt.Sprintf("lib|%s|%v|%v|%s", layoutTag, dims, op.Chunk, kind), true)
		c.Count("datasets:library:"+layoutTag, 1)
		c09CheckDataset(c, r, ds, dims, op.Chunk, layoutTag, "library-written "+op.String(), nsel)
		if c.Index < 2 {
			c.Sample(map[string]any{"dataset": op.String(), "selections": nsel, "first_selections": fmt.Sprint(c09GenSelections(ev.NewRand(1, "s", 0), dims, op.Chunk, 6))})
		}
		return
	}
	// corpus dataset(s): one corpus file per case
	corpusInit()
	fi := c.Index - c09LibCases(c.Tier)
	if fi >= len(corpusFiles) {
		return
	}
	path := corpusFiles[fi]
	rel, _ := filepath.Rel(filepath.Join(ev.RepoDir(), "testdata"), path)
	var f *hdf5.File
	var err error
	if _, _, p := ev.Guard(func() { f, err = hdf5.Open(path) }); p || err != nil || f == nil {
		return
	}
	defer f.Close()
	type dsEntry struct {
		p  string
		ds *hdf5.Dataset
	}
	var list []dsEntry
	_, _, _ = ev.Guard(func() {
		f.Walk(func(p string, o hdf5.Object) {
			if d, ok := o.(*hdf5.Dataset); ok && len(list) < 40 {
				list = append(list, dsEntry{p, d})
			}
		})
	})
	for _, en := range list {
		ds := en.ds
		var dims, chunk []uint64
		layoutTag := ""
		ok := false
		_, _, _ = ev.Guard(func() {
			hdr, herr := coreHeader(f, ds)
			if herr != nil {
				return
			}
			dims, chunk, layoutTag, ok = hdr.dims, hdr.chunk, hdr.layout, true
		})
		if !ok || len(dims) == 0 || hx.NumElems(dims) == 0 || hx.NumElems(dims) > 200000 {
			continue
		}
		c.Case("corpus|"+rel+"|"+en.p, true)
		c.Count("datasets:corpus:"+layoutTag, 1)
		c09CheckDataset(c, r, ds, dims, chunk, "corpus-"+layoutTag, rel+":"+en.p, c.Pick(12, 40))
	}
}

var C09 = &ev.Property{
	ID:    "C09",
	Level: "exploration",
	Rule: "datasets: (1) library-written, rank 1-4, extents 1-12 per axis (one in ten of rank 2-3 with 17-60 / 17-22 elements per axis in chunks of 1-3 / 1, i.e. grids of more than sixteen chunks along every axis; one in twelve with a last axis of 20 000-50 000 elements; on those, selections with blocks of 1-3 separated by gaps of 8189..8200 and 16383..16390 elements are enumerated), contiguous / chunked (whole, non-dividing, many chunks, chunk of one, random) / filtered, six numeric kinds, superblock 0/2/3; (2) every dataset of the reference corpus whose full Read succeeds (incl. compact, big-endian, filtered). Per dataset: full extent, first element, last element, half along each axis, a selection straddling a chunk boundary in every axis, and seeded random selections with stride>1 and block>1 (30 quick / 120 thorough for library datasets, 12 / 40 for corpus datasets) are read with ReadHyperslab (and ReadSlice where applicable) and compared element-wise with the coordinates picked from the full Read in row-major selection order; seven kinds of invalid selections (start>=dim, start+count>dim, overflow near 2^64, zero count, stride past the end, rank mismatch, stride overflow) must be rejected; the chunk iterator must visit each stored chunk once and its pieces must tile the full read; in a third of the chunked library datasets one chunk (the last, the first, a middle one) is removed from the index in the file (a chunk that was never written): its elements are fill values in every kind of read and have no piece. " +
		"distinct = dataset descriptor (layout, dims, chunk, type) or corpus dataset path; every dataset with a successful full read is non-trivial.",
	Assumptions: []string{
		"the dataset's own full Read is the reference (its correctness is decided by C01/C06)",
		"valid selections keep block <= stride when there is more than one block (non-overlapping blocks, as in HDF5); a single block may be wider than the stride",
	},
	Cases: func(tier string) int {
		corpusInit()
		return c09LibCases(tier) + len(corpusFiles)
	},
	Run:        c09Run,
	Floor:      func(tier string) int64 { return 150 },
	ASLimit:    6 << 30,
	CPUPerCase: 120,
}
