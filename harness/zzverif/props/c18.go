package props

import (
	"bytes"
	"context"
	"fmt"
	"os"
	"os/exec"
	"path/filepath"
	"runtime"
	"runtime/pprof"
	"strings"
	"sync"
	"sync/atomic"
	"time"

	"github.com/anishathalye/porcupine"
	"github.com/scigolib/hdf5/internal/rebalancing"
	"github.com/scigolib/hdf5/internal/structures"
	"github.com/scigolib/hdf5/internal/zzverif/dump"
	"github.com/scigolib/hdf5/internal/zzverif/ev"
	"github.com/scigolib/hdf5/internal/zzverif/hx"
	"github.com/scigolib/hdf5/internal/zzverif/pools"
)

// C18 — independent handles and background rebalancing are race-free and stop cleanly.
//
// The shards of this property run in the binary built with -race; every report of the race
// detector is a violation keyed by the pair of first library frames of its two stacks (the
// driver parses the shard's stderr). The workloads also carry their own monitors: equality
// of parallel and sequential results, a goroutine census after Stop/Close, and a
// linearizability check (porcupine) of the metrics collector's counters.

// libraryGoroutines returns the goroutines whose stack has a library frame outside the
// harness, as text blocks.
func libraryGoroutines() []string {
	var buf bytes.Buffer
	_ = pprof.Lookup("goroutine").WriteTo(&buf, 2)
	var out []string
	for _, blk := range strings.Split(buf.String(), "\n\n") {
		lib := false
		for _, l := range strings.Split(blk, "\n") {
			if strings.HasPrefix(l, "github.com/scigolib/hdf5") && !strings.Contains(l, "/internal/zzverif/") {
				lib = true
			}
		}
		if lib && !strings.Contains(blk, "libraryGoroutines") {
			out = append(out, blk)
		}
	}
	return out
}

// awaitNoLibraryGoroutines polls (bounded: 400 x 10 ms) until no goroutine with a library
// frame is left besides those of the caller's own stack; it returns what is left.
func awaitNoLibraryGoroutines(ignore string) []string {
	var left []string
	for i := 0; i < 400; i++ {
		left = left[:0]
		for _, g := range libraryGoroutines() {
			if ignore != "" && strings.Contains(g, ignore) {
				continue
			}
			left = append(left, g)
		}
		if len(left) == 0 {
			return nil
		}
		runtime.Gosched()
		time.Sleep(10 * time.Millisecond)
	}
	return left
}

func goroutineLoop(blk string) string {
	for _, name := range []string{"rebalancingLoop", "monitorLoop"} {
		if strings.Contains(blk, name) {
			return name
		}
	}
	return ev.SiteFromStack(blk)
}

func dumpText(path string) string {
	d := dump.File(path, dump.Options{})
	var sb strings.Builder
	fmt.Fprintf(&sb, "open=%v\n", d.OpenRes.OK())
	for _, o := range d.Objects {
		sb.WriteString(o.Logical())
		sb.WriteByte('\n')
	}
	return sb.String()
}

// ---- W1: every goroutine its own writer, then its own reader

func c18W1(c *ev.Ctx) {
	r := c.R
	n := []int{2, 4, 8, 16, 32}[r.Intn(5)]
	if !c.Thorough() && n > 16 {
		n = 16
	}
	scripts := make([]*hx.Script, n)
	want := make([]string, n)
	vkinds := []string{"v[]i32", "v[]i64", "v[]u32", "v[]u64", "v[]f32", "v[]f64", "vstr"}
	for i := range scripts {
		scripts[i] = c04Random(r.Fork(fmt.Sprintf("w1-%d", i)))
		// every writer starts with a variable-length dataset (type handlers and heap writers are
		// shared, process-wide objects; the parallel run comes FIRST so that whatever is set up
		// on first use is set up by several goroutines at once)
		vk := vkinds[(c.Index/6+i)%len(vkinds)]
		v := hx.Val{Kind: vk}
		if vk == "vstr" {
			v.S = []string{"a", "", "ccc"}
		} else {
			v.VU = [][]uint64{{1, 2}, {}, {3}}
		}
		scripts[i].Ops = append([]hx.Op{{K: "create_ds", Path: "/w1_vlen", DT: vk, Dims: []uint64{3}, Data: &v}}, scripts[i].Ops...)
	}
	got := make([]string, n)
	var wg sync.WaitGroup
	start := make(chan struct{})
	for i := 0; i < n; i++ {
		wg.Add(1)
		go func(i int) {
			defer wg.Done()
			<-start
			p := filepath.Join(c.Dir, fmt.Sprintf("par%d.h5", i))
			hx.Run(p, scripts[i])
			got[i] = dumpText(p)
		}(i)
	}
	close(start)
	wg.Wait()
	for i := range scripts {
		p := filepath.Join(c.Dir, fmt.Sprintf("seq%d.h5", i))
		hx.Run(p, scripts[i])
		want[i] = dumpText(p)
	}
	for i := range got {
		if got[i] != want[i] {
			c.Violation("parallel-differs:own-writer-and-reader", map[string]any{"goroutines": n, "index": i, "sequential": trunc40(want[i]), "parallel": trunc40(got[i])})
			break
		}
	}
	c.Count("W1:goroutines", int64(n))
	c.Case(fmt.Sprintf("W1|n%d", n), true)
}

// ---- W2: N readers with their own handles on the same file

func c18W2(c *ev.Ctx) {
	r := c.R
	c07Init()
	var path string
	if r.Bool() {
		path = filepath.Join(c.Dir, "shared.h5")
		sc := c07LibScript(r.Intn(c07LibSeeds))
		if r.Bool() {
			sc.SB = 0 // old-style groups: symbol table nodes and local heaps go through the buffer pool
		}
		hx.Run(path, sc)
	} else {
		path = c07Seeds[r.Intn(len(c07Seeds))]
	}
	want := dumpText(path)
	n := []int{2, 4, 8, 16}[r.Intn(4)]
	got := make([]string, n)
	// half of the cases: some readers also meet damaged files (torn copies of the shared file,
	// cut at lengths spread over its metadata) whose Open or reads fail; error paths run next
	// to healthy reads of other handles and must not disturb them
	var torn []string
	if whole, err := os.ReadFile(path); err == nil && len(whole) > 64 && r.Bool() {
		lim := min(len(whole), 8192)
		var cuts []int
		for j := 0; j < 16; j++ {
			cuts = append(cuts, 48+r.Intn(lim-48))
		}
		// and a cut at every byte of the first two object headers (message by message)
		nh := 0
		for _, e := range c17Extents(whole).ext {
			if e.Kind == "OHDR" && nh < 2 && e.End-e.Start <= 600 {
				nh++
				for l := int(e.Start) + 1; l < int(e.End) && l < len(whole); l++ {
					cuts = append(cuts, l)
				}
			}
		}
		for j, l := range cuts {
			tp := filepath.Join(c.Dir, fmt.Sprintf("torn%d.h5", j))
			if os.WriteFile(tp, whole[:l], 0o644) == nil {
				torn = append(torn, tp)
			}
		}
		c.Count("W2:cases_with_torn_copies_read_alongside", 1)
	}
	wantTorn := make([]string, len(torn))
	for j, tp := range torn {
		wantTorn[j] = dumpText(tp)
	}
	tornDiff := make([]string, n)
	// while the readers run, one more goroutine keeps taking the buffers that wait in the
	// library's pool, overwrites them and puts them back: a buffer that is in the pool belongs
	// to nobody, so whoever still reads one it has released meets this writer (race report) or
	// its pattern (wrong result)
	churnDone := make(chan struct{})
	var churnWG sync.WaitGroup
	churnWG.Add(1)
	go func() {
		defer churnWG.Done()
		for {
			select {
			case <-churnDone:
				return
			default:
				pools.Dirty(false)
				runtime.Gosched()
			}
		}
	}()
	defer func() { close(churnDone); churnWG.Wait() }()
	var wg sync.WaitGroup
	start := make(chan struct{})
	for i := 0; i < n; i++ {
		wg.Add(1)
		go func(i int) {
			defer wg.Done()
			<-start
			for k := 0; k < 6; k++ {
				if len(torn) > 0 && i%2 == 1 {
					per := (len(torn) + 5) / 6 // over the six rounds every reader meets every torn copy
					for j := 0; j < per; j++ {
						idx := (i*7 + k*per + j) % len(torn)
						if t := dumpText(torn[idx]); t != wantTorn[idx] && tornDiff[i] == "" {
							tornDiff[i] = fmt.Sprintf("%s: sequential %q, parallel %q", filepath.Base(torn[idx]), trunc40(wantTorn[idx]), trunc40(t))
						}
					}
				}
				got[i] = dumpText(path)
			}
		}(i)
	}
	close(start)
	wg.Wait()
	for i := range got {
		if got[i] != want {
			c.Violation("parallel-differs:readers-of-one-file", map[string]any{"file": strings.TrimPrefix(path, ev.RepoDir()+"/"), "readers": n, "index": i, "sequential": trunc40(want), "parallel": trunc40(got[i])})
			break
		}
	}
	for i := range tornDiff {
		if tornDiff[i] != "" {
			c.Violation("parallel-differs:readers-of-torn-files", map[string]any{"file": strings.TrimPrefix(path, ev.RepoDir()+"/"), "readers": n, "detail": tornDiff[i]})
			break
		}
	}
	c.Count("W2:readers", int64(n))
	c.Case(fmt.Sprintf("W2|n%d|%s", n, filepath.Base(path)), true)
}

// ---- W3: one foreground goroutine against the background ticker of one B-tree

func c18W3(c *ev.Ctx) {
	r := c.R
	bt := structures.NewWritableBTreeV2(4096)
	lc := structures.DefaultLazyConfig()
	lc.Threshold = []float64{0.01, 0.05, 0.5}[r.Intn(3)]
	lc.BatchSize = []int{1, 4, 100}[r.Intn(3)]
	lc.MaxDelay = []time.Duration{time.Microsecond, time.Millisecond, time.Hour}[r.Intn(3)]
	bt.EnableLazyRebalancing(lc)
	interval := []time.Duration{time.Microsecond, 10 * time.Microsecond, 50 * time.Microsecond, time.Millisecond}[r.Intn(4)]
	var callbacks atomic.Int64
	enable := func() error {
		ic := structures.DefaultIncrementalConfig()
		ic.Interval = interval
		ic.Budget = []time.Duration{time.Microsecond, 100 * time.Microsecond, 10 * time.Millisecond}[r.Intn(3)]
		if r.Bool() {
			ic.ProgressCallback = func(structures.RebalancingProgress) { callbacks.Add(1) }
		}
		return bt.EnableIncrementalRebalancing(ic)
	}
	if err := enable(); err != nil {
		c.Violation("incremental-enable-refused", err.Error())
		return
	}
	nops := c.Pick(2000, 6000)
	live := map[string]bool{}
	next := 0
	starts, stops := 1, 0
	enabled := true
	var id [8]byte
	for i := 0; i < nops; i++ {
		switch r.Weighted([]int{30, 30, 10, 10, 3, 3}) {
		case 0:
			if len(live) >= 300 {
				continue
			}
			name := fmt.Sprintf("k%05d", next)
			next++
			id[0], id[1] = byte(next), byte(next>>8)
			if err := bt.InsertRecord(name, uint64(next)); err == nil {
				live[name] = true
			}
		case 1:
			for name := range live {
				_ = bt.DeleteRecordLazy(name)
				delete(live, name)
				break
			}
		case 2:
			_, _, _ = bt.GetLazyRebalancingStats()
		case 3:
			_, _ = bt.GetIncrementalRebalancingProgress()
		case 4:
			if enabled {
				done := make(chan error, 1)
				go func() { done <- bt.StopIncrementalRebalancing() }()
				select {
				case <-done:
					stops++
					enabled = false
				case <-time.After(20 * time.Second):
					c.Violation("stop-does-not-return:StopIncrementalRebalancing", map[string]any{"after_ops": i, "goroutines": libraryGoroutines()})
					return
				}
			}
		default:
			if !enabled {
				if err := enable(); err == nil {
					enabled = true
					starts++
				}
			}
		}
		if i%64 == 0 {
			runtime.Gosched()
		}
	}
	if enabled {
		_ = bt.StopIncrementalRebalancing()
		stops++
	}
	if left := awaitNoLibraryGoroutines(""); len(left) > 0 {
		c.Violation("goroutine-outlives-stop:"+goroutineLoop(left[0]), map[string]any{"starts": starts, "stops": stops, "left": left})
	}
	c.Count("W3:foreground_ops", int64(nops))
	c.Count("W3:start_stop_pairs", int64(stops))
	c.Count("W3:progress_callbacks", callbacks.Load())
	c.Case(fmt.Sprintf("W3|interval%v|thr%v|batch%d|starts%d", interval, lc.Threshold, lc.BatchSize, starts), true)
}

// ---- W4: SmartRebalancer from many goroutines + porcupine on the metrics counters

type realTree struct {
	mu sync.Mutex
	bt *structures.WritableBTreeV2
}

func (t *realTree) EnableLazyRebalancing(cfg structures.LazyRebalancingConfig) error {
	t.mu.Lock()
	defer t.mu.Unlock()
	t.bt.EnableLazyRebalancing(cfg)
	return nil
}
func (t *realTree) EnableIncrementalRebalancing(cfg structures.IncrementalRebalancingConfig) error {
	t.mu.Lock()
	defer t.mu.Unlock()
	if !t.bt.IsLazyRebalancingEnabled() {
		t.bt.EnableLazyRebalancing(structures.DefaultLazyConfig())
	}
	cfg.Interval = 100 * time.Microsecond
	if t.bt.IsIncrementalRebalancingEnabled() {
		return nil
	}
	return t.bt.EnableIncrementalRebalancing(cfg)
}
func (t *realTree) DisableRebalancing() error {
	t.mu.Lock()
	defer t.mu.Unlock()
	_ = t.bt.StopIncrementalRebalancing()
	_ = t.bt.DisableLazyRebalancing()
	return nil
}
func (t *realTree) StartBackgroundRebalancing(context.Context) error { return nil }
func (t *realTree) StopBackgroundRebalancing() error {
	t.mu.Lock()
	defer t.mu.Unlock()
	return t.bt.StopIncrementalRebalancing()
}
func (t *realTree) GetFileSize() uint64 { return 600 << 20 }

type metricOp struct {
	Record bool
	Seen   uint64
}

func c18W4(c *ev.Ctx) {
	r := c.R
	tree := &realTree{bt: structures.NewWritableBTreeV2(4096)}
	mc := rebalancing.NewMetricsCollector()
	// half of the cases: a detector whose sliding window is a few milliseconds, so that events
	// expire while readers are active (the default window of 5 minutes never elapses in a run)
	window := []time.Duration{0, 0, 2 * time.Millisecond, 10 * time.Millisecond}[r.Intn(4)]
	opts := []rebalancing.SmartRebalancerOption{rebalancing.WithReevalInterval(100 * time.Microsecond)}
	var det *rebalancing.WorkloadDetector
	if window > 0 {
		det = rebalancing.NewWorkloadDetector(rebalancing.WithWindowSize(window), rebalancing.WithMinSampleSize(1), rebalancing.WithCapacity(64))
		opts = append(opts, rebalancing.WithDetector(det))
	}
	sr := rebalancing.NewSmartRebalancer(tree, opts...)
	ctx, cancel := context.WithCancel(context.Background())
	defer cancel()
	if err := sr.Start(ctx); err != nil {
		c.Violation("smart-start-refused", err.Error())
		return
	}
	workers := []int{2, 4, 8}[r.Intn(3)]
	perWorker := c.Pick(300, 1500)
	var wg sync.WaitGroup
	var clock atomic.Int64
	histories := make([][]porcupine.Operation, workers)
	seeds := make([]*ev.Rand, workers)
	for w := range seeds {
		seeds[w] = r.Fork(fmt.Sprintf("w4-%d", w))
	}
	for w := 0; w < workers; w++ {
		wg.Add(1)
		go func(w int) {
			defer wg.Done()
			rr := seeds[w]
			for i := 0; i < perWorker; i++ {
				if det != nil && i%40 == 39 {
					time.Sleep(window + window/2) // let the recorded events leave the window
					// readers only, right after the expiry
					_ = det.ExtractFeatures()
					_, _, _ = det.GetStats()
					_ = det.DetectWorkloadType()
					_, _ = sr.Evaluate()
					continue
				}
				switch rr.Intn(6) {
				case 0:
					_ = sr.RecordOperation(rebalancing.OperationType(rr.Intn(3)))
				case 1:
					_, _ = sr.Evaluate()
				case 2:
					_ = sr.GetStats()
				case 3:
					_ = sr.GetMetrics()
				case 4: // metrics collector: record (counted) ...
					t0 := clock.Add(1)
					mc.RecordOperation(rebalancing.OperationType(0))
					t1 := clock.Add(1)
					histories[w] = append(histories[w], porcupine.Operation{ClientId: w, Input: metricOp{Record: true}, Call: t0, Output: metricOp{}, Return: t1})
				default: // ... and snapshot (observes a count)
					t0 := clock.Add(1)
					s := mc.Snapshot()
					t1 := clock.Add(1)
					histories[w] = append(histories[w], porcupine.Operation{ClientId: w, Input: metricOp{}, Call: t0, Output: metricOp{Seen: uint64(s.TotalOperations)}, Return: t1})
				}
			}
		}(w)
	}
	wg.Wait()
	stopped := make(chan error, 1)
	go func() { stopped <- sr.Stop() }()
	select {
	case <-stopped:
	case <-time.After(20 * time.Second):
		c.Violation("stop-does-not-return:SmartRebalancer.Stop", map[string]any{"goroutines": libraryGoroutines()})
		return
	}
	// restart once more, stop through the context
	if err := sr.Start(ctx); err == nil {
		cancel()
	}
	_ = tree.DisableRebalancing()
	if left := awaitNoLibraryGoroutines(""); len(left) > 0 {
		c.Violation("goroutine-outlives-stop:"+goroutineLoop(left[0]), map[string]any{"left": left})
	}
	// counter model: Record increments, Snapshot returns the current count
	var ops []porcupine.Operation
	for _, h := range histories {
		ops = append(ops, h...)
	}
	model := porcupine.Model{
		Init: func() interface{} { return uint64(0) },
		Step: func(st, in, out interface{}) (bool, interface{}) {
			if in.(metricOp).Record {
				return true, st.(uint64) + 1
			}
			return out.(metricOp).Seen == st.(uint64), st
		},
		Equal: func(a, b interface{}) bool { return a.(uint64) == b.(uint64) },
	}
	res := porcupine.CheckOperationsTimeout(model, ops, 60*time.Second)
	switch res {
	case porcupine.Illegal:
		c.Violation("not-linearizable:MetricsCollector.TotalOperations", map[string]any{"operations": len(ops), "workers": workers})
	case porcupine.Unknown:
		c.Inconclusive(fmt.Sprintf("porcupine timed out on %d operations", len(ops)))
	}
	c.Count("W4:operations_in_linearizability_histories", int64(len(ops)))
	c.Count("W4:workers", int64(workers))
	c.Case(fmt.Sprintf("W4|workers%d|ops%d|window%v", workers, perWorker, window), true)
}

// ---- W5: FileWriter with every rebalancing option, attribute churn, Close, census

func c18W5(c *ev.Ctx) {
	r := c.R
	cs := c02Gen(r.Fork("history"), false, false)
	rb, tag := c19GenRB(r)
	if rb.Incr && rb.IncrEvery == 0 {
		rb.IncrEvery = 50_000
	}
	s := &hx.Script{SB: cs.Script.SB, RB: rb}
	for i, op := range cs.Script.Ops {
		s.Ops = append(s.Ops, op)
		if i%7 == 3 {
			s.Ops = append(s.Ops, hx.Op{K: []string{"rb_incr_on", "rb_lazy_on", "rb_force", "rb_all"}[r.Intn(4)]})
		}
	}
	leaveRunning := r.Bool() // sometimes the background mode is left on: Close has to stop it
	if !leaveRunning {
		s.Ops = append(s.Ops, hx.Op{K: "rb_incr_stop"})
	}
	path := filepath.Join(c.Dir, "w5.h5")
	e := hx.Run(path, s)
	for i, res := range e.Res {
		if res.Panic != "" {
			k := "close"
			if i < len(s.Ops) {
				k = s.Ops[i].K
			}
			c.Violation("panic:"+k+"@"+res.Panic, map[string]any{"config": tag})
			return
		}
	}
	if left := awaitNoLibraryGoroutines(""); len(left) > 0 {
		c.Violation("goroutine-outlives-close:"+goroutineLoop(left[0]), map[string]any{"config": tag, "left_running_before_close": leaveRunning, "left": left})
	}
	c.Count("W5:config:"+tag, 1)
	c.Case(fmt.Sprintf("W5|%s|leave%v|ops%d", tag, leaveRunning, len(s.Ops)/20), true)
}

// ---- W6: Start/Stop of a SmartRebalancer around its first decision

// slowTree is a tree adapter whose size query takes a while (a stat call on a busy file
// system) and which knows whether background rebalancing is switched on.
type slowTree struct {
	realTree
	delay   time.Duration
	slow    atomic.Bool
	bgOn    atomic.Bool
	enables atomic.Int64
}

func (t *slowTree) GetFileSize() uint64 {
	if t.delay > 0 && t.slow.Load() {
		time.Sleep(t.delay)
	}
	return 600 << 20
}
func (t *slowTree) EnableIncrementalRebalancing(cfg structures.IncrementalRebalancingConfig) error {
	err := t.realTree.EnableIncrementalRebalancing(cfg)
	if err == nil {
		t.bgOn.Store(true)
		t.enables.Add(1)
	}
	return err
}
func (t *slowTree) DisableRebalancing() error {
	err := t.realTree.DisableRebalancing()
	t.bgOn.Store(false)
	return err
}
func (t *slowTree) StopBackgroundRebalancing() error {
	err := t.realTree.StopBackgroundRebalancing()
	t.bgOn.Store(false)
	return err
}

// c18W6: many short lives of a SmartRebalancer whose workload makes the very first
// re-evaluation switch background (incremental) rebalancing on; Stop arrives before, during or
// after that re-evaluation. When Stop has returned, background rebalancing must be off (the
// adapter's own flag: no timing involved) and, at the end, no library goroutine may be left.
func c18W6(c *ev.Ctx) {
	r := c.R
	cycles := c.Pick(150, 600)
	interval := []time.Duration{50 * time.Microsecond, 100 * time.Microsecond, 300 * time.Microsecond}[r.Intn(3)]
	delay := []time.Duration{0, 100 * time.Microsecond, 400 * time.Microsecond, time.Millisecond}[r.Intn(4)]
	transitions, leaks, cancelled := 0, 0, 0
	for i := 0; i < cycles; i++ {
		tree := &slowTree{realTree: realTree{bt: structures.NewWritableBTreeV2(4096)}, delay: delay}
		sr := rebalancing.NewSmartRebalancer(tree, rebalancing.WithReevalInterval(interval))
		// a mixed workload on a large file: the first decision is "incremental"
		for k := 0; k < 100; k++ {
			op := rebalancing.OpRead
			switch {
			case k%10 == 0:
				op = rebalancing.OpDelete
			case k%2 == 0:
				op = rebalancing.OpWrite
			}
			_ = sr.RecordOperation(op)
		}
		tree.slow.Store(true)
		ctx, cancel := context.WithCancel(context.Background())
		if err := sr.Start(ctx); err != nil {
			cancel()
			c.Violation("smart-start-refused", err.Error())
			return
		}
		// somewhere between "before the first tick" and "well after it"
		wait := time.Duration(r.Intn(int(2*interval+2*delay)/1000+1)) * time.Microsecond
		if wait > 0 {
			time.Sleep(wait)
		}
		// one life in three ends through the parent context first (the monitor goroutine ends on
		// its own), Stop comes afterwards: it still has to leave background rebalancing off
		viaContext := i%3 == 2
		if viaContext {
			for k := 0; k < 200 && tree.enables.Load() == 0; k++ {
				time.Sleep(interval)
			}
			cancel()
			time.Sleep(2*interval + delay)
			cancelled++
		}
		stopped := make(chan error, 1)
		go func() { stopped <- sr.Stop() }()
		select {
		case <-stopped:
		case <-time.After(20 * time.Second):
			c.Violation("stop-does-not-return:SmartRebalancer.Stop", map[string]any{"goroutines": libraryGoroutines()})
			return
		}
		cancel()
		if tree.enables.Load() > 0 {
			transitions++
		}
		if tree.bgOn.Load() {
			leaks++
			if leaks == 1 {
				c.Violation("background-rebalancing-on-after-Stop:SmartRebalancer", map[string]any{"cycle": i, "parent_context_cancelled_first": viaContext, "reeval_interval": interval.String(), "size_query_takes": delay.String(), "stop_after": wait.String(), "incremental_enabled_times": tree.enables.Load()})
			}
		}
		_ = tree.DisableRebalancing()
	}
	if left := awaitNoLibraryGoroutines(""); len(left) > 0 {
		c.Violation("goroutine-outlives-stop:"+goroutineLoop(left[0]), map[string]any{"left": left})
	}
	c.Count("W6:start_stop_cycles", int64(cycles))
	c.Count("W6:cycles_ended_through_the_parent_context_before_Stop", int64(cancelled))
	c.Count("W6:cycles_in_which_background_rebalancing_was_switched_on", int64(transitions))
	if transitions == 0 {
		c.Inconclusive("W6: no cycle reached the transition to incremental rebalancing")
	}
	c.Case(fmt.Sprintf("W6|interval%v|sizequery%v", interval, delay), transitions > 0)
}

// C18FirstUse is the body of the "c18first" worker process: the very first writes of a process
// are made by eight goroutines at once, each into its own file (variable-length datasets of
// every kind, then a random history). Whatever the library sets up lazily on first use
// (type handlers, registries, pools) is then set up concurrently; the race detector watches.
func C18FirstUse(dir string, seed int64) {
	var wg sync.WaitGroup
	start := make(chan struct{})
	vkinds := []string{"v[]i32", "v[]i64", "v[]u32", "v[]u64", "v[]f32", "v[]f64", "vstr"}
	for g := 0; g < 8; g++ {
		wg.Add(1)
		go func(g int) {
			defer wg.Done()
			r := ev.NewRand(seed, "C18-first-use", g)
			sc := c04Random(r)
			var pre []hx.Op
			for j, vk := range vkinds {
				v := hx.Val{Kind: vk}
				if vk == "vstr" {
					v.S = []string{"a", "", "ccc"}
				} else {
					v.VU = [][]uint64{{1, 2}, {}, {3}}
				}
				pre = append(pre, hx.Op{K: "create_ds", Path: fmt.Sprintf("/first%d", (j+g)%len(vkinds)), DT: vkinds[(j+g)%len(vkinds)], Dims: []uint64{3}, Data: &v})
				pre[len(pre)-1].Data.Kind = vkinds[(j+g)%len(vkinds)]
				if vkinds[(j+g)%len(vkinds)] == "vstr" {
					pre[len(pre)-1].Data = &hx.Val{Kind: "vstr", S: []string{"a", "", "ccc"}}
				} else {
					pre[len(pre)-1].Data = &hx.Val{Kind: vkinds[(j+g)%len(vkinds)], VU: [][]uint64{{1, 2}, {}, {3}}}
				}
			}
			sc.Ops = append(pre, sc.Ops...)
			<-start
			p := filepath.Join(dir, fmt.Sprintf("first%d.h5", g))
			hx.Run(p, sc)
			_ = dumpText(p)
		}(g)
	}
	close(start)
	wg.Wait()
}

// c18FirstUseWorkers (case 0): fresh worker processes built with -race (see C18FirstUse).
func c18FirstUseWorkers(c *ev.Ctx) {
	bin := ev.RaceBinary()
	if bin == "" {
		return
	}
	n := c.Pick(4, 16)
	type wres struct {
		se  string
		err error
	}
	res := make([]wres, n)
	var wg sync.WaitGroup
	for i := 0; i < n; i++ {
		wg.Add(1)
		go func(i int) {
			defer wg.Done()
			d := filepath.Join(c.Dir, fmt.Sprintf("firstuse%d", i))
			_ = os.MkdirAll(d, 0o755)
			cmd := exec.Command(bin, "c18first", d, fmt.Sprint(i))
			var se bytes.Buffer
			cmd.Stderr = &se
			cmd.Env = append(os.Environ(), "GORACE=halt_on_error=0 exitcode=0")
			err := cmd.Run()
			res[i] = wres{se.String(), err}
		}(i)
	}
	wg.Wait()
	for _, w := range res {
		if w.err != nil {
			c.Inconclusive("c18first worker failed: " + w.err.Error())
			return
		}
		c.Count("first_use:worker_processes_under_-race", 1)
		for k, text := range ev.RaceKeys(w.se) {
			c.Count("first_use:race_reports", 1)
			c.Violation("race:"+k, map[string]any{"report": trunc40(text), "where": "first writes of a process made by eight goroutines at once"})
		}
	}
}

func c18Run(c *ev.Ctx) {
	if c.Index == 0 {
		c18FirstUseWorkers(c)
	}
	if c.Index%6 == 5 {
		c18W6(c)
		return
	}
	switch c.Index % 5 {
	case 0:
		c18W1(c)
	case 1:
		c18W2(c)
	case 2:
		c18W3(c)
	case 3:
		c18W4(c)
	default:
		c18W5(c)
	}
}

var C18 = &ev.Property{
	ID:    "C18",
	Level: "exploration",
	Race:  true,
	Rule: "all workloads run in a binary built with the race detector; every detector report is a violation keyed by the first library frames of its two stacks. W1: 2-32 goroutines, each writing its own file from its own history and reading it back (shared state reached: buffer pool, datatype registry), compared with the sequential run; W2: 2-16 readers with their own Open handle on one file (corpus or library-written), six complete dumps each, compared with the sequential dump; in half of the cases every second reader also opens torn copies of the file (16 random cuts in its first 8 KiB and a cut at every byte of its first two object headers), whose failing Opens and reads run next to the healthy ones; W3: one WritableBTreeV2 with lazy + incremental rebalancing (ticker 1 us - 1 ms, budgets 1 us - 10 ms, with and without progress callback), ONE foreground goroutine doing 2000 (thorough 6000) inserts, lazy deletes across the batch threshold, statistics and progress queries, stop and re-enable; every stop must return, afterwards no library goroutine may be left (bounded wait 4 s); W4: SmartRebalancer (re-evaluation every 100 us; in half of the cases with a detector whose sliding window is 2 or 10 ms, with idle phases that let events expire followed by reader-only calls) over a real B-tree, 2-8 goroutines calling RecordOperation/Evaluate/GetStats/GetMetrics plus MetricsCollector.RecordOperation/Snapshot whose history is checked for linearizability against a counter model (porcupine), Stop, restart, cancel through the context, goroutine census; W5: FileWriter created with each rebalancing configuration, an attribute history with runtime toggles, background mode left running or not, Close, goroutine census; case 0 also starts 4 (thorough 16) fresh worker processes built with -race whose very first writes are made by eight goroutines at once (variable-length datasets of every kind, then a random history); W6 (every sixth case): 150 (thorough 600) short lives of a SmartRebalancer whose first re-evaluation switches background rebalancing on, over a tree adapter whose size query takes 0-1 ms, Stop called before, during or after that re-evaluation (one life in three is ended through its parent context first): when Stop has returned the adapter must have been told to stop background rebalancing. " +
		"non-trivial: every case; distinct = (workload, parameters).",
	Assumptions: []string{"the race detector generalises over orderings of the accesses it observed (happens-before), not over paths that were not executed"},
	Cases: func(tier string) int {
		if tier == "thorough" {
			return 1000
		}
		return 100
	},
	Run:        c18Run,
	Floor:      func(tier string) int64 { return 20 },
	CPUPerCase: 300,
	MaxProcs:   8,
}
