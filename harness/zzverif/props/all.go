// Package props holds one workload + oracle per property.
package props

import "github.com/scigolib/hdf5/internal/zzverif/ev"

// All is the registry used by cmd/vcheck.
var All = []*ev.Property{
	C01,
	C02,
	C03,
	C04,
	C05,
	C06,
	C07,
	C08,
	C09,
	C10,
	C11,
	C12,
	C13,
	C14,
	C15,
	C16,
	C17,
	C18,
	C19,
	C20,
}
