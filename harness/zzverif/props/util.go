package props

import (
	"crypto/sha1"
	"encoding/json"
	"fmt"
	"os"
	"sort"

	hdf5 "github.com/scigolib/hdf5"
	"github.com/scigolib/hdf5/internal/core"

	"github.com/scigolib/hdf5/internal/zzverif/ev"
	"github.com/scigolib/hdf5/internal/zzverif/hx"
	"github.com/scigolib/hdf5/internal/zzverif/specdec"
)

// dumpScriptIfReplay writes the complete operation script of a replayed case next to the
// replay file location given in VERIF_SCRIPT_OUT (debugging aid: `vcheck script` re-runs it).
func dumpScriptIfReplay(c *ev.Ctx, s *hx.Script) {
	if !c.Replay {
		return
	}
	out := os.Getenv("VERIF_SCRIPT_OUT")
	if out == "" {
		return
	}
	b, _ := json.MarshalIndent(s, "", " ")
	_ = os.WriteFile(out, b, 0o644)
}

type dsMeta struct {
	dims, chunk []uint64
	layout      string
}

// coreHeader reads shape and layout of a dataset through the library's own header parser.
func coreHeader(f *hdf5.File, ds *hdf5.Dataset) (*dsMeta, error) {
	hdr, err := core.ReadObjectHeader(f.Reader(), ds.Address(), f.Superblock())
	if err != nil {
		return nil, err
	}
	info, err := core.ReadDatasetInfo(hdr, f.Superblock())
	if err != nil {
		return nil, err
	}
	m := &dsMeta{dims: append([]uint64(nil), info.Dataspace.Dimensions...)}
	switch {
	case info.Layout.IsChunked():
		m.layout = "chunked"
		m.chunk = append([]uint64(nil), info.Layout.ChunkSize...)
		if len(m.chunk) > len(m.dims) {
			m.chunk = m.chunk[:len(m.dims)] // reference files carry the element size as an extra dimension
		}
		for _, msg := range hdr.Messages {
			if msg.Type == core.MsgFilterPipeline {
				m.layout = "chunked+filter"
			}
		}
	case info.Layout.IsCompact():
		m.layout = "compact"
	default:
		m.layout = "contig"
	}
	return m, nil
}

// specDigest is the logical content of a file as the independent decoder sees it: per path
// the kind, shape, datatype bytes, a digest of the stored data (variable-length data resolved
// element by element through the global heap) and the attributes' names and raw values.
func specDigest(path string) (map[string]string, error) {
	f, err := os.Open(path)
	if err != nil {
		return nil, err
	}
	defer f.Close()
	st, _ := f.Stat()
	sd, err := specdec.Decode(f, st.Size(), specdec.Options{Tolerate: specdec.AllTolerances()})
	if err != nil {
		return nil, err
	}
	out := map[string]string{}
	sd.Walk(func(p string, o *specdec.Object, l *specdec.Link) {
		if o == nil {
			if l != nil {
				out[p] = "link"
			}
			return
		}
		if _, dup := out[p]; dup {
			return
		}
		h := sha1.New()
		fmt.Fprintf(h, "%s|%v|", o.Kind, o.Space.Dims)
		desc := fmt.Sprintf("%s dims=%v", o.Kind, o.Space.Dims)
		if o.Type != nil {
			h.Write(o.Type.Raw)
		}
		if o.Kind == "dataset" {
			raw, rerr := sd.ReadData(o)
			switch {
			case rerr != nil:
				fmt.Fprintf(h, "data-error")
				desc += " data-error:" + rerr.Error()
			case o.Type != nil && o.Type.Class == 9:
				els, verr := sd.VLenElements(raw, o.Type)
				if verr != nil {
					fmt.Fprintf(h, "vlen-error")
					desc += " vlen-error:" + verr.Error()
				}
				for _, e := range els {
					fmt.Fprintf(h, "%d:", len(e))
					h.Write(e)
				}
				desc += fmt.Sprintf(" vlen-elements=%d", len(els))
			default:
				h.Write(raw)
				desc += fmt.Sprintf(" bytes=%d", len(raw))
			}
		}
		var an []string
		for _, a := range o.Attrs {
			an = append(an, fmt.Sprintf("%s=%x", a.Name, sha1.Sum(a.Raw)))
		}
		sort.Strings(an)
		fmt.Fprintf(h, "|%v", an)
		out[p] = fmt.Sprintf("%s attrs=%d sha=%x", desc, len(an), h.Sum(nil)[:8])
	})
	return out, nil
}
