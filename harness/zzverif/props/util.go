package props

import (
	"encoding/json"
	"os"

	hdf5 "github.com/scigolib/hdf5"
	"github.com/scigolib/hdf5/internal/core"

	"github.com/scigolib/hdf5/internal/zzverif/ev"
	"github.com/scigolib/hdf5/internal/zzverif/hx"
)

// dumpScriptIfReplay writes the complete operation script of a replayed case next to the
// replay file location given in VERIF_SCRIPT_OUT (debugging aid: `vcheck script` re-runs it).
func dumpScriptIfReplay(c *ev.Ctx, s *hx.Script) {
	if !c.Replay {
		return
	}
	out := os.Getenv("VERIF_SCRIPT_OUT")
	if out == "" {
		return
	}
	b, _ := json.MarshalIndent(s, "", " ")
	_ = os.WriteFile(out, b, 0o644)
}

type dsMeta struct {
	dims, chunk []uint64
	layout      string
}

// coreHeader reads shape and layout of a dataset through the library's own header parser.
func coreHeader(f *hdf5.File, ds *hdf5.Dataset) (*dsMeta, error) {
	hdr, err := core.ReadObjectHeader(f.Reader(), ds.Address(), f.Superblock())
	if err != nil {
		return nil, err
	}
	info, err := core.ReadDatasetInfo(hdr, f.Superblock())
	if err != nil {
		return nil, err
	}
	m := &dsMeta{dims: append([]uint64(nil), info.Dataspace.Dimensions...)}
	switch {
	case info.Layout.IsChunked():
		m.layout = "chunked"
		m.chunk = append([]uint64(nil), info.Layout.ChunkSize...)
		if len(m.chunk) > len(m.dims) {
			m.chunk = m.chunk[:len(m.dims)] // reference files carry the element size as an extra dimension
		}
		for _, msg := range hdr.Messages {
			if msg.Type == core.MsgFilterPipeline {
				m.layout = "chunked+filter"
			}
		}
	case info.Layout.IsCompact():
		m.layout = "compact"
	default:
		m.layout = "contig"
	}
	return m, nil
}
