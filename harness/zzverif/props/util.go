package props

import (
	"encoding/json"
	"os"

	"github.com/scigolib/hdf5/internal/zzverif/ev"
	"github.com/scigolib/hdf5/internal/zzverif/hx"
)

// dumpScriptIfReplay writes the complete operation script of a replayed case next to the
// replay file location given in VERIF_SCRIPT_OUT (debugging aid: `vcheck script` re-runs it).
func dumpScriptIfReplay(c *ev.Ctx, s *hx.Script) {
	if !c.Replay {
		return
	}
	out := os.Getenv("VERIF_SCRIPT_OUT")
	if out == "" {
		return
	}
	b, _ := json.MarshalIndent(s, "", " ")
	_ = os.WriteFile(out, b, 0o644)
}
