package props

import (
	"encoding/binary"
	"encoding/json"
	"fmt"
	"os"
	"path/filepath"
	"runtime"
	"sort"
	"strings"
	"sync"
	"syscall"
	"time"

	"github.com/scigolib/hdf5/internal/zzverif/dump"
	"github.com/scigolib/hdf5/internal/zzverif/ev"
	"github.com/scigolib/hdf5/internal/zzverif/hx"
	"github.com/scigolib/hdf5/internal/zzverif/specdec"
)

// C07 — no input file can crash, hang or exhaust the reader.
//
// Every hostile input is written to disk, announced to the driver (Mark) and then opened and
// read completely through the public reader (Open, Walk, Info, Read, ReadStrings,
// ReadCompound, Attributes + ReadValue, ReadSlice, ReadHyperslab, ChunkIterator) inside a
// shard process that runs under an address-space limit and a CPU budget per input.
// Observed events: a recovered panic (with its first library frame), the death of the
// process (fatal error: out of memory / stack overflow / ..., classified by the driver from
// the runtime's report), a CPU budget overrun (goroutine dump -> site), cumulative
// allocation far beyond what the file size explains, and a canary file that no longer
// reads as before (pool poisoning, global state).

const (
	c07MaxSeedSize = 256 << 10
	c07Batch       = 256 // inputs per case at most
)

var (
	c07Once  sync.Once
	c07Seeds []string // corpus files used as seeds
)

func c07Init() {
	c07Once.Do(func() {
		corpusInit()
		for _, f := range corpusFiles {
			if st, err := os.Stat(f); err == nil && st.Size() <= c07MaxSeedSize && st.Size() > 0 {
				c07Seeds = append(c07Seeds, f)
			}
		}
	})
}

const c07LibSeeds = 24

// c07LibScript returns the k-th library-written seed (fixed, independent of VERIF_SEED).
func c07LibScript(k int) *hx.Script {
	r := ev.NewRand(7, "C07-lib-seed", k)
	s := c04Random(r)
	s.SB = []uint8{0, 2, 3}[k%3]
	switch k % 4 {
	case 0: // variable-length data
		v := hx.Val{Kind: "vstr", S: []string{"alpha", "", "gamma-gamma"}}
		s.Ops = append(s.Ops, hx.Op{K: "create_ds", Path: "/vs", DT: "vstr", Dims: []uint64{3}, Data: &v})
		w := hx.Val{Kind: "v[]i32", VU: [][]uint64{{1, 2, 3}, {}, {7}}}
		s.Ops = append(s.Ops, hx.Op{K: "create_ds", Path: "/vi", DT: "v[]i32", Dims: []uint64{3}, Data: &w})
	case 1: // filtered chunks, 2-D
		v := hx.GenNumeric(r, "[]f64", 24, 2)
		s.Ops = append(s.Ops, hx.Op{K: "create_ds", Path: "/filtered", DT: "f64", Dims: []uint64{4, 6}, Chunk: []uint64{3, 4}, Gzip: 6, Shuffle: true, Fletcher: true, Data: &v})
	case 2: // fixed strings + links
		v := hx.Val{Kind: "[]str", S: []string{"one", "two", "three"}}
		s.Ops = append(s.Ops, hx.Op{K: "create_ds", Path: "/strs", DT: "str", StrSize: 8, Dims: []uint64{3}, Data: &v})
		s.Ops = append(s.Ops, hx.Op{K: "softlink", Path: "/soft", Target: "/strs"}, hx.Op{K: "extlink", Path: "/ext", File: "o.h5", Target: "/x"})
	default: // dense attributes and a dense group
		v := hx.GenNumeric(r, "[]i32", 4, 2)
		s.Ops = append(s.Ops, hx.Op{K: "create_ds", Path: "/dense", DT: "i32", Dims: []uint64{4}, Data: &v})
		for i := 0; i < 12; i++ {
			av := hx.ScalarOf(r, "i32")
			s.Ops = append(s.Ops, hx.Op{K: "attr", Path: "/dense", Name: fmt.Sprintf("attr%02d", i), Data: &av})
		}
		if k%8 == 3 {
			s.Ops = append(s.Ops, hx.Op{K: "densegroup", Path: "/dg", Links: map[string]string{"a": "/dense", "b": "/dense"}})
		}
		// k%8 == 7: the dense attribute storage (heap, index leaf, index header) is the last
		// thing in the file, so that a torn tail cuts into it while everything else is intact
	}
	return s
}

// C07FieldLines lists the field map of a file (debugging aid).
func C07FieldLines(path string) []string {
	b, err := os.ReadFile(path)
	if err != nil {
		return []string{err.Error()}
	}
	fs, _ := c07Fields(b)
	var out []string
	for _, f := range fs {
		out = append(out, fmt.Sprintf("%6d w%d %-24s %-12s own=%d ctx=%s", f.Off, f.Width, f.Struct, f.Kind, f.Own, f.Ctx))
	}
	return out
}

// C07LibSeedWrite writes library seed k to path (debugging aid).
func C07LibSeedWrite(k int, path string) string {
	e := hx.Run(path, c07LibScript(k))
	return fmt.Sprintf("close=%+v ops=%d", e.CloseRes, len(e.Res))
}

// seed plan ------------------------------------------------------------------------------

type c07Plan struct {
	seeds       []int // seed indexes (library seeds first) that get the field-corruption enumeration
	perSeed     int   // cases (batches) per seed
	capPerSeed  int   // (field,value) pairs per seed at most, spread evenly over the seed's pair list
	classCover  int   // every field class (structure:kind) gets all its values on this many instances across the seeds
	randCases   int   // cases of random mutations
	randPerCase int
}

func c07PlanFor(tier string) c07Plan {
	c07Init()
	all := len(c07Seeds) + c07LibSeeds
	var p c07Plan
	if tier == "thorough" {
		for k := 0; k < all; k++ {
			p.seeds = append(p.seeds, k)
		}
		p.perSeed, p.capPerSeed, p.randCases, p.randPerCase, p.classCover = 16, 3200, 3200, 64, 30
		return p
	}
	for k := 0; k < all; k++ {
		p.seeds = append(p.seeds, k)
	}
	p.perSeed, p.capPerSeed, p.randCases, p.randPerCase, p.classCover = 1, 40, 160, 64, 3
	return p
}

func c07Cases(tier string) int {
	p := c07PlanFor(tier)
	return len(p.seeds)*p.perSeed + p.randCases + c07SynthFamilies + c07PairCases
}

// ---- pairs of fields -----------------------------------------------------------------------

const c07PairCases = 32

type c07PairInst struct {
	Seed   int
	Kind   string
	Fields []c07Field
}

var (
	c07PairMu    sync.Mutex
	c07PairCache = map[int][]c07PairInst{}
)

// c07PairInstances chooses message instances for the pairwise enumeration: walking the seeds
// in order, the first instance of every message kind (with its object context) in a file is
// taken while fewer than n instances of that kind have been taken. An instance is the run of
// consecutive fields of one header message.
func c07PairInstances(n int) []c07PairInst {
	c07PairMu.Lock()
	defer c07PairMu.Unlock()
	if l, ok := c07PairCache[n]; ok {
		return l
	}
	c07Init()
	var cached []c07PairInst
	c07DiskCache(fmt.Sprintf("pairs%d", n), func() any { return c07PairInstancesCompute(n) }, &cached)
	c07PairCache[n] = cached
	return cached
}

func c07PairInstancesCompute(n int) []c07PairInst {
	var out []c07PairInst
	count := map[string]int{}
	dir, _ := os.MkdirTemp("", "verif-c07-pairs-")
	defer os.RemoveAll(dir)
	for k := 0; k < c07LibSeeds+len(c07Seeds); k++ {
		var b []byte
		if k < c07LibSeeds {
			p := filepath.Join(dir, "seed.h5")
			hx.Run(p, c07LibScript(k))
			b, _ = os.ReadFile(p)
		} else {
			b, _ = os.ReadFile(c07Seeds[k-c07LibSeeds])
		}
		if len(b) == 0 {
			continue
		}
		fields, _ := c07Fields(b)
		inFile := map[string]bool{}
		for i := 0; i < len(fields); {
			j := i
			for j < len(fields) && fields[j].Struct == fields[i].Struct && fields[j].Own == fields[i].Own {
				j++
			}
			if st := fields[i].Struct; strings.HasPrefix(st, "msg:") && j-i >= 2 {
				kind := st + ":" + fields[i].Ctx
				if j-i >= 12 {
					kind += ":large"
				}
				if !inFile[kind] && count[kind] < n {
					inFile[kind] = true
					count[kind]++
					fs := fields[i:j]
					if len(fs) > 48 {
						fs = fs[:48]
					}
					out = append(out, c07PairInst{k, kind, append([]c07Field(nil), fs...)})
				}
			}
			i = j
		}
	}
	return out
}

var (
	c07CoverMu    sync.Mutex
	c07CoverCache = map[int]map[int]map[uint64]bool{}
)

// The class cover and the pair instances are derived from all seed files (seconds of decoding);
// every shard process needs them, and a shard that dies on an input is restarted. They are
// computed once per run and shared through the run's scratch directory.
var c07CacheDir string

func c07DiskCache(name string, compute func() any, into any) {
	if c07CacheDir == "" {
		b, _ := json.Marshal(compute())
		_ = json.Unmarshal(b, into)
		return
	}
	p := filepath.Join(c07CacheDir, name+".json")
	for try := 0; try < 600; try++ {
		if b, err := os.ReadFile(p); err == nil && json.Unmarshal(b, into) == nil {
			return
		}
		// one process computes (it holds the lock file), the others wait for the result
		lk, err := os.OpenFile(p+".lock", os.O_CREATE|os.O_EXCL|os.O_WRONLY, 0o644)
		if err == nil {
			lk.Close()
			b, _ := json.Marshal(compute())
			tmp := fmt.Sprintf("%s.tmp%d", p, os.Getpid())
			_ = os.WriteFile(tmp, b, 0o644)
			_ = os.Rename(tmp, p)
			_ = json.Unmarshal(b, into)
			return
		}
		time.Sleep(100 * time.Millisecond)
	}
	b, _ := json.Marshal(compute())
	_ = json.Unmarshal(b, into)
}

// c07ClassCover decides, over all seeds in order, which fields get the complete value set:
// the first field of a class (structure:kind, e.g. "GCOL:size") in a file is chosen while
// fewer than n instances of that class have been chosen in earlier seeds. The result maps
// seed index -> chosen field offsets.
func c07ClassCover(n int) map[int]map[uint64]bool {
	c07CoverMu.Lock()
	defer c07CoverMu.Unlock()
	if m, ok := c07CoverCache[n]; ok {
		return m
	}
	c07Init()
	var cached map[int]map[uint64]bool
	c07DiskCache(fmt.Sprintf("cover%d", n), func() any { return c07ClassCoverCompute(n) }, &cached)
	c07CoverCache[n] = cached
	return cached
}

func c07ClassCoverCompute(n int) map[int]map[uint64]bool {
	out := map[int]map[uint64]bool{}
	count := map[string]int{}
	dir, _ := os.MkdirTemp("", "verif-c07-cover-")
	defer os.RemoveAll(dir)
	for k := 0; k < c07LibSeeds+len(c07Seeds); k++ {
		var b []byte
		if k < c07LibSeeds {
			p := filepath.Join(dir, "seed.h5")
			hx.Run(p, c07LibScript(k))
			b, _ = os.ReadFile(p)
		} else {
			b, _ = os.ReadFile(c07Seeds[k-c07LibSeeds])
		}
		if len(b) == 0 {
			continue
		}
		fields, _ := c07Fields(b)
		inFile := map[string]bool{}
		for _, f := range fields {
			cls := f.Struct + ":" + f.Kind + fmt.Sprintf(":w%d", f.Width) + ":" + f.Ctx
			// library-written and reference files are covered separately: what the reader does
			// with a structure depends on what refers to it (a heap collection behind a vlen
			// attribute is read, one behind a vlen dataset is not)
			if k < c07LibSeeds {
				cls += ":lib"
			}
			// heap collections are few and whether the reader looks into one depends on the file:
			// every file's first instance is covered
			if inFile[cls] || (count[cls] >= n && f.Struct != "GCOL") {
				continue
			}
			inFile[cls] = true
			count[cls]++
			if out[k] == nil {
				out[k] = map[uint64]bool{}
			}
			out[k][f.Off<<4|uint64(f.Width)] = true
		}
	}
	return out
}

// c07Seed materialises seed k (library seeds first) and returns its bytes and a name.
func c07Seed(c *ev.Ctx, k int) ([]byte, string, error) {
	if k < c07LibSeeds {
		p := filepath.Join(c.Dir, "seed.h5")
		e := hx.Run(p, c07LibScript(k))
		if !e.CloseRes.OK() {
			return nil, "", fmt.Errorf("library seed %d: close: %+v", k, e.CloseRes)
		}
		b, err := os.ReadFile(p)
		return b, fmt.Sprintf("lib-seed-%d", k), err
	}
	f := c07Seeds[k-c07LibSeeds]
	b, err := os.ReadFile(f)
	return b, strings.TrimPrefix(f, ev.RepoDir()+"/"), err
}

type c07Field struct {
	specdec.Field
	Own uint64 // start of the structure the field lives in
	Ctx string // for fields of object header messages: what the object is (layout / type class)
}

func c07Fields(b []byte) ([]c07Field, []specdec.Extent) {
	sf, err := specdec.Decode(bytesReaderAt(b), int64(len(b)), specdec.Options{Tolerate: specdec.AllTolerances()})
	if err != nil || sf == nil {
		return nil, nil
	}
	sf.TouchGlobalHeaps()
	ctxOf := map[string]string{} // object path -> context
	sf.Walk(func(p string, o *specdec.Object, l *specdec.Link) {
		if o != nil && o.Kind == "dataset" {
			_, _ = sf.ReadData(o) // visits chunk indexes
			cx := "dataset"
			if o.Layout != nil {
				cx += ":" + o.Layout.Class
			}
			if o.Type != nil {
				cx += fmt.Sprintf(":class%d", o.Type.Class)
			}
			ctxOf[p] = cx
		} else if o != nil {
			ctxOf[p] = o.Kind
		}
	})
	ext := append([]specdec.Extent(nil), sf.Extents...)
	sort.Slice(ext, func(i, j int) bool { return ext[i].Start < ext[j].Start })
	fs := append([]specdec.Field(nil), sf.Fields...)
	sort.Slice(fs, func(i, j int) bool {
		if fs[i].Off != fs[j].Off {
			return fs[i].Off < fs[j].Off
		}
		return fs[i].Width < fs[j].Width
	})
	var out []c07Field
	for _, f := range fs {
		if f.Width <= 0 || f.Width > 8 || f.Off+uint64(f.Width) > uint64(len(b)) {
			continue
		}
		cf := c07Field{Field: f, Own: f.Off}
		for _, x := range ext {
			if x.Start <= f.Off && f.Off < x.End {
				cf.Own = x.Start
				if strings.HasPrefix(f.Struct, "msg:") || f.Struct == "OHDR" || f.Struct == "OCHK" {
					cf.Ctx = ctxOf[x.Owner]
				}
			}
		}
		out = append(out, cf)
	}
	return out, ext
}

type bytesReaderAt []byte

func (b bytesReaderAt) ReadAt(p []byte, off int64) (int, error) {
	if off < 0 || off >= int64(len(b)) {
		return 0, fmt.Errorf("read at %d outside %d bytes", off, len(b))
	}
	n := copy(p, b[off:])
	if n < len(p) {
		return n, fmt.Errorf("short read at %d", off)
	}
	return n, nil
}

// c07Values lists the boundary values tried for one field.
func c07Values(f c07Field, cur uint64, size uint64, root uint64, ext []specdec.Extent) []uint64 {
	max := ^uint64(0)
	if f.Width < 8 {
		max = 1<<(8*uint(f.Width)) - 1
	}
	vals := []uint64{0, 1, 2, max / 2, max/2 + 1, max - 1, max, cur + 1, cur - 1, cur * 2}
	switch f.Kind {
	case "signature", "reserved", "checksum", "hash":
		vals = []uint64{0, max}
	case "version", "type", "flags", "id":
		vals = []uint64{0, 1, 2, 3, 4, 5, 0x7f, 0x80, max, cur + 1, cur - 1, cur ^ 2, cur ^ 0x10}
	default:
		vals = append(vals, size, size-1, size+1, f.Own, f.Off, root, 3, 7, 8, 0xff, 0x100, 0xffff, 0x10000, 0xffffffff, 1<<32, 1<<31,
			1<<62, 1<<61, 1<<60, 1<<50, 1<<40) // products with small element sizes wrap around 2^64
		if f.Kind == "address" || f.Kind == "offset" {
			// addresses of two other structures (type confusion, cycles through siblings)
			for i, x := range ext {
				if i%7 == 3 && len(vals) < 30 {
					vals = append(vals, x.Start)
				}
			}
		}
	}
	seen := map[uint64]bool{}
	var out []uint64
	for _, v := range vals {
		v &= max
		if !seen[v] {
			seen[v] = true
			out = append(out, v)
		}
	}
	return out
}

func putLE(b []byte, off uint64, width int, v uint64) {
	var tmp [8]byte
	binary.LittleEndian.PutUint64(tmp[:], v)
	copy(b[off:off+uint64(width)], tmp[:width])
}

func c07CPU() float64 {
	var ru syscall.Rusage
	_ = syscall.Getrusage(syscall.RUSAGE_SELF, &ru)
	return float64(ru.Utime.Sec) + float64(ru.Utime.Usec)/1e6 + float64(ru.Stime.Sec) + float64(ru.Stime.Usec)/1e6
}

// c07Probe runs the reader over one input and reports what was observed.
func c07Probe(c *ev.Ctx, path string, size int, base c07Base, what string, desc map[string]any) {
	var m0, m1 runtime.MemStats
	runtime.ReadMemStats(&m0)
	cpu0 := c07CPU()
	dp := dump.File(path, dump.Options{MaxObjects: 400, Extra: true, DropValues: true})
	cpu := c07CPU() - cpu0
	runtime.ReadMemStats(&m1)
	alloc := m1.TotalAlloc - m0.TotalAlloc
	w := func(extra any) map[string]any {
		return map[string]any{"input": desc, "detail": extra}
	}
	report := func(api string, r dump.Res, path string) {
		if r.Panic != "" {
			c.Violation("panic:"+r.Panic, w(map[string]any{"api": api, "object": path, "res": r}))
		}
	}
	report("Open", dp.OpenRes, "")
	opened := dp.OpenRes.OK()
	for _, o := range dp.Objects {
		report("Info", o.InfoRes, o.Path)
		report("Read", o.ReadRes, o.Path)
		report("ReadStrings", o.StringsRes, o.Path)
		report("ReadCompound", o.CompoundRes, o.Path)
		report("Attributes", o.AttrsRes, o.Path)
		report("Selection", o.ExtraRes, o.Path)
		report("Meta", o.MetaRes, o.Path)
		for _, a := range o.Attrs {
			report("ReadValue", a.ValueRes, o.Path+"@"+a.Name)
		}
	}
	// bounded memory: cumulative allocation explained by the file size (values are returned
	// as float64 / strings / maps, so a generous factor; compressed chunks may expand)
	limit := uint64(512<<20) + 4096*uint64(size) + 2*base.alloc
	if alloc > limit {
		site, bytesAt := c07AllocSite(path)
		c.Violation("excess-allocation@"+site, w(map[string]any{"allocated_bytes": alloc, "file_size": size, "limit": limit, "field_or_mutation": what, "bytes_at_site": bytesAt}))
	}
	if cpu > 5+10*base.cpu {
		c.Violation("slow:"+what, w(map[string]any{"cpu_seconds": cpu, "file_size": size}))
	}
	c.Evals(1)
	if opened {
		c.Count("inputs_opened", 1)
	} else {
		c.Count("inputs_refused_at_open", 1)
	}
	if alloc > 64<<20 {
		runtime.GC()
	}
}

// c07Base is what reading the intact seed costs: a file may legitimately describe far more
// data than it stores (fill values, sparse chunks), so the budgets scale with it.
type c07Base struct {
	alloc uint64
	cpu   float64
}

func c07Baseline(c *ev.Ctx, path string, b []byte) c07Base {
	_ = os.WriteFile(path, b, 0o644)
	var m0, m1 runtime.MemStats
	runtime.ReadMemStats(&m0)
	cpu0 := c07CPU()
	_ = dump.File(path, dump.Options{MaxObjects: 400, Extra: true, DropValues: true})
	cpu := c07CPU() - cpu0
	runtime.ReadMemStats(&m1)
	return c07Base{alloc: m1.TotalAlloc - m0.TotalAlloc, cpu: cpu}
}

// c07AllocSite runs the input once more under the allocation profiler and returns the first
// library frame of the stack that allocated most.
func c07AllocSite(path string) (string, int64) {
	snapshot := func() map[[32]uintptr]int64 {
		runtime.GC()
		runtime.GC()
		n, _ := runtime.MemProfile(nil, true)
		recs := make([]runtime.MemProfileRecord, n+64)
		n, ok := runtime.MemProfile(recs, true)
		out := map[[32]uintptr]int64{}
		if ok {
			for _, r := range recs[:n] {
				out[r.Stack0] += r.AllocBytes
			}
		}
		return out
	}
	old := runtime.MemProfileRate
	runtime.MemProfileRate = 256 << 10
	defer func() { runtime.MemProfileRate = old }()
	before := snapshot()
	_ = dump.File(path, dump.Options{MaxObjects: 400, Extra: true, DropValues: true})
	after := snapshot()
	var best [32]uintptr
	var bestBytes int64
	for k, v := range after {
		if d := v - before[k]; d > bestBytes {
			best, bestBytes = k, d
		}
	}
	if bestBytes == 0 {
		return "unknown", 0
	}
	var pcs []uintptr
	for _, pc := range best {
		if pc == 0 {
			break
		}
		pcs = append(pcs, pc)
	}
	frames := runtime.CallersFrames(pcs)
	var sb strings.Builder
	for {
		f, more := frames.Next()
		sb.WriteString(f.Function + "(...)\n")
		if !more {
			break
		}
	}
	return ev.SiteFromStack(sb.String()), bestBytes
}

// canary -----------------------------------------------------------------------------------

func c07Canary(c *ev.Ctx) (path, want string) {
	path = filepath.Join(c.Dir, "canary.h5")
	v := hx.Val{Kind: "[]i32", I: []int64{11, 22, 33, 44}}
	av := hx.Val{Kind: "str", S: []string{"canary"}}
	s := &hx.Script{SB: 2, Ops: []hx.Op{{K: "create_ds", Path: "/c", DT: "i32", Dims: []uint64{4}, Data: &v}, {K: "attr", Path: "/c", Name: "n", Data: &av}, {K: "group", Path: "/g"}}}
	hx.Run(path, s)
	return path, c07CanaryDump(path)
}

func c07CanaryDump(path string) string {
	d := dump.File(path, dump.Options{})
	var sb strings.Builder
	for _, o := range d.Objects {
		sb.WriteString(o.Logical())
		sb.WriteByte('\n')
	}
	return sb.String()
}

func c07Run(c *ev.Ctx) {
	if c07CacheDir == "" {
		c07CacheDir = filepath.Dir(filepath.Dir(c.Dir)) // the run's scratch directory
	}
	plan := c07PlanFor(c.Tier)
	nField := len(plan.seeds) * plan.perSeed
	canary, canaryWant := c07Canary(c)
	checkCanary := func(after string) {
		if got := c07CanaryDump(canary); got != canaryWant {
			c.Violation("canary-changed", map[string]any{"after": after, "want": canaryWant, "got": got})
			canaryWant = got
		}
	}
	input := filepath.Join(c.Dir, "input.h5")
	if c.Index < nField {
		seedIdx, block := plan.seeds[c.Index/plan.perSeed], c.Index%plan.perSeed
		b, name, err := c07Seed(c, seedIdx)
		if err != nil {
			c.Inconclusive("seed: " + err.Error())
			return
		}
		base := c07Baseline(c, input, b)
		fields, ext := c07Fields(b)
		root := uint64(0)
		if len(ext) > 1 {
			root = ext[1].Start
		}
		// the (field, value) pairs of this seed, in file order
		type pairT struct {
			f c07Field
			v uint64
		}
		var pairs, prio []pairT
		chosen := c07ClassCover(plan.classCover)[seedIdx]
		for _, f := range fields {
			var tmp [8]byte
			copy(tmp[:], b[f.Off:f.Off+uint64(f.Width)])
			cur := binary.LittleEndian.Uint64(tmp[:])
			for _, v := range c07Values(f, cur, uint64(len(b)), root, ext) {
				if v == cur {
					continue
				}
				if chosen[f.Off<<4|uint64(f.Width)] {
					prio = append(prio, pairT{f, v}) // class cover: every value
				} else {
					pairs = append(pairs, pairT{f, v})
				}
			}
		}
		nSpread := min(len(pairs), plan.capPerSeed)
		n := len(prio) + nSpread
		ran := 0
		kinds := map[string]int{}
		mut := make([]byte, len(b))
		for j := block; j < n; j += plan.perSeed {
			if c.SkipSub(j) {
				continue
			}
			var pr pairT
			if j < len(prio) {
				pr = prio[j]
			} else {
				pr = pairs[(j-len(prio))*len(pairs)/nSpread] // spread evenly over the file
			}
			f, v := pr.f, pr.v
			var tmp [8]byte
			copy(tmp[:], b[f.Off:f.Off+uint64(f.Width)])
			cur := binary.LittleEndian.Uint64(tmp[:])
			copy(mut, b)
			putLE(mut, f.Off, f.Width, v)
			if err := os.WriteFile(input, mut, 0o644); err != nil {
				c.Inconclusive("write input: " + err.Error())
				return
			}
			what := f.Struct + ":" + f.Kind
			desc := map[string]any{"seed": name, "field_offset": f.Off, "width": f.Width, "field": what, "old": cur, "new": v}
			c.Mark(j, fmt.Sprintf("seed=%s field@%d w%d %s %d->%d", name, f.Off, f.Width, what, cur, v))
			c07Probe(c, input, len(b), base, what, desc)
			kinds[f.Kind]++
			ran++
		}
		for k, n := range kinds {
			c.Count("field-corruptions:"+k, int64(n))
		}
		if block == 0 {
			c.Count("fields_in_seed_maps", int64(len(fields)))
			c.Count("field_value_pairs_in_seed_maps", int64(len(pairs)))
		}
		c.Case(fmt.Sprintf("field|%s|block%d|fields%d", name, block, len(fields)), ran > 0)
		checkCanary(name)
		return
	}
	if c.Index >= nField+plan.randCases+c07SynthFamilies {
		// two fields of one header message changed together, each by a small step (+1, -1, one
		// bit): a count that announces one more element next to a type code that changes what
		// the elements are, a size next to a rank, ... Single-field corruption cannot reach
		// states that need two fields to agree on something wrong.
		insts := c07PairInstances(c.Pick(1, 10))
		slot := c.Index - nField - plan.randCases - c07SynthFamilies
		sub, ran := 0, 0
		curSeed := -1
		var b []byte
		var name string
		var base c07Base
		for ii, in := range insts {
			if ii%c07PairCases != slot {
				continue
			}
			if in.Seed != curSeed {
				var err error
				b, name, err = c07Seed(c, in.Seed)
				if err != nil {
					continue
				}
				curSeed = in.Seed
				base = c07Baseline(c, input, b)
			}
			get := func(f c07Field) uint64 {
				var tmp [8]byte
				copy(tmp[:], b[f.Off:f.Off+uint64(f.Width)])
				return binary.LittleEndian.Uint64(tmp[:])
			}
			mut := make([]byte, len(b))
			for i := 0; i < len(in.Fields); i++ {
				for j := i + 1; j < len(in.Fields); j++ {
					fi, fj := in.Fields[i], in.Fields[j]
					if fi.Kind == "signature" || fj.Kind == "signature" || fi.Kind == "checksum" || fj.Kind == "checksum" {
						continue
					}
					ci, cj := get(fi), get(fj)
					for _, vi := range []uint64{ci + 1, ci - 1} {
						for _, vj := range []uint64{cj + 1, cj - 1, cj ^ 2} {
							sub++
							if c.SkipSub(sub) {
								continue
							}
							copy(mut, b)
							putLE(mut, fi.Off, fi.Width, vi)
							putLE(mut, fj.Off, fj.Width, vj)
							if err := os.WriteFile(input, mut, 0o644); err != nil {
								c.Inconclusive("write input: " + err.Error())
								return
							}
							c.Mark(sub, fmt.Sprintf("seed=%s pair %s@%d %d->%d and %s@%d %d->%d", name, fi.Kind, fi.Off, ci, vi, fj.Kind, fj.Off, cj, vj))
							c07Probe(c, input, len(b), base, "pair:"+in.Kind, map[string]any{"seed": name, "message": in.Kind, "field_a": fmt.Sprintf("%s@%d w%d %d->%d", fi.Kind, fi.Off, fi.Width, ci, vi), "field_b": fmt.Sprintf("%s@%d w%d %d->%d", fj.Kind, fj.Off, fj.Width, cj, vj)})
							ran++
						}
					}
				}
			}
		}
		c.Count("field-pair-corruptions", int64(ran))
		c.Count("message_instances_in_pair_enumeration", int64(len(insts)))
		c.Case(fmt.Sprintf("pairs|slot%d", slot), ran > 0)
		checkCanary("pairs")
		return
	}
	if c.Index >= nField+plan.randCases {
		// structural inputs built byte by byte (c07synth.go)
		fam, inputs := c07SynthFamily(c.Index - nField - plan.randCases)
		opened := 0
		for j, in := range inputs {
			if c.SkipSub(j) {
				continue
			}
			if err := os.WriteFile(input, in.data, 0o644); err != nil {
				c.Inconclusive("write input: " + err.Error())
				return
			}
			c.Mark(j, "structural input "+in.name)
			before := c.CounterValue("inputs_opened")
			c07Probe(c, input, len(in.data), c07Base{}, "structural:"+fam, map[string]any{"structural": in.name, "bytes": len(in.data)})
			if c.CounterValue("inputs_opened") > before {
				opened++
				c.Count("structural_inputs_opened", 1)
			}
			c.Count("structural_inputs", 1)
		}
		c.Case("structural|"+fam, len(inputs) > 0)
		checkCanary(fam)
		return
	}
	// random mutations (seed-dependent)
	r := c.R
	nAll := c07LibSeeds + len(c07Seeds)
	b, name, err := c07Seed(c, r.Intn(nAll))
	if err != nil {
		c.Inconclusive("seed: " + err.Error())
		return
	}
	base := c07Baseline(c, input, b)
	var other []byte
	kinds := map[string]int{}
	for sub := 0; sub < plan.randPerCase; sub++ {
		// draw the mutation before deciding to skip, so that sub-input k is the same in a restart
		mut := append([]byte(nil), b...)
		kind := []string{"bitflips", "bytes", "splice", "truncate", "random-body", "zero-range", "dup-range"}[r.Weighted([]int{5, 5, 2, 2, 1, 2, 2})]
		var note string
		switch kind {
		case "bitflips":
			n := r.Range(1, 16)
			for i := 0; i < n; i++ {
				p := r.Intn(len(mut))
				mut[p] ^= 1 << uint(r.Intn(8))
			}
			note = fmt.Sprintf("%d bit flips", n)
		case "bytes":
			n := r.Range(1, 16)
			for i := 0; i < n; i++ {
				p := r.Intn(len(mut))
				mut[p] = []byte{0, 1, 0x7f, 0x80, 0xff, byte(r.Intn(256))}[r.Intn(6)]
			}
			note = fmt.Sprintf("%d bytes set", n)
		case "splice":
			if other == nil {
				other, _, _ = c07Seed(c, r.Intn(nAll))
			}
			if len(other) > 0 {
				n := r.Range(1, min(512, len(other), len(mut)))
				src, dst := r.Intn(len(other)-n+1), r.Intn(len(mut)-n+1)
				copy(mut[dst:dst+n], other[src:src+n])
				note = fmt.Sprintf("%d bytes spliced at %d", n, dst)
			}
		case "truncate":
			mut = mut[:r.Intn(len(mut))]
			note = fmt.Sprintf("cut to %d", len(mut))
		case "random-body":
			keep := r.Range(8, min(128, len(mut)))
			copy(mut[keep:], r.Bytes(len(mut)-keep))
			note = fmt.Sprintf("random bytes behind the first %d", keep)
		case "zero-range":
			n := r.Range(1, min(256, len(mut)))
			p := r.Intn(len(mut) - n + 1)
			for i := 0; i < n; i++ {
				mut[p+i] = 0
			}
			note = fmt.Sprintf("%d zero bytes at %d", n, p)
		default:
			n := r.Range(4, min(256, len(mut)/2+4))
			if n*2 <= len(mut) {
				src, dst := r.Intn(len(mut)-n+1), r.Intn(len(mut)-n+1)
				copy(mut[dst:dst+n], mut[src:src+n])
				note = fmt.Sprintf("%d bytes copied %d->%d", n, src, dst)
			}
		}
		if c.SkipSub(sub) {
			continue
		}
		if err := os.WriteFile(input, mut, 0o644); err != nil {
			c.Inconclusive("write input: " + err.Error())
			return
		}
		c.Mark(sub, fmt.Sprintf("seed=%s %s: %s", name, kind, note))
		c07Probe(c, input, len(b), base, "random:"+kind, map[string]any{"seed": name, "mutation": kind, "note": note})
		kinds[kind]++
	}
	for k, n := range kinds {
		c.Count("random-mutations:"+k, int64(n))
	}
	c.Case(fmt.Sprintf("random|%s|%d", name, c.Index), true)
	checkCanary(name)
}

var C07 = &ev.Property{
	ID:    "C07",
	Level: "fault_enumeration",
	Rule: "seed files: every file of the bundled corpus up to 256 KiB plus 24 fixed library-written files (superblock 0/2/3, all layouts, filters, variable-length data, dense attributes and groups, links). (1) Single-field corruption, enumerated and independent of the seed: for every structural field the independent decoder maps in a seed file (signatures, versions, flags, sizes, counts, addresses, offsets, types, checksums; also inside chunk indexes, heaps and B-trees) each value of a boundary set {0,1,2,3,7,8, max/2, max/2+1, max-1, max, 0xff.., powers of two, file size and +-1, the field's own offset, the address of its own structure (self reference / cycles), the root object address, addresses of other structures} is written into a copy (class cover: for every field class - structure:kind:width, for header messages also the kind of object, its layout and datatype class, e.g. GCOL:size:w8, msg:dataspace:size:w8:dataset:compact:class0 - the complete value set on the first 3 (thorough: 30) seed files that contain the class; plus 40 (thorough: 3200) further (field,value) pairs spread evenly over each seed file). (2) Seeded random mutations: 1-16 bit flips or byte sets, splices between files, truncation, random bodies behind a valid prefix, zeroed and duplicated ranges. Every input is opened and read completely through the public reader inside a process with a 4 GiB address-space limit and a CPU budget of 20 s per input. Violations: recovered panic, death of the process (out of memory, stack overflow, other fatal errors), CPU budget overrun, more than 5 CPU-seconds + ten times the intact seed's, cumulative allocation above 512 MiB + 4096 x file size + twice what the intact seed needs, a canary file that reads differently afterwards. " +
		"non-trivial: at least one input was run; distinct = (class, seed file, block).",
	Assumptions:     []string{"inputs beyond the listed mutation classes are not covered: 'all byte strings' is out of reach for run-time observation"},
	Cases:           c07Cases,
	Run:             c07Run,
	Floor:           func(tier string) int64 { return 200 },
	ASLimit:         4 << 30,
	CPUPerCase:      20,
	HangIsViolation: true,
}
