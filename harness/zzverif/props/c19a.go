package props

import (
	"fmt"
	"path/filepath"
	"strings"

	"github.com/scigolib/hdf5/internal/zzverif/dump"
	"github.com/scigolib/hdf5/internal/zzverif/ev"
	"github.com/scigolib/hdf5/internal/zzverif/hx"
)

// C19 part A — twin runs: one attribute history (the C02 generator: upserts and deletes
// across compact and dense storage, reopen sessions) under the default configuration and
// under a drawn rebalancing configuration with toggles inserted at random points. The
// reopened content and the outcome of every call must be the same.

func c19ACases(tier string) int {
	if tier == "thorough" {
		return 6000
	}
	return 400
}

func c19GenRB(r *ev.Rand) (hx.RB, string) {
	var rb hx.RB
	tag := ""
	switch r.Intn(6) {
	case 0:
		rb.NoRebalance = true
		tag = "none"
	case 1:
		rb.Lazy = true
		rb.LazyThr = []float64{0, 0.01, 0.05, 0.5, 0.99, 1}[r.Intn(6)]
		rb.LazyDelayNS = []int64{0, 1, 1000, 5_000_000, 3_600_000_000_000}[r.Intn(5)]
		rb.LazyBatch = []int{0, 1, 2, 100}[r.Intn(4)]
		tag = "lazy"
	case 2:
		rb.Incr = true
		rb.Lazy = true // incremental requires lazy (documented)
		rb.IncrBudget = []int64{0, 1, 1000, 100_000_000}[r.Intn(4)]
		rb.IncrEvery = []int64{0, 1000, 50_000, 5_000_000}[r.Intn(4)]
		tag = "incremental"
	case 3:
		rb.Smart = true
		rb.SmartDetect = r.Bool()
		rb.SmartSwitch = r.Bool()
		rb.SmartMin = []uint64{0, 1, 1 << 20}[r.Intn(3)]
		all := []string{"none", "lazy", "incremental", "immediate"}
		for _, m := range all {
			if r.Bool() {
				rb.SmartModes = append(rb.SmartModes, m)
			}
		}
		tag = "smart"
	case 4:
		rb.Lazy, rb.Smart = true, true
		rb.SmartDetect, rb.SmartSwitch = true, true
		tag = "lazy+smart"
	default:
		tag = "default+toggles"
	}
	return rb, tag
}

func c19aRun(c *ev.Ctx) {
	r := c.R
	cs := c02Gen(r.Fork("history"), c.Thorough(), false)
	if c.Index%10 == 3 {
		// hundreds of attributes on one object (an index leaf more than half full), then deletes
		// and replacements: thresholds of the rebalancing modes lie at fractions of a full node
		cs = c02GenSweep(r.Fork("history"), c.Thorough())
		hr := r.Fork("sweep-tail")
		var names []string
		for _, op := range cs.Script.Ops {
			if op.K == "attr" {
				names = append(names, op.Name)
			}
		}
		for k := 0; k < 12 && len(names) > 0; k++ {
			nm := names[hr.Intn(len(names))]
			if hr.Chance(2, 3) {
				cs.Script.Ops = append(cs.Script.Ops, hx.Op{K: "delattr", Path: "/obj0", Name: nm})
			} else {
				v := hx.ScalarOf(hr, "i64")
				cs.Script.Ops = append(cs.Script.Ops, hx.Op{K: "attr", Path: "/obj0", Name: nm, Data: &v})
			}
		}
	}
	base := cs.Script
	rb, tag := c19GenRB(r)
	twin := &hx.Script{SB: base.SB, RB: rb}
	toggles := []string{"rb_disable", "rb_enable", "rb_all", "rb_force", "rb_lazy_on", "rb_lazy_off", "rb_incr_on", "rb_incr_stop", "rb_attr"}
	ntog := 0
	idx := make([]int, len(base.Ops)) // index in twin of every op of the base history
	var dsTargets []string
	for i, k := range cs.Kinds {
		if k != "group" {
			dsTargets = append(dsTargets, cs.Targets[i])
		}
	}
	density := []int{0, 20, 8, 3}[r.Intn(4)] // a toggle about every `density` ops (0: none)
	if tag == "default+toggles" && density == 0 {
		density = 5
	}
	usedToggles := map[string]bool{}
	for i, op := range base.Ops {
		if density > 0 && r.Chance(1, density) {
			t := toggles[r.Intn(len(toggles))]
			o := hx.Op{K: t}
			if t == "rb_attr" {
				if len(dsTargets) == 0 {
					t = "rb_all"
					o = hx.Op{K: t}
				} else {
					o.Path = dsTargets[r.Intn(len(dsTargets))]
				}
			}
			twin.Ops = append(twin.Ops, o)
			usedToggles[t] = true
			ntog++
		}
		idx[i] = len(twin.Ops)
		twin.Ops = append(twin.Ops, op)
	}
	dumpScriptIfReplay(c, twin)
	pa, pb := filepath.Join(c.Dir, "default.h5"), filepath.Join(c.Dir, "twin.h5")
	ea := hx.Run(pa, base)
	eb := hx.Run(pb, twin)
	var tl []string
	for t := range usedToggles {
		tl = append(tl, t)
	}
	wit := func(detail any) map[string]any {
		var ops []string
		for i, op := range twin.Ops {
			st := "ok"
			if i < len(eb.Res) && !eb.Res[i].OK() {
				st = "ERR"
			}
			ops = append(ops, trunc40(op.String())+"["+st+"]")
		}
		if len(ops) > 120 {
			ops = append(ops[:60], append([]string{"…"}, ops[len(ops)-60:]...)...)
		}
		return map[string]any{"sb": base.SB, "rb": rb, "twin_ops": ops, "detail": detail}
	}
	for i, res := range eb.Res {
		if res.Panic != "" {
			k := "close"
			if i < len(twin.Ops) {
				k = twin.Ops[i].K
			}
			c.Violation("panic:"+tag+":"+k+"@"+res.Panic, wit(res))
			return
		}
	}
	if len(ea.Res) > 0 && len(eb.Res) > 0 && ea.Res[0].Err != "" && strings.HasPrefix(ea.Res[0].Err, "create:") != strings.HasPrefix(eb.Res[0].Err, "create:") {
		c.Violation("create-refused:"+tag, wit(eb.Res[0]))
		return
	}
	if len(eb.Res) > 0 && strings.HasPrefix(eb.Res[0].Err, "create:") {
		// the configuration itself was refused (e.g. incompatible options): nothing to compare
		c.Count("configuration_refused:"+tag, 1)
		c.Case("refused|"+tag, false)
		return
	}
	dense, deletes := false, 0
	perTarget := map[string]int{}
	for i, op := range base.Ops {
		if op.K == "attr" && ea.Res[i].OK() {
			perTarget[op.Path]++
			if perTarget[op.Path] >= 8 {
				dense = true
			}
		}
		if op.K == "delattr" && ea.Res[i].OK() {
			deletes++
		}
	}
	c.Case(fmt.Sprintf("A|sb%d|%s|%+v|toggles%d|dense%v|del%d|ops%d", base.SB, tag, rb, ntog, dense, min(deletes, 5), len(base.Ops)/10), dense || deletes > 0)
	c.Count("A:config:"+tag, 1)
	c.Count("A:toggles", int64(ntog))
	if dense {
		c.Count("A:histories_with_dense_storage", 1)
	}
	if ea.CloseRes.OK() != eb.CloseRes.OK() {
		c.Violation("close-differs:"+tag, wit(map[string]any{"default": ea.CloseRes, "twin": eb.CloseRes}))
		return
	}
	for i := range base.Ops {
		ra, rb2 := ea.Res[i], eb.Res[idx[i]]
		if ra.OK() != rb2.OK() {
			c.Violation("call-outcome-differs:"+tag+":"+base.Ops[i].K, wit(map[string]any{"op": trunc40(base.Ops[i].String()), "default": ra, "twin": rb2}))
			return
		}
	}
	da, db := dump.File(pa, dump.Options{}), dump.File(pb, dump.Options{})
	if da.OpenRes.OK() != db.OpenRes.OK() {
		c.Violation("content:open:"+tag, wit(map[string]any{"default": da.OpenRes, "twin": db.OpenRes}))
		return
	}
	if diff := dump.Diff(da, db, nil); len(diff) > 0 {
		storage := "compact"
		if dense {
			storage = "dense"
		}
		c.Violation("content-differs:"+tag+":"+storage, wit(map[string]any{"paths": diff, "default": trunc40(logicalOf(da, diff[0])), "twin": trunc40(logicalOf(db, diff[0])), "toggles": tl}))
	}
}
