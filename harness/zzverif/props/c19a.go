package props

import "github.com/scigolib/hdf5/internal/zzverif/ev"

// part A is added with the file-level helpers (see c19a implementation below).
func c19ACases(tier string) int { return 0 }
func c19aRun(c *ev.Ctx)         {}
