package props

import (
	"bytes"
	"encoding/binary"
	"fmt"
	"sort"
	"strings"

	"github.com/scigolib/hdf5/internal/structures"
	"github.com/scigolib/hdf5/internal/zzverif/ev"
	"github.com/scigolib/hdf5/internal/zzverif/memio"
)

// C15 — the fractal heap returns exactly the bytes stored under each live id.
//
// Monitor: model map id -> bytes stepped together with a real WritableFractalHeap; after
// every operation every live id is read back and compared, ids are checked for
// distinctness and disjoint byte ranges, header counters are compared with the model's,
// and at random points the heap is written out and loaded back (writable loader, read-only
// FractalHeap reader) and the comparison is repeated on the loaded heap.

type c15Op struct {
	Op   string `json:"op"`
	Size int    `json:"size,omitempty"`
	ID   string `json:"id,omitempty"`
	Err  string `json:"err,omitempty"`
}

type c15Obj struct {
	id   []byte
	data []byte
	off  uint64
	len  uint64
}

func c15ParseID(h *structures.WritableHeapHeader, id []byte) (off, ln uint64, ok bool) {
	if len(id) != int(h.HeapIDLength) || len(id) < 1+int(h.HeapOffsetSize)+int(h.HeapLengthSize) {
		return 0, 0, false
	}
	if id[0]&0xF0 != 0 {
		return 0, 0, false
	}
	p := 1
	for i := 0; i < int(h.HeapOffsetSize); i++ {
		off |= uint64(id[p]) << (8 * i)
		p++
	}
	for i := 0; i < int(h.HeapLengthSize); i++ {
		ln |= uint64(id[p]) << (8 * i)
		p++
	}
	return off, ln, true
}

func c15Run(c *ev.Ctx) {
	r := c.R
	zt := r.Fork("zero-tails")
	zeroTails := zt.Chance(1, 3)
	blockSize := []uint64{512, 4096, 65536}[r.Intn(3)]
	if r.Chance(1, 8) {
		blockSize = []uint64{256, 1024, 16384}[r.Intn(3)]
	}
	if c.Index%8 == 3 {
		blockSize = []uint64{16384, 65536}[r.Intn(2)] // plan 5 below
	}
	if c.Index%16 == 9 {
		// blocks in which an object of the largest managed size (65536) fits, powers of two or not
		blockSize = []uint64{131072, 131072, 98304, 100000, 70000, 200000}[r.Intn(6)]
	}
	fh := structures.NewWritableFractalHeap(blockSize)
	sb := testSB()
	// overhead of a direct block on disk: signature 4 + version 1 + heap header address
	// (offset size) + block offset (heap offset size) and 4 checksum bytes at the end
	prefix := uint64(5 + int(sb.OffsetSize) + int(fh.Header.HeapOffsetSize))
	usable := blockSize - prefix - 4

	// fill plan
	plan := []int{0, 0, 1, 1, 1, 2, 2, 2, 3, 4}[r.Intn(10)] // 0 small, 1 approach usable±k, 2 exactly one block, 3 beyond one block, 4 random big objects
	// plan 5 (one case in eight): objects that end at a chosen distance from the 512-byte and
	// 4 KiB boundaries inside a large block; the distance (-40..+23 bytes) is enumerated over
	// the cases, so that every alignment of an object's last byte around a boundary occurs
	alignEdge := 0
	if c.Index%16 == 9 {
		plan = 4 // sizes around the largest managed object
	}
	if c.Index%8 == 3 {
		plan = 5
		alignEdge = (c.Index/8)%64 - 40
	}
	nops := r.Range(1, c.Pick(120, 400))
	var hist []c15Op
	live := map[string]*c15Obj{}
	var order []string // insertion order of live ids (keys)
	var liveBytes uint64
	reloaded, sawRefusal, sawIndirect := false, false, false
	var backing *memio.File // the file the current heap was loaded from (nil: created in memory)
	var backingAddr uint64
	maxEnd := uint64(0)

	var region func(end uint64) string
	fail := func(key string, detail any) {
		if fh.RootIndirectBlock != nil || strings.Contains(key, "indirect") {
			// the heap left its first direct block: one coarse key per symptom class
			sym := key
			if i := strings.Index(sym, ":indirect"); i >= 0 {
				sym = sym[:i]
			}
			switch {
			case strings.HasPrefix(sym, "persist"):
				key = "indirect:persist"
			case strings.HasPrefix(sym, "insert-failed-but-changed"), strings.HasPrefix(sym, "after-refused-insert"):
				key = "indirect:failed-insert-changed-state"
			default:
				key = "indirect:in-memory"
			}
			detail = map[string]any{"symptom": sym, "detail": detail}
			key += ":" + sym
		}
		t := hist
		if len(t) > 40 {
			t = t[len(t)-40:]
		}
		c.Violation(key, map[string]any{"block_size": blockSize, "plan": plan, "detail": detail, "ops_total": len(hist), "last_ops": t, "live": len(live), "live_bytes": liveBytes, "max_end": maxEnd, "usable": usable})
	}
	region = func(end uint64) string {
		switch {
		case fh.RootIndirectBlock != nil:
			return "indirect"
		case end > usable:
			return "tail"
		default:
			return "low"
		}
	}
	regionKey := func() string { return region(maxEnd) }
	defer func() {
		desc := fmt.Sprintf("bs%d|plan%d|%s|reload%v|refusal%v|ops%d|live%d", blockSize, plan, regionKey(), reloaded, sawRefusal, len(hist)/10, len(live)/10)
		c.Case(desc, len(hist) >= 2)
	}()
	rl := func() string {
		if reloaded {
			return ",reloaded"
		}
		return ""
	}

	checkAll := func(h *structures.WritableFractalHeap, what string) bool {
		// every live id returns its bytes
		keys := make([]string, 0, len(live))
		for k := range live {
			keys = append(keys, k)
		}
		sort.Strings(keys)
		for _, k := range keys {
			o := live[k]
			got, err := h.GetObject(o.id)
			if err != nil {
				fail(fmt.Sprintf("%s:get-error:%s%s", what, region(o.off+o.len), rl()), fmt.Sprintf("GetObject(%x) off=%d len=%d: %v", o.id, o.off, o.len, err))
				return false
			}
			if !bytes.Equal(got, o.data) {
				fail(fmt.Sprintf("%s:get-bytes:%s%s", what, region(o.off+o.len), rl()), fmt.Sprintf("GetObject(%x) off=%d len=%d returned different bytes (first diff at %d)", o.id, o.off, o.len, firstDiff(got, o.data)))
				return false
			}
			// what GetObject returned is the caller's: it is overwritten here (a caller recycling
			// its buffer); the stored object must not follow — seen by the next sweep
			for i := range got {
				got[i] = 0xEE
			}
		}
		// second sweep: nothing a caller did to earlier results shows in the heap
		for _, k := range keys {
			o := live[k]
			got, err := h.GetObject(o.id)
			if err != nil || !bytes.Equal(got, o.data) {
				fail(fmt.Sprintf("%s:changed-by-write-into-returned-bytes:%s%s", what, region(o.off+o.len), rl()), fmt.Sprintf("GetObject(%x) off=%d len=%d differs after the caller overwrote the slice an earlier GetObject had returned (err=%v)", o.id, o.off, o.len, err))
				return false
			}
		}
		// header counters
		if h.Header.NumManagedObjects != uint64(len(live)) {
			fail(what+":count:"+regionKey()+rl(), fmt.Sprintf("NumManagedObjects=%d model=%d", h.Header.NumManagedObjects, len(live)))
			return false
		}
		if want := h.Header.ManagedSpaceSize - liveBytes; h.Header.FreeSpace != want {
			fail(what+":freespace:"+regionKey()+rl(), fmt.Sprintf("FreeSpace=%d, managed space %d - live bytes %d = %d", h.Header.FreeSpace, h.Header.ManagedSpaceSize, liveBytes, want))
			return false
		}
		return true
	}
	checkDisjoint := func() bool {
		objs := make([]*c15Obj, 0, len(live))
		for _, o := range live {
			objs = append(objs, o)
		}
		sort.Slice(objs, func(i, j int) bool { return objs[i].off < objs[j].off })
		for i := 1; i < len(objs); i++ {
			if objs[i-1].off+objs[i-1].len > objs[i].off {
				fail("ids:overlap:"+regionKey()+rl(), fmt.Sprintf("live ids %x [%d,+%d) and %x [%d,+%d) overlap", objs[i-1].id, objs[i-1].off, objs[i-1].len, objs[i].id, objs[i].off, objs[i].len))
				return false
			}
		}
		return true
	}

	alignedInsert := false
	overshoot := r.Chance(1, 4) // plans 0-2: one quarter of the histories may leave the first block
	nextSize := func() int {
		free := int64(usable) - int64(maxEnd)
		clamp := func(n int) int {
			if overshoot || int64(n) <= free {
				return n
			}
			return int(free) // 0 = nothing fits any more: skip the insert
		}
		// an object that ends 1-4 bytes behind the usable space (where the block's checksum
		// goes): it must be refused by this block, never stored there
		if overshoot && plan <= 2 && free > 0 && free <= 64 && r.Bool() {
			return int(free) + r.Range(1, 4)
		}
		switch plan {
		case 5:
			// the object ends (first byte behind it) at alignEdge bytes past the next 512-byte or
			// 4 KiB boundary of the block offsets; small objects in between
			if r.Chance(1, 3) {
				return clamp(r.Range(1, 40))
			}
			unit := uint64([]int{512, 4096}[r.Intn(2)])
			target := (maxEnd/unit+1)*unit + uint64(int64(unit)+int64(alignEdge))%unit
			for target <= maxEnd {
				target += unit
			}
			alignedInsert = true
			return clamp(int(target - maxEnd))
		case 0:
			return clamp(r.Range(1, 64))
		case 1:
			// big steps until close, then small steps landing around usable-8..usable
			if free > 200 {
				return r.Range(1, int(min64(free-100, 3000)))
			}
			return clamp(r.Range(1, 24))
		case 2:
			// fill the block exactly
			if free > 200 {
				return r.Range(1, int(min64(free-100, 3000)))
			}
			if free > 0 && r.Bool() {
				return int(free)
			}
			return clamp(r.Range(1, 24))
		case 3:
			return r.Range(1, int(min64(int64(blockSize), 5000)))
		default:
			m := int(fh.Header.MaxManagedObjectSize)
			switch r.Intn(4) {
			case 0:
				return m
			case 1:
				return m + 1
			case 2:
				return r.Range(1, m)
			default:
				return r.Range(1, 256)
			}
		}
	}

	for step := 0; step < nops; step++ {
		w := []int{8, 2, 2, 2, 1}
		if len(live) == 0 {
			// an empty heap (emptied or never filled) is also written out and loaded
			w = []int{3, 0, 0, 0, 1}
		}
		kindOp := r.Weighted(w)
		if plan == 5 && (step == 0 || alignedInsert) {
			// plan 5 works on a heap that was loaded from a file, and every object placed at an
			// alignment edge is written back in place and loaded again at once
			kindOp, alignedInsert = 4, false
		}
		if len(live) > 0 && len(live) <= 8 && fh.RootIndirectBlock == nil && r.Chance(1, 12) {
			// drain: delete everything, so that the next save is that of an emptied heap
			for len(order) > 0 {
				k := order[len(order)-1]
				o := live[k]
				hist = append(hist, c15Op{Op: "delete", ID: fmt.Sprintf("%x", o.id)})
				if err := fh.DeleteObject(o.id); err != nil {
					fail("delete-refused:"+region(o.off+o.len)+rl(), err.Error())
					return
				}
				delete(live, k)
				order = order[:len(order)-1]
				liveBytes -= o.len
			}
			c.Count("heaps_drained", 1)
			kindOp = 4
		}
		switch kindOp {
		case 0: // insert
			n := nextSize()
			if n == 0 {
				continue
			}
			data := r.Bytes(n)
			for i := range data { // no zero bytes: deletion zeroes, so a stale read is visible
				if data[i] == 0 {
					data[i] = 0x5A
				}
			}
			// ... except, in one heap in three, a tail of 1-4 zero bytes on every second object,
			// as the encodings of small integers and terminated strings have: nothing may take
			// the zero tail of a live object for freed space (seeded C10.r8)
			if zeroTails && n >= 2 && zt.Bool() {
				for k := 1 + zt.Intn(min(4, n-1)); k > 0; k-- {
					data[n-k] = 0
				}
				c.Count("objects_with_zero_tail", 1)
			}
			// snapshot observable state for "a failing insert changes nothing"
			beforeN, beforeFree, beforeOff := fh.Header.NumManagedObjects, fh.Header.FreeSpace, fh.Header.ManagedSpaceOffset
			wasIndirect := fh.RootIndirectBlock != nil
			id, err := fh.InsertObject(data)
			op := c15Op{Op: "insert", Size: n}
			if err != nil {
				op.Err = err.Error()
				hist = append(hist, op)
				sawRefusal = true
				if fh.Header.NumManagedObjects != beforeN || fh.Header.FreeSpace != beforeFree || fh.Header.ManagedSpaceOffset != beforeOff || (fh.RootIndirectBlock != nil) != wasIndirect {
					fail("insert-failed-but-changed:"+regionKey()+rl(), fmt.Sprintf("refused insert of %d bytes (%v) changed header counters or heap structure", n, err))
					return
				}
				if n >= 1 && n <= int(fh.Header.MaxManagedObjectSize) && !wasIndirect && maxEnd+uint64(n) <= usable {
					fail("insert-refused-though-fits:"+regionKey()+rl(), fmt.Sprintf("insert of %d bytes refused with %d of %d usable bytes taken: %v", n, maxEnd, usable, err))
					return
				}
				if !checkAll(fh, "after-refused-insert") {
					return
				}
				continue
			}
			op.ID = fmt.Sprintf("%x", id)
			hist = append(hist, op)
			off, ln, ok := c15ParseID(fh.Header, id)
			if !ok || ln != uint64(n) {
				fail("ids:malformed:"+regionKey()+rl(), fmt.Sprintf("heap id %x does not encode a managed object of length %d", id, n))
				return
			}
			k := string(id)
			if _, dup := live[k]; dup {
				fail("ids:duplicate:"+regionKey()+rl(), fmt.Sprintf("heap id %x returned for two live objects", id))
				return
			}
			live[k] = &c15Obj{id: append([]byte(nil), id...), data: data, off: off, len: ln}
			order = append(order, k)
			liveBytes += ln
			if off+ln > maxEnd {
				maxEnd = off + ln
			}
			if fh.RootIndirectBlock != nil {
				sawIndirect = true
			}
		case 1: // overwrite, same size
			k := order[r.Intn(len(order))]
			o := live[k]
			nd := r.Bytes(len(o.data))
			for i := range nd {
				if nd[i] == 0 {
					nd[i] = 0xA5
				}
			}
			hist = append(hist, c15Op{Op: "overwrite", Size: len(nd), ID: fmt.Sprintf("%x", o.id)})
			if err := fh.OverwriteObject(o.id, nd); err != nil {
				fail("overwrite-refused:"+region(o.off+o.len)+rl(), err.Error())
				return
			}
			o.data = nd
		case 2: // overwrite with a different size must fail and change nothing
			k := order[r.Intn(len(order))]
			o := live[k]
			nd := r.Bytes(len(o.data) + 1 + r.Intn(3))
			hist = append(hist, c15Op{Op: "overwrite-wrong-size", Size: len(nd), ID: fmt.Sprintf("%x", o.id)})
			if err := fh.OverwriteObject(o.id, nd); err == nil {
				fail("overwrite-wrong-size-accepted:"+regionKey()+rl(), "OverwriteObject accepted data of a different size")
				return
			}
		case 3: // delete
			i := r.Intn(len(order))
			k := order[i]
			o := live[k]
			hist = append(hist, c15Op{Op: "delete", ID: fmt.Sprintf("%x", o.id)})
			if err := fh.DeleteObject(o.id); err != nil {
				fail("delete-refused:"+region(o.off+o.len)+rl(), err.Error())
				return
			}
			delete(live, k)
			order = append(order[:i], order[i+1:]...)
			liveBytes -= o.len
		case 4: // write out + load back
			if backing != nil && (r.Bool() || plan == 5) {
				// the heap was loaded from a file: write it back in place (the modify path of an
				// open-modify-close session), load it again and go on with the loaded copy
				hist = append(hist, c15Op{Op: "writeat+load"})
				if err := fh.WriteAt(backing, sb); err != nil {
					fail("persist:writeat-failed:"+regionKey()+rl(), err.Error())
					return
				}
				nh := structures.NewWritableFractalHeap(blockSize)
				if err := nh.LoadFromFile(backing, backingAddr, sb); err != nil {
					fail("persist:load-after-writeat-failed:"+regionKey()+rl(), err.Error())
					return
				}
				if !checkAll(nh, "persist:loaded-after-writeat") {
					return
				}
				if nh.Header.NumManagedObjects != fh.Header.NumManagedObjects || nh.Header.FreeSpace != fh.Header.FreeSpace || nh.Header.ManagedSpaceOffset != fh.Header.ManagedSpaceOffset {
					fail("persist:header-after-writeat:"+regionKey()+rl(), fmt.Sprintf("loaded header objects=%d free=%d offset=%d, in memory objects=%d free=%d offset=%d",
						nh.Header.NumManagedObjects, nh.Header.FreeSpace, nh.Header.ManagedSpaceOffset, fh.Header.NumManagedObjects, fh.Header.FreeSpace, fh.Header.ManagedSpaceOffset))
					return
				}
				fh = nh
				c.Count("in_place_write_back_sessions", 1)
				break
			}
			hist = append(hist, c15Op{Op: "write+load"})
			mf := memio.New(4096)
			addr, err := fh.WriteToFile(mf, mf, sb)
			if err != nil {
				fail("persist:write-failed:"+regionKey()+rl(), err.Error())
				return
			}
			// (a) read-only reader
			ro, err := structures.OpenFractalHeap(mf, addr, sb.LengthSize, sb.OffsetSize, sb.Endianness)
			if err != nil {
				fail("persist:readonly-open-failed:"+regionKey()+rl(), err.Error())
				return
			}
			keys := make([]string, 0, len(live))
			for k := range live {
				keys = append(keys, k)
			}
			sort.Strings(keys)
			for _, k := range keys {
				o := live[k]
				got, err := ro.ReadObject(o.id)
				if err != nil {
					fail("persist:readonly-error:"+region(o.off+o.len)+rl(), fmt.Sprintf("ReadObject(%x) off=%d len=%d: %v", o.id, o.off, o.len, err))
					return
				}
				if !bytes.Equal(got, o.data) {
					fail("persist:readonly-bytes:"+region(o.off+o.len)+rl(), fmt.Sprintf("ReadObject(%x) off=%d len=%d differs at byte %d after write", o.id, o.off, o.len, firstDiff(got, o.data)))
					return
				}
			}
			// (b) writable loader (the library constructs it with its default size of 64 KiB
			// before loading, whatever the heap on disk uses: both ways here)
			loaderSize := blockSize
			if r.Bool() {
				loaderSize = 64 * 1024
			}
			nh := structures.NewWritableFractalHeap(loaderSize)
			if err := nh.LoadFromFile(mf, addr, sb); err != nil {
				fail("persist:load-failed:"+regionKey()+rl(), err.Error())
				return
			}
			if !checkAll(nh, "persist:loaded") {
				return
			}
			if r.Bool() || plan == 5 {
				fh = nh
				reloaded = true
				backing, backingAddr = mf, addr
				// in-place write after load must reproduce as well
				if err := fh.WriteAt(mf, sb); err != nil {
					fail("persist:writeat-failed:"+regionKey()+rl(), err.Error())
					return
				}
				nh2 := structures.NewWritableFractalHeap(blockSize)
				if err := nh2.LoadFromFile(mf, addr, sb); err != nil {
					fail("persist:load-after-writeat-failed:"+regionKey()+rl(), err.Error())
					return
				}
				if !checkAll(nh2, "persist:loaded-after-writeat") {
					return
				}
			}
		}
		if !checkAll(fh, "live") || !checkDisjoint() {
			return
		}
	}
	c.Count("ops", int64(len(hist)))
	c.Count("region:"+regionKey(), 1)
	if reloaded {
		c.Count("histories_continued_after_reload", 1)
	}
	if sawRefusal {
		c.Count("histories_with_refused_insert", 1)
	}
	if sawIndirect {
		c.Count("histories_reaching_indirect_root", 1)
	}
	if len(hist) <= 10 {
		c.Sample(map[string]any{"block_size": blockSize, "plan": plan, "ops": hist})
	}
}

func firstDiff(a, b []byte) int {
	n := len(a)
	if len(b) < n {
		n = len(b)
	}
	for i := 0; i < n; i++ {
		if a[i] != b[i] {
			return i
		}
	}
	if len(a) != len(b) {
		return n
	}
	return -1
}

func min64(a, b int64) int64 {
	if a < b {
		return a
	}
	return b
}

var _ = binary.LittleEndian

var C15 = &ev.Property{
	ID:    "C15",
	Level: "exploration",
	Rule: "each case is a seeded history of insert / same-size overwrite / wrong-size overwrite / delete / write+load on a WritableFractalHeap with block size 256..65536 and a fill plan (small objects; approach the usable block size ±k; exactly one block; beyond one block; objects around the maximum managed size); payloads have no zero byte, except that in one heap in three every second object ends in 1-4 zero bytes; " +
		"after every operation all live ids are read back and compared with a map model, ids checked for distinctness and disjoint ranges, NumManagedObjects/FreeSpace compared with the model; write+load is checked through the read-only reader and the writable loader, and half of the time the history continues on the loaded heap. " +
		"non-trivial: >=2 operations; distinct = (block size, plan, fill region low/tail/indirect, continued after reload, saw a refused insert, ops/10, live/10).",
	Assumptions: []string{
		"free space is judged by the writer's own accounting rule (managed space - live bytes), not the C library's free-space manager",
		"usable bytes of a direct block = block size - (5 + offset size + heap offset size) prefix - 4 checksum bytes",
	},
	Cases: func(tier string) int {
		if tier == "thorough" {
			return 40000
		}
		return 3000
	},
	Run:   c15Run,
	Floor: func(tier string) int64 { return 30 },
}
