package props

import (
	"fmt"
	"math"
	"os"
	"path/filepath"
	"regexp"
	"sort"
	"strconv"
	"strings"
	"sync"

	"github.com/scigolib/hdf5/internal/zzverif/ddl"
	"github.com/scigolib/hdf5/internal/zzverif/dump"
	"github.com/scigolib/hdf5/internal/zzverif/ev"
	"github.com/scigolib/hdf5/internal/zzverif/specdec"
)

// C06 — reader output on reference-library files equals the reference library's report.
//
// Every file of the bundled corpus is opened with the library's reader and dumped
// completely (one case per file). Two oracles:
//  (1) the h5dump DDL files shipped with the corpus (parsed by harness/zzverif/ddl):
//      members, kinds, shapes, datatypes, values, attributes;
//  (2) the independent decoder (specdec): numeric values the library returns without
//      error must equal the decoder's, for every dataset of every file (also those
//      without a DDL).
// Errors from the reader are accepted; different values and silently missing members are not.

var (
	corpusOnce  sync.Once
	corpusFiles []string
	ddlByFile   map[string][]*ddlEntry
)

type ddlEntry struct {
	name     string
	fileName string // the HDF5 file the DDL describes
	file     *ddl.File
	class    string
}

func corpusInit() {
	corpusOnce.Do(func() {
		root := filepath.Join(ev.RepoDir(), "testdata")
		_ = filepath.Walk(root, func(p string, info os.FileInfo, err error) error {
			if err != nil || info.IsDir() {
				return nil
			}
			if strings.HasSuffix(p, ".h5") || strings.HasSuffix(p, ".hdf5") {
				corpusFiles = append(corpusFiles, p)
			}
			return nil
		})
		sort.Strings(corpusFiles)
		ddlByFile = map[string][]*ddlEntry{}
		ddir := filepath.Join(root, "hdf5_official", "ddl")
		ents, _ := os.ReadDir(ddir)
		for _, e := range ents {
			if !strings.HasSuffix(e.Name(), ".ddl") {
				continue
			}
			b, err := os.ReadFile(filepath.Join(ddir, e.Name()))
			if err != nil {
				continue
			}
			f, perr := ddl.Parse(string(b))
			if perr != nil || f == nil {
				continue
			}
			cl := ddl.Classify(f)
			if cl != ddl.ClassFull && cl != ddl.ClassPartial && cl != ddl.ClassHeaderOnly {
				continue
			}
			fn := ddl.FileNameFor(e.Name(), f)
			if fn == "" {
				continue
			}
			ddlByFile[fn] = append(ddlByFile[fn], &ddlEntry{name: e.Name(), fileName: fn, file: f, class: cl})
		}
	})
}

func c06Cases(tier string) int {
	corpusInit()
	return len(corpusFiles)
}

func parseDDLNum(text string) (f float64, isInt bool, i int64, u uint64, ok bool) {
	t := strings.TrimSpace(text)
	switch strings.ToLower(t) {
	case "nan", "-nan", "+nan":
		return math.NaN(), false, 0, 0, true
	case "inf", "+inf", "infinity":
		return math.Inf(1), false, 0, 0, true
	case "-inf", "-infinity":
		return math.Inf(-1), false, 0, 0, true
	}
	if v, err := strconv.ParseInt(t, 0, 64); err == nil {
		return float64(v), true, v, uint64(v), true
	}
	if v, err := strconv.ParseUint(t, 0, 64); err == nil {
		return float64(v), true, int64(v), v, true
	}
	if v, err := strconv.ParseFloat(t, 64); err == nil {
		return v, false, 0, 0, true
	}
	return 0, false, 0, 0, false
}

// numClose compares a value returned by the reader with the printed reference value. h5dump
// prints floating point with %g (6 significant digits), so the comparison allows that loss.
// printedTolerance is half a unit of the last digit h5dump printed for a floating point
// value (h5dump's format can be changed with -m, e.g. to %.4g).
func printedTolerance(text string, want float64) float64 {
	t := strings.ToLower(strings.TrimLeft(strings.TrimSpace(text), "+-"))
	mant := t
	if i := strings.IndexByte(t, 'e'); i >= 0 {
		mant = t[:i]
	}
	digits := strings.ReplaceAll(mant, ".", "")
	sig := len(strings.TrimLeft(digits, "0"))
	if sig == 0 {
		sig = 1
	}
	if want == 0 {
		// 0 printed: anything that rounds to zero at the printed precision
		frac := 0
		if i := strings.IndexByte(mant, '.'); i >= 0 {
			frac = len(mant) - i - 1
		}
		return 0.5 * math.Pow(10, -float64(frac))
	}
	exp := math.Floor(math.Log10(math.Abs(want)))
	return 0.51 * math.Pow(10, exp-float64(sig)+1)
}

func numCloseText(got float64, text string) bool {
	want, isInt, _, _, ok := parseDDLNum(text)
	if !ok {
		return true
	}
	if numClose(got, want, isInt) {
		return true
	}
	if isInt && !strings.ContainsAny(text, ".eE") {
		// an integer token for a floating point element (e.g. "3" for 3.0, or 0 for 1e-7 with %g)
		return math.Abs(got-want) <= printedTolerance(text, want)
	}
	return math.Abs(got-want) <= printedTolerance(text, want)
}

func numClose(got, want float64, wantIsInt bool) bool {
	if math.IsNaN(want) {
		return math.IsNaN(got)
	}
	if math.IsInf(want, 0) {
		return math.IsInf(got, int(math.Copysign(1, want)))
	}
	if wantIsInt {
		return got == want
	}
	if got == want {
		return true
	}
	d := math.Abs(got - want)
	return d <= 1e-5*math.Abs(want)+1e-300 || d <= 5e-6*math.Abs(got)
}

// valueMatches compares one element returned by the reader with the printed reference.
func valueMatches(got float64, text string, t *ddl.Type) bool {
	want, isInt, _, _, ok := parseDDLNum(text)
	if !ok {
		return true
	}
	if t != nil && (t.Class == "integer" || t.Class == "enum" || t.Class == "bitfield") {
		return got == want || (math.IsNaN(got) && math.IsNaN(want))
	}
	_ = isInt
	return numCloseText(got, text)
}

// groupStorage names how the decoder found a group's links stored.
func groupStorage(sf *specdec.File, path string) string {
	if sf == nil {
		return "unknown"
	}
	o, err := sf.Resolve(path)
	if err != nil || o == nil {
		return "unresolved"
	}
	switch {
	case o.HasSymTab:
		return "symbol-table"
	case o.LinkInfo != nil && o.LinkInfo.HeapAddr != specdec.Undef && o.LinkInfo.HeapAddr != 0:
		return "dense-links"
	default:
		return "link-messages"
	}
}

// sharedDatatype reports whether the object's datatype message is a shared-message reference.
func sharedDatatype(sf *specdec.File, path string) bool {
	if sf == nil {
		return false
	}
	o, err := sf.Resolve(path)
	if err != nil || o == nil {
		return false
	}
	for _, m := range o.Messages {
		if m.Type == 3 && m.Flags&0x02 != 0 {
			return true
		}
	}
	return false
}

func attrStorage(sf *specdec.File, path string) string {
	if sf == nil {
		return "unknown"
	}
	o, err := sf.Resolve(path)
	if err != nil || o == nil {
		return "unresolved"
	}
	if o.AttrInfo != nil && o.AttrInfo.HeapAddr != specdec.Undef && o.AttrInfo.HeapAddr != 0 {
		return "dense"
	}
	return "compact-v" + strconv.Itoa(o.HeaderVersion)
}

// flattenNums flattens DDL values of numeric/array types to scalars; ok=false when a
// non-numeric element occurs.
func flattenNums(vals []ddl.Value, out *[]ddl.Value) bool {
	for _, v := range vals {
		switch v.Kind {
		case ddl.KindNum:
			*out = append(*out, v)
		case ddl.KindArray:
			if !flattenNums(v.Elems, out) {
				return false
			}
		default:
			return false
		}
	}
	return true
}

func typeTag(t *ddl.Type) string {
	if t == nil {
		return "unknown"
	}
	s := t.Class
	switch t.Class {
	case "integer":
		if !t.Signed {
			s = "uint"
		} else {
			s = "int"
		}
		s += strconv.Itoa(t.Size * 8)
	case "float":
		s += strconv.Itoa(t.Size * 8)
	}
	if t.Order == "BE" {
		s += "be"
	}
	return s
}

var ddlClassToLib = map[string]int{"integer": 0, "float": 1, "time": 2, "string": 3, "bitfield": 4, "opaque": 5, "compound": 6, "reference": 7, "enum": 8, "vlen": 9, "array": 10}

var reIndent = regexp.MustCompile(`\n[ \t]*`)

// trimPad normalises a string for comparison: padding removed, and the re-indentation
// h5dump applies after a raw newline inside a printed string collapsed.
func trimPad(s string) string {
	return strings.TrimRight(reIndent.ReplaceAllString(s, "\n"), "\x00 ")
}

func c06Run(c *ev.Ctx) {
	corpusInit()
	path := corpusFiles[c.Index]
	rel, _ := filepath.Rel(filepath.Join(ev.RepoDir(), "testdata"), path)
	base := filepath.Base(path)
	st, err := os.Stat(path)
	if err != nil || st.Size() == 0 {
		c.Count("files_skipped_empty", 1)
		c.Case("empty|"+rel, false)
		return
	}
	wit := func(obj string, detail any) map[string]any {
		return map[string]any{"file": rel, "object": obj, "detail": detail}
	}
	if strings.Contains(base, "onion") {
		// onion-VFD files: the reference report shows a revision kept in a side file
		c.Count("files_skipped_onion_vfd", 1)
		c.Case("onion|"+rel, false)
		return
	}
	dp := dump.File(path, dump.Options{MaxObjects: 5000})
	c.Count("files_dumped", 1)
	entries := ddlByFile[base]
	c.Case(fmt.Sprintf("%s|ddl%d|open%v|objs%d", rel, len(entries), dp.OpenRes.OK(), len(dp.Objects)), true)
	if dp.OpenRes.Panic != "" {
		c.Violation("panic:open@"+dp.OpenRes.Panic, wit("", dp.OpenRes))
		return
	}
	if !dp.OpenRes.OK() {
		c.Count("files_open_error", 1) // an error is an accepted answer
		return
	}
	c.Count("files_opened", 1)
	for _, o := range dp.Objects {
		for name, rr := range map[string]dump.Res{"Info": o.InfoRes, "Read": o.ReadRes, "ReadStrings": o.StringsRes, "ReadCompound": o.CompoundRes, "Attributes": o.AttrsRes} {
			if rr.Panic != "" {
				c.Violation("panic:"+name+"@"+rr.Panic, wit(o.Path, rr))
			}
		}
		for _, a := range o.Attrs {
			if a.ValueRes.Panic != "" {
				c.Violation("panic:ReadValue@"+a.ValueRes.Panic, wit(o.Path+"@"+a.Name, a.ValueRes))
			}
		}
	}

	// ---- oracle 2: independent decoder
	var sf *specdec.File
	if f, err := os.Open(path); err == nil {
		defer f.Close()
		sf, _ = specdec.Decode(f, st.Size(), specdec.Options{})
	}
	if sf != nil {
		c06VsDecoder(c, dp, sf, wit)
		c06AttrsVsDecoder(c, dp, sf, wit)
	}

	// ---- oracle 1: h5dump DDL
	for _, e := range entries {
		if strings.Contains(e.file.Trailer, "rror") || strings.Contains(e.file.Preamble, "rror") {
			c.Count("ddl_skipped_error_transcript", 1)
			continue
		}
		c.Count("ddl_compared:"+e.class, 1)
		c06VsDDL(c, dp, e, sf, wit)
	}
}

// libLookup finds a dumped object for an absolute DDL path.
func libLookup(dp *dump.Dump, p string) *dump.Obj { return dp.Resolve(p) }

func c06VsDDL(c *ev.Ctx, dp *dump.Dump, e *ddlEntry, sf *specdec.File, wit func(string, any) map[string]any) {
	full := e.class == ddl.ClassFull
	parentListed := func(p string) (*dump.Obj, string) {
		i := strings.LastIndex(strings.TrimSuffix(p, "/"), "/")
		parent, name := "/", strings.TrimPrefix(p, "/")
		if i > 0 {
			parent, name = p[:i], p[i+1:]
		} else if i == 0 {
			name = p[1:]
		}
		return libLookup(dp, parent), name
	}
	// `h5dump -g /missing` prints an empty block for a group it could not open (the error
	// goes to stderr): an empty path-addressed group block cannot be told from an empty group
	emptyBlock := map[*ddl.Node]bool{}
	for _, b := range e.file.Blocks {
		if b != e.file.Root && b.Kind == ddl.KindGroup && len(b.Children) == 0 {
			emptyBlock[b] = true
		}
	}
	visit := func(p string, n *ddl.Node) {
		if p == "" || emptyBlock[n] {
			return
		}
		if i := strings.LastIndex(p, "/"); i >= 0 && strings.HasPrefix(p[i+1:], "#") {
			return // "#1234": h5dump's label for an unlinked committed datatype, not a member
		}
		if !strings.HasPrefix(p, "/") {
			return // attribute-addressed or relative blocks of partial dumps
		}
		switch n.Kind {
		case ddl.KindGroup, ddl.KindDataset, ddl.KindDatatype:
		case ddl.KindSoftLink, ddl.KindExtLink, ddl.KindUDLink:
			// links are members of the reference report
			if po, name := parentListed(p); po != nil {
				found := false
				for _, ch := range po.Children {
					if ch == name {
						found = true
					}
				}
				if !found {
					k := map[string]string{ddl.KindSoftLink: "softlink", ddl.KindExtLink: "extlink", ddl.KindUDLink: "udlink"}[n.Kind]
					pp := p[:strings.LastIndex(p, "/")]
					if pp == "" {
						pp = "/"
					}
					c.Violation("member-missing:"+k+":"+groupStorage(sf, pp)+":"+filepath.Base(e.fileName)+":"+pp, wit(p, map[string]any{"ddl": e.name}))
				}
			}
			return
		default:
			return
		}
		c.Count("ddl_objects", 1)
		o := libLookup(dp, p)
		if o == nil {
			// silent omission only if the parent group was listed by the reader
			if po, _ := parentListed(p); po != nil || p == "/" {
				kind := strings.ToLower(n.Kind)
				if n.HardlinkTo != "" {
					kind += "-hardlink"
				}
				pp := p[:strings.LastIndex(p, "/")]
				if pp == "" {
					pp = "/"
				}
				c.Violation("member-missing:"+kind+":"+groupStorage(sf, pp)+":"+filepath.Base(e.fileName)+":"+pp, wit(p, map[string]any{"ddl": e.name}))
			} else {
				c.Count("ddl_objects_under_unlisted_parent", 1)
			}
			return
		}
		wantKind := map[string]string{ddl.KindGroup: "group", ddl.KindDataset: "dataset", ddl.KindDatatype: "datatype"}[n.Kind]
		if o.Kind != wantKind {
			c.Violation("kind:"+wantKind+"-as-"+o.Kind, wit(p, map[string]any{"ddl": e.name}))
			return
		}
		if n.HardlinkTo != "" {
			// content shown under the other path: the reader must present the same object there
			if t := libLookup(dp, n.HardlinkTo); t != nil && t.Kind == o.Kind {
				c.Count("ddl_hardlinks_compared", 1)
				if o.Kind == "group" {
					a, b := append([]string(nil), o.Children...), append([]string(nil), t.Children...)
					sort.Strings(a)
					sort.Strings(b)
					if strings.Join(a, "\x00") != strings.Join(b, "\x00") {
						c.Violation("hardlink-group-members-differ:"+groupStorage(sf, n.HardlinkTo), wit(p, map[string]any{"ddl": e.name, "target": n.HardlinkTo, "members_here": a, "members_at_target": b}))
					}
				} else if o.Kind == "dataset" && o.Addr != t.Addr {
					c.Violation("hardlink-different-object", wit(p, map[string]any{"ddl": e.name, "target": n.HardlinkTo}))
				}
			}
			return
		}
		// attributes
		c06Attrs(c, o, n, e, sf, wit)
		if n.Kind != ddl.KindDataset {
			return
		}
		t := e.file.ResolveType(n.Type)
		if t == nil {
			t = n.Type
		}
		tag := typeTag(t)
		// shape
		if n.Space != nil && o.MetaRes.OK() {
			switch n.Space.Kind {
			case "SIMPLE":
				if !eqU64s(o.Dims, n.Space.Dims) {
					c.Violation("dims:"+strconv.Itoa(len(n.Space.Dims))+"d", wit(p, map[string]any{"ddl": e.name, "reader": o.Dims, "reference": n.Space.Dims}))
				}
			case "SCALAR":
				if len(o.Dims) > 1 || (len(o.Dims) == 1 && o.Dims[0] != 1) {
					c.Violation("dims:scalar", wit(p, map[string]any{"ddl": e.name, "reader": o.Dims}))
				}
			}
		}
		// datatype class / size / sign / order
		if t != nil && o.MetaRes.OK() {
			if wc, ok := ddlClassToLib[t.Class]; ok {
				if t.Class == "string" && t.Variable {
					wc = 9 // variable-length strings are class 9 in the file
				}
				switch {
				case o.TypeClass != wc && sharedDatatype(sf, p):
					c.Violation("dtype:shared-datatype-not-resolved", wit(p, map[string]any{"ddl": e.name, "reader_class": o.TypeClass, "reference": t.Raw}))
				case o.TypeClass != wc:
					c.Violation("dtype:class:"+t.Class, wit(p, map[string]any{"ddl": e.name, "reader_class": o.TypeClass, "reference": t.Raw}))
				case t.Size > 0 && !t.Variable && int(o.TypeSize) != t.Size && t.Class != "reference":
					c.Violation("dtype:size:"+t.Class, wit(p, map[string]any{"ddl": e.name, "reader_size": o.TypeSize, "reference": t.Raw}))
				case t.Class == "integer" && (o.TypeBits>>3&1 == 1) != t.Signed:
					c.Violation("dtype:sign", wit(p, map[string]any{"ddl": e.name, "reader_bits": o.TypeBits, "reference": t.Raw}))
				case (t.Class == "integer" || t.Class == "float") && t.Order != "" && t.Order != "VAX" && (o.TypeBits&1 == 1) != (t.Order == "BE"):
					c.Violation("dtype:order", wit(p, map[string]any{"ddl": e.name, "reader_bits": o.TypeBits, "reference": t.Raw}))
				}
			}
		}
		if !full || !n.HasData || n.Subset != nil || !n.DataComplete() {
			return
		}
		c.Count("ddl_datasets_with_full_data", 1)
		store := strings.ToLower(n.Layout)
		for _, fl := range n.Filters {
			store += "+" + strings.ToLower(strings.Fields(fl + " ?")[0])
		}
		if store == "" {
			store = "layout?"
		}
		if sharedDatatype(sf, p) {
			store += "+shared-dtype"
		}
		if t != nil && t.Order == "VAX" {
			store += "+vax"
		}
		// values
		if o.ReadRes.OK() {
			var nums []ddl.Value
			if !flattenNums(n.Data, &nums) {
				c.Violation("values:number-for-"+tag, wit(p, map[string]any{"ddl": e.name, "why": "Read returned numbers for a dataset whose reference values are not numeric", "n": len(o.Read)}))
			} else if len(nums) != len(o.Read) {
				c.Violation("values:length:"+tag, wit(p, map[string]any{"ddl": e.name, "reader": len(o.Read), "reference": len(nums)}))
			} else {
				for i, dv := range nums {
					got := math.Float64frombits(o.Read[i])
					if !valueMatches(got, dv.Text, t) {
						// the key names the file and the dataset: wrong values anywhere else are another violation
						c.Violation("values:"+tag+":"+store+":"+e.fileName+":"+p, wit(p, map[string]any{"ddl": e.name, "index": i, "reader": got, "reference": dv.Text}))
						break
					}
				}
				c.Count("values_compared_with_ddl", int64(len(nums)))
			}
		}
		if o.StringsRes.OK() && t != nil {
			if t.Class != "string" {
				c.Violation("strings-for-"+tag, wit(p, map[string]any{"ddl": e.name, "n": len(o.Strings)}))
			} else if len(o.Strings) != len(n.Data) {
				c.Violation("strings:length", wit(p, map[string]any{"ddl": e.name, "reader": len(o.Strings), "reference": len(n.Data)}))
			} else {
				for i, dv := range n.Data {
					if dv.Kind == ddl.KindStr && trimPad(o.Strings[i]) != trimPad(string(dv.Bytes)) {
						c.Violation("strings:value", wit(p, map[string]any{"ddl": e.name, "index": i, "reader": o.Strings[i], "reference": string(dv.Bytes)}))
						break
					}
				}
				c.Count("strings_compared_with_ddl", int64(len(n.Data)))
			}
		}
		if o.CompoundRes.OK() && t != nil && t.Class == "compound" {
			if len(o.CompoundRaw) != len(n.Data) {
				c.Violation("compound:length", wit(p, map[string]any{"ddl": e.name, "reader": len(o.CompoundRaw), "reference": len(n.Data)}))
			} else {
			elems:
				for i, dv := range n.Data {
					if dv.Kind != ddl.KindCompound || len(dv.Elems) != len(t.Members) {
						continue
					}
					rec := o.CompoundRaw[i]
					for mi, m := range t.Members {
						lv, ok := rec[m.Name]
						if !ok {
							c.Violation("compound:member-missing", wit(p, map[string]any{"ddl": e.name, "index": i, "member": m.Name}))
							break elems
						}
						mv := dv.Elems[mi]
						mt := e.file.ResolveType(m.Type)
						if mt == nil {
							mt = m.Type
						}
						switch mv.Kind {
						case ddl.KindNum:
							got, isNum := toFloat(lv)
							if isNum && !valueMatches(got, mv.Text, mt) {
								c.Violation("compound:value:"+typeTag(mt), wit(p, map[string]any{"ddl": e.name, "index": i, "member": m.Name, "reader": fmt.Sprint(lv), "reference": mv.Text}))
								break elems
							}
						case ddl.KindStr:
							if s, ok := lv.(string); ok && trimPad(s) != trimPad(string(mv.Bytes)) {
								c.Violation("compound:value:string", wit(p, map[string]any{"ddl": e.name, "index": i, "member": m.Name, "reader": s, "reference": string(mv.Bytes)}))
								break elems
							}
						}
					}
				}
				c.Count("compound_records_compared_with_ddl", int64(len(n.Data)))
			}
		}
	}
	if e.file.Root != nil {
		e.file.Walk(visit)
	} else {
		for _, b := range e.file.Blocks {
			if b.Kind == ddl.KindGroup && len(b.Children) == 0 && e.class == ddl.ClassPartial {
				// `h5dump -g /missing` prints an empty block for a group it could not open
				// (the error goes to stderr): cannot be told from an empty group
				continue
			}
			b.Walk("", visit)
		}
	}
}

func toFloat(v interface{}) (float64, bool) {
	switch x := v.(type) {
	case int8:
		return float64(x), true
	case int16:
		return float64(x), true
	case int32:
		return float64(x), true
	case int64:
		return float64(x), true
	case uint8:
		return float64(x), true
	case uint16:
		return float64(x), true
	case uint32:
		return float64(x), true
	case uint64:
		return float64(x), true
	case float32:
		return float64(x), true
	case float64:
		return x, true
	}
	return 0, false
}

func c06Attrs(c *ev.Ctx, o *dump.Obj, n *ddl.Node, e *ddlEntry, sf *specdec.File, wit func(string, any) map[string]any) {
	want := n.Attributes()
	if len(want) == 0 && len(o.Attrs) == 0 {
		return
	}
	if o.Kind == "datatype" {
		return // the reader offers no attribute call for committed datatypes: nothing returned, nothing judged
	}
	if !o.AttrsRes.OK() {
		return // an error is an accepted answer
	}
	have := map[string]*dump.Attr{}
	for i := range o.Attrs {
		have[o.Attrs[i].Name] = &o.Attrs[i]
	}
	// DDLs produced with options that omit attributes cannot be told apart from objects
	// without attributes, so only "reference lists it, reader does not" is judged.
	for _, an := range want {
		a, ok := have[an.Name]
		if !ok {
			// keyed by the object: a listed finding names the objects it concerns, an attribute
			// that goes missing anywhere else is a new violation
			c.Violation("attr-missing:"+map[bool]string{true: "root-group", false: o.Kind}[o.Path == "/"]+":"+attrStorage(sf, o.Path)+":"+filepath.Base(e.fileName)+":"+o.Path, wit(o.Path+"@"+an.Name, map[string]any{"ddl": e.name, "reader_attrs": len(o.Attrs), "reference_attrs": len(want)}))
			continue
		}
		c.Count("ddl_attributes", 1)
		t := e.file.ResolveType(an.Type)
		if t == nil {
			t = an.Type
		}
		tag := typeTag(t)
		if !a.ValueRes.OK() || !an.HasData || !an.DataComplete() {
			continue
		}
		switch {
		case a.HasStr:
			if t != nil && t.Class != "string" {
				c.Violation("attr-value:string-for-"+tag, wit(o.Path+"@"+an.Name, map[string]any{"ddl": e.name}))
				continue
			}
			if len(a.Strs) != len(an.Data) {
				c.Violation("attr-value:length:string", wit(o.Path+"@"+an.Name, map[string]any{"ddl": e.name, "reader": len(a.Strs), "reference": len(an.Data)}))
				continue
			}
			for i, dv := range an.Data {
				if dv.Kind == ddl.KindStr && trimPad(a.Strs[i]) != trimPad(string(dv.Bytes)) {
					c.Violation("attr-value:string", wit(o.Path+"@"+an.Name, map[string]any{"ddl": e.name, "index": i, "reader": a.Strs[i], "reference": string(dv.Bytes)}))
					break
				}
			}
		case len(a.Nums) > 0:
			var nums []ddl.Value
			if !flattenNums(an.Data, &nums) {
				c.Violation("attr-value:number-for-"+tag, wit(o.Path+"@"+an.Name, map[string]any{"ddl": e.name}))
				continue
			}
			if len(nums) != len(a.Nums) {
				c.Violation("attr-value:length:"+tag, wit(o.Path+"@"+an.Name, map[string]any{"ddl": e.name, "reader": len(a.Nums), "reference": len(nums)}))
				continue
			}
			for i, dv := range nums {
				want, isInt, wi, wu, ok := parseDDLNum(dv.Text)
				if !ok {
					continue
				}
				bad := false
				if isInt && a.IsInt {
					bad = !(a.Ints[i] == wi || a.Uints[i] == wu) || (wi < 0) != (a.Nums[i] < 0)
				} else {
					_ = want
					bad = !valueMatches(a.Nums[i], dv.Text, t)
				}
				if bad {
					c.Violation("attr-value:"+tag+":"+e.fileName+":"+o.Path+"@"+an.Name, wit(o.Path+"@"+an.Name, map[string]any{"ddl": e.name, "index": i, "reader": a.Value, "reference": dv.Text}))
					break
				}
			}
			c.Count("attribute_values_compared_with_ddl", int64(len(nums)))
		}
	}
}

// c06VsDecoder: numeric values returned by the reader equal the independent decoder's.
func c06VsDecoder(c *ev.Ctx, dp *dump.Dump, sf *specdec.File, wit func(string, any) map[string]any) {
	for _, o := range dp.Objects {
		if o.Kind != "dataset" || !o.ReadRes.OK() {
			continue
		}
		so, err := sf.Resolve(o.Path)
		if err != nil || so == nil || so.Type == nil || so.Kind != "dataset" {
			continue
		}
		t := so.Type
		if t.BitField[0]&0x40 != 0 {
			continue // VAX byte order: not decoded by this comparison
		}
		if (t.Class != 0 && t.Class != 1) || (t.Class == 1 && t.Size != 4 && t.Size != 8) {
			if t.Class > 1 {
				c.Violation("decoder-diff:number-for-class"+strconv.Itoa(t.Class), wit(o.Path, map[string]any{"n": len(o.Read)}))
			}
			continue
		}
		if len(so.External) > 0 && len(o.Read) > 0 {
			// the element values are in other files (External Data Files message) which the
			// library does not open: whatever numbers it returns did not come from the data
			c.Violation("decoder-diff:values-for-external-storage:"+o.Path, wit(o.Path, map[string]any{"external_files": len(so.External), "returned": len(o.Read), "first": math.Float64frombits(o.Read[0])}))
			continue
		}
		raw, err := sf.ReadData(so)
		if err != nil {
			continue
		}
		es := int(t.Size)
		if es == 0 || len(raw)/es != len(o.Read) {
			c.Violation("decoder-diff:length", wit(o.Path, map[string]any{"reader": len(o.Read), "decoder_elements": len(raw) / max(es, 1)}))
			continue
		}
		tag := "int"
		if t.Class == 1 {
			tag = "float"
		} else if !t.Signed {
			tag = "uint"
		}
		tag += strconv.Itoa(es * 8)
		if t.BigEndian {
			tag += "be"
		}
		if t.Class == 0 && (int(t.Precision) != es*8 || t.BitOffset != 0) {
			tag += ":partial-precision"
		}
		for i := 0; i < len(o.Read); i++ {
			b := raw[i*es : (i+1)*es]
			var u uint64
			for j := 0; j < es; j++ {
				if t.BigEndian {
					u = u<<8 | uint64(b[j])
				} else {
					u |= uint64(b[j]) << (8 * j)
				}
			}
			var want float64
			switch {
			case t.Class == 1 && es == 4:
				want = float64(math.Float32frombits(uint32(u)))
			case t.Class == 1:
				want = math.Float64frombits(u)
			case t.Signed:
				shift := uint(64 - 8*es)
				want = float64(int64(u<<shift) >> shift)
			default:
				want = float64(u)
			}
			got := math.Float64frombits(o.Read[i])
			if got != want && !(math.IsNaN(got) && math.IsNaN(want)) {
				c.Violation("decoder-diff:values:"+tag, wit(o.Path, map[string]any{"index": i, "reader": got, "decoder": want}))
				break
			}
		}
		c.Count("values_compared_with_decoder", int64(len(o.Read)))
	}
}

// c06AttrsVsDecoder: variable-length string attributes (an array of references into global
// heap collections) must come back element by element as the decoder resolves them.
func c06AttrsVsDecoder(c *ev.Ctx, dp *dump.Dump, sf *specdec.File, wit func(string, any) map[string]any) {
	for _, o := range dp.Objects {
		if !o.AttrsRes.OK() || len(o.Attrs) == 0 {
			continue
		}
		so, err := sf.Resolve(o.Path)
		if err != nil || so == nil {
			continue
		}
		byName := map[string]*specdec.Attr{}
		for i := range so.Attrs {
			byName[so.Attrs[i].Name] = &so.Attrs[i]
		}
		for _, a := range o.Attrs {
			sa := byName[a.Name]
			if sa == nil || !a.ValueRes.OK() || !a.HasStr || sa.Type == nil || sa.Type.Class != 9 || !sa.Type.VLenIsString {
				continue
			}
			els, verr := sf.VLenElements(sa.Raw, sa.Type)
			if verr != nil {
				continue
			}
			c.Count("vlen_string_attributes_compared_with_decoder", 1)
			if len(els) != len(a.Strs) {
				c.Violation("decoder-diff:attr-vlen-string:length", wit(o.Path+"@"+a.Name, map[string]any{"reader": len(a.Strs), "decoder": len(els)}))
				continue
			}
			for i := range els {
				want := strings.TrimRight(string(els[i]), "\x00")
				if got := strings.TrimRight(a.Strs[i], "\x00"); got != want {
					c.Violation("decoder-diff:attr-vlen-string:element", wit(o.Path+"@"+a.Name, map[string]any{"index": i, "reader": got, "decoder": want, "elements": len(els)}))
					break
				}
			}
		}
	}
}

var C06 = &ev.Property{
	ID:    "C06",
	Level: "exploration",
	Rule: "one case per file of the bundled reference corpus (testdata/*.h5, testdata/hdf5_official, testdata/reference, testdata/c-library-corpus; the corpus is enumerated completely in both tiers): the file is opened with the library's reader and dumped completely (Walk, Info, Read, ReadStrings, ReadCompound, Attributes, ReadValue); what the reader returned without error is compared (1) with every h5dump DDL of testdata/hdf5_official/ddl that names the file (members incl. links, kinds, shapes, datatype class/size/sign/order, element values with %g tolerance for floats, strings, compound members, attribute names and values; only complete dumps are compared value-wise) and (2) with the independent decoder's values for every numeric dataset and every variable-length string attribute (element by element through the global heap); numbers returned for a dataset whose values are stored in external files (which the library does not open) are a violation. " +
		"distinct = file; a file is non-trivial when it is non-empty.",
	Assumptions: []string{
		"h5dump prints floating point with 6 significant digits: float comparisons allow a relative error of 1e-5, integers must be exact",
		"errors returned by the reader are accepted answers; a missing member is judged only when its parent group was listed by the reader",
		"DDL files produced with options that omit attributes cannot be told from objects without attributes: extra attributes in the reader are not judged",
	},
	Cases:      c06Cases,
	Run:        c06Run,
	Floor:      func(tier string) int64 { return 300 },
	Exhaustive: func(tier string) bool { return true },
	ASLimit:    6 << 30,
	CPUPerCase: 60,
}
