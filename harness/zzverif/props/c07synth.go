package props

import (
	"encoding/binary"
	"fmt"
	"os"
	"path/filepath"
	"strings"

	"github.com/scigolib/hdf5/internal/zzverif/ref"
)

// Structural inputs for C07: small, checksum-correct files built byte by byte (no library
// code involved) whose hostility is their shape, not a corrupted field: datatypes nested
// many levels deep (compound v1/v2/v3, array, variable-length), very wide compounds, long
// chains of nested groups. Field corruptions and random mutations of existing files never
// produce these shapes.

const c07Undef = ^uint64(0)

func le16(v int) []byte { b := make([]byte, 2); binary.LittleEndian.PutUint16(b, uint16(v)); return b }
func le32(v int) []byte { b := make([]byte, 4); binary.LittleEndian.PutUint32(b, uint32(v)); return b }
func le64(v uint64) []byte {
	b := make([]byte, 8)
	binary.LittleEndian.PutUint64(b, v)
	return b
}

// synthInt32 is the 12-byte datatype message of a little-endian signed 32-bit integer.
func synthInt32() []byte {
	return []byte{0x10, 0x08, 0, 0, 4, 0, 0, 0, 0, 0, 32, 0}
}

// synthNested wraps base (a datatype message of `size` bytes per element) depth times.
// kind: cmp1 cmp2 cmp3 (compound of one member, version 1/2/3), cmp3lib (the library's own version 3 layout), arr (array [1] v3),
// vlen (sequence), wide3 (one compound v3 of `depth` int32 members, no nesting).
func synthNested(kind string, depth int) (dt []byte, size int) {
	dt, size = synthInt32(), 4
	if kind == "wide3" {
		var props []byte
		n := depth
		total := 4 * n
		offW := 1
		switch {
		case total >= 1<<16:
			offW = 4
		case total >= 1<<8:
			offW = 2
		}
		for i := 0; i < n; i++ {
			props = append(props, []byte(fmt.Sprintf("m%d\x00", i))...)
			o := make([]byte, 4)
			binary.LittleEndian.PutUint32(o, uint32(4*i))
			props = append(props, o[:offW]...)
			props = append(props, synthInt32()...)
		}
		hd := []byte{0x36, byte(n), byte(n >> 8), 0}
		return append(append(hd, le32(total)...), props...), total
	}
	for d := 0; d < depth; d++ {
		var out []byte
		switch kind {
		case "cmp3":
			out = append([]byte{0x36, 1, 0, 0}, le32(size)...)
			out = append(out, 'm', 0)
			out = append(out, 0) // offset, one byte (size < 256)
			out = append(out, dt...)
		case "cmp3lib":
			// version 3 as this library writes and reads it (member count in front of the
			// member list, four-byte member offsets)
			out = append([]byte{0x36, 1, 0, 0}, le32(size)...)
			out = append(out, le32(1)...)
			out = append(out, 'm', 0)
			out = append(out, le32(0)...)
			out = append(out, dt...)
		case "cmp2":
			out = append([]byte{0x26, 1, 0, 0}, le32(size)...)
			out = append(out, 'm', 0, 0, 0, 0, 0, 0, 0) // name padded to 8
			out = append(out, le32(0)...)
			out = append(out, dt...)
		case "cmp1":
			out = append([]byte{0x16, 1, 0, 0}, le32(size)...)
			out = append(out, 'm', 0, 0, 0, 0, 0, 0, 0)
			out = append(out, le32(0)...)              // offset
			out = append(out, 0, 0, 0, 0)              // dimensionality + reserved
			out = append(out, make([]byte, 4+4+16)...) // permutation, reserved, 4 dim sizes
			out = append(out, dt...)
		case "arr":
			out = append([]byte{0x3A, 0, 0, 0}, le32(size)...)
			out = append(out, 1)
			out = append(out, le32(1)...)
			out = append(out, dt...)
		case "vlen":
			out = append([]byte{0x19, 0, 0, 0}, le32(16)...)
			out = append(out, dt...)
			size = 16
		}
		dt = out
	}
	return dt, size
}

func synthMsg(typ int, body []byte) []byte {
	out := []byte{byte(typ)}
	out = append(out, le16(len(body))...)
	out = append(out, 0)
	return append(out, body...)
}

func synthOHDR(msgs ...[]byte) []byte {
	var body []byte
	for _, m := range msgs {
		body = append(body, m...)
	}
	out := []byte{'O', 'H', 'D', 'R', 2, 0x02}
	out = append(out, le32(len(body))...)
	out = append(out, body...)
	return append(out, le32(int(ref.Lookup3(out, 0)))...)
}

func synthAttr(name string, dt []byte, size int) []byte {
	ds := []byte{2, 0, 0, 0} // dataspace v2, scalar
	body := []byte{3, 0}
	body = append(body, le16(len(name)+1)...)
	body = append(body, le16(len(dt))...)
	body = append(body, le16(len(ds))...)
	body = append(body, 0)
	body = append(body, name...)
	body = append(body, 0)
	body = append(body, dt...)
	body = append(body, ds...)
	body = append(body, make([]byte, size)...)
	return synthMsg(0x0C, body)
}

func synthLinkInfo() []byte {
	return synthMsg(0x02, append(append([]byte{0, 0}, le64(c07Undef)...), le64(c07Undef)...))
}

func synthLink(name string, addr uint64) []byte {
	body := []byte{1, 0, byte(len(name))}
	body = append(body, name...)
	return synthMsg(0x06, append(body, le64(addr)...))
}

// synthFile lays the object headers out behind a version 2 superblock; hdrs[0] is the root.
// Object i is placed at addrs[i] (computed by the caller through synthAddrs).
func synthFile(hdrs [][]byte) []byte {
	sb := []byte{0x89, 'H', 'D', 'F', '\r', '\n', 0x1a, '\n', 2, 8, 8, 0}
	total := uint64(48)
	for _, h := range hdrs {
		total += uint64(len(h))
	}
	sb = append(sb, le64(0)...)
	sb = append(sb, le64(c07Undef)...)
	sb = append(sb, le64(total)...)
	sb = append(sb, le64(48)...)
	sb = append(sb, le32(int(ref.Lookup3(sb, 0)))...)
	out := sb
	for _, h := range hdrs {
		out = append(out, h...)
	}
	return out
}

type c07SynthInput struct {
	name string
	data []byte
}

// c07SynthFamily returns the inputs of structural family k.
func c07SynthFamily(k int) (string, []c07SynthInput) {
	depths := []int{1, 4, 16, 24, 32, 48, 64, 128, 400, 1200}
	kinds := []string{"cmp3", "cmp3lib", "cmp2", "cmp1", "arr", "vlen", "wide3"}
	var out []c07SynthInput
	switch {
	case k < len(kinds): // nested datatype of an attribute on the root group
		kind := kinds[k]
		for _, d := range depths {
			if kind == "wide3" {
				d *= 4
			}
			dt, size := synthNested(kind, d)
			if len(dt)+size+64 > 60000 {
				continue
			}
			root := synthOHDR(synthLinkInfo(), synthAttr("a", dt, size))
			out = append(out, c07SynthInput{fmt.Sprintf("attr-datatype:%s:depth%d", kind, d), synthFile([][]byte{root})})
		}
		return "attr-datatype:" + kind, out
	case k < 2*len(kinds): // the same type as the datatype of a dataset (and of an attribute on it)
		kind := kinds[k-len(kinds)]
		for _, d := range depths {
			if kind == "wide3" {
				d *= 4
			}
			dt, size := synthNested(kind, d)
			if 2*len(dt)+size+128 > 60000 {
				continue
			}
			space := synthMsg(0x01, append([]byte{2, 1, 0, 1}, le64(2)...))
			layout := synthMsg(0x08, append(append([]byte{3, 1}, le64(c07Undef)...), le64(uint64(2*size))...))
			fill := synthMsg(0x05, []byte{3, 0x09})
			dsHdr := synthOHDR(space, synthMsg(0x03, dt), fill, layout, synthAttr("b", dt, size))
			root := synthOHDR(synthLinkInfo(), synthLink("d", 0))
			root = synthOHDR(synthLinkInfo(), synthLink("d", 48+uint64(len(root))))
			out = append(out, c07SynthInput{fmt.Sprintf("dataset-datatype:%s:depth%d", kind, d), synthFile([][]byte{root, dsHdr})})
		}
		return "dataset-datatype:" + kinds[k-len(kinds)], out
	case k == 2*len(kinds): // version 1 object headers with messages at the 16-bit edge of the size field
		for _, S := range []int{32768, 65512, 65520, 65521, 65524, 65528, 65529, 65532, 65535} {
			for _, order := range []int{0, 1, 2, 3} {
				nmsgs := 2
				if order >= 2 {
					nmsgs = 65535 // the declared number of messages at its maximum
				}
				msg := func(typ, size int, body []byte) []byte {
					out := append(le16(typ), le16(size)...)
					out = append(out, 0, 0, 0, 0)
					out = append(out, body...)
					for len(out)%8 != 0 {
						out = append(out, 0)
					}
					return out
				}
				big := msg(0, S, make([]byte, S)) // NIL message
				li := msg(2, 18, append(append([]byte{0, 0}, le64(c07Undef)...), le64(c07Undef)...))
				var msgs []byte
				if order%2 == 0 {
					msgs = append(append(msgs, big...), li...)
				} else {
					msgs = append(append(msgs, li...), big...)
				}
				hdr := []byte{1, 0}
				hdr = append(hdr, le16(nmsgs)...)
				hdr = append(hdr, le32(1)...)
				hdr = append(hdr, le32(len(msgs))...)
				hdr = append(hdr, 0, 0, 0, 0) // alignment of the first message
				hdr = append(hdr, msgs...)
				hdr = append(hdr, make([]byte, 4096)...) // readers fetch fixed-size prefixes
				out = append(out, c07SynthInput{fmt.Sprintf("v1-header:message-size%d:order%d", S, order), synthFile([][]byte{hdr})})
			}
		}
		return "v1-header:message-sizes", out
	case k == 2*len(kinds)+1: // several hard links from a group back to itself / to an ancestor
		for _, nback := range []int{1, 2, 3, 8} {
			// root with nback links to itself
			links := [][]byte{synthLinkInfo()}
			for j := 0; j < nback; j++ {
				links = append(links, synthLink(fmt.Sprintf("self%d", j), 48))
			}
			out = append(out, c07SynthInput{fmt.Sprintf("back-links:root-to-itself:%d", nback), synthFile([][]byte{synthOHDR(links...)})})
			// root -> child; child has nback links to the root and nback to itself
			child := []byte(nil)
			mk := func(childAddr uint64) ([]byte, []byte) {
				root := synthOHDR(synthLinkInfo(), synthLink("child", childAddr))
				cl := [][]byte{synthLinkInfo()}
				for j := 0; j < nback; j++ {
					cl = append(cl, synthLink(fmt.Sprintf("up%d", j), 48), synthLink(fmt.Sprintf("me%d", j), childAddr))
				}
				return root, synthOHDR(cl...)
			}
			root, _ := mk(0)
			root, child = mk(48 + uint64(len(root)))
			out = append(out, c07SynthInput{fmt.Sprintf("back-links:child-to-root-and-itself:%d", nback), synthFile([][]byte{root, child})})
		}
		return "back-links", out
	default: // chains of nested groups
		for _, d := range []int{4, 32, 200, 1000, 4000} {
			// every group header has the same length except the last (no link)
			last := synthOHDR(synthLinkInfo())
			mid := synthOHDR(synthLinkInfo(), synthLink("g", 0))
			hdrs := make([][]byte, d)
			for i := 0; i < d-1; i++ {
				hdrs[i] = synthOHDR(synthLinkInfo(), synthLink("g", 48+uint64((i+1)*len(mid))))
			}
			hdrs[d-1] = last
			out = append(out, c07SynthInput{fmt.Sprintf("group-chain:depth%d", d), synthFile(hdrs)})
			// and a chain that closes on itself
			hdrs[d-1] = synthOHDR(synthLinkInfo(), synthLink("g", 48))
			out = append(out, c07SynthInput{fmt.Sprintf("group-cycle:length%d", d), synthFile(hdrs)})
		}
		return "group-chain", out
	}
}

const c07SynthFamilies = 17

// C07SynthWrite writes every structural input into dir (debugging aid).
func C07SynthWrite(dir string) []string {
	var out []string
	for k := 0; k < c07SynthFamilies; k++ {
		_, ins := c07SynthFamily(k)
		for _, in := range ins {
			p := filepath.Join(dir, strings.ReplaceAll(in.name, ":", "_")+".h5")
			_ = os.WriteFile(p, in.data, 0o644)
			out = append(out, p)
		}
	}
	return out
}
