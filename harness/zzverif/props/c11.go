package props

import (
	"bytes"
	"encoding/binary"
	"fmt"
	"strings"

	hdf5 "github.com/scigolib/hdf5"
	"github.com/scigolib/hdf5/internal/core"
	"github.com/scigolib/hdf5/internal/structures"
	"github.com/scigolib/hdf5/internal/zzverif/ev"
	"github.com/scigolib/hdf5/internal/zzverif/memio"
	"github.com/scigolib/hdf5/internal/zzverif/pools"
)

// C11 — every metadata encoder is inverted by its decoder, and encoding is deterministic.
//
// One case = one (pair, batch). For every generated well-formed value v:
//   bytes = Encode(v); Encode(v) again must give the same bytes (determinism);
//   Decode(bytes) must succeed and every field the element carries must equal v's
//   (after the normalisations the types document); where the decoded value can be fed
//   back, Encode(Decode(bytes)) must reproduce bytes.

type c11Pair struct {
	name string
	run  func(c *ev.Ctx, r *ev.Rand, fail func(sym string, detail any)) string // returns a descriptor of the value
}

func u64s(r *ev.Rand, n int, pool []uint64) []uint64 {
	out := make([]uint64, n)
	for i := range out {
		out[i] = pool[r.Intn(len(pool))]
		if r.Chance(1, 3) {
			out[i] = uint64(r.Range(1, 100000))
		}
	}
	return out
}

func interestingAddr(r *ev.Rand) uint64 {
	switch r.Intn(6) {
	case 0:
		return 0
	case 1:
		return 0xFFFFFFFFFFFFFFFF
	case 2:
		return uint64(r.Uint32())
	case 3:
		return 1<<32 + uint64(r.Uint32())
	default:
		return r.Uint64() >> uint(r.Intn(40))
	}
}

func eqU64s(a, b []uint64) bool {
	if len(a) != len(b) {
		return false
	}
	for i := range a {
		if a[i] != b[i] {
			return false
		}
	}
	return true
}

func randName(r *ev.Rand, n int) string {
	const al = "abcdefghijklmnopqrstuvwxyzABCDEFGHIJKLMNOPQRSTUVWXYZ0123456789_-. "
	b := make([]byte, n)
	for i := range b {
		b[i] = al[r.Intn(len(al))]
	}
	if n > 3 && r.Chance(1, 4) {
		copy(b, "é") // 2-byte UTF-8
	}
	return string(b)
}

func nameLen(r *ev.Rand) int {
	switch r.Intn(8) {
	case 0:
		return 1
	case 1:
		return 255
	case 2:
		return 256
	case 3:
		return 65535
	case 4:
		return 7 + r.Intn(3)
	default:
		return r.Range(1, 40)
	}
}

// ---- datatype value generator (well-formed DatatypeMessage values the encoders accept)

func genBasicDT(r *ev.Rand) *core.DatatypeMessage {
	switch r.Intn(4) {
	case 0, 1:
		bf := uint32(0)
		if r.Bool() {
			bf |= 0x08 // signed
		}
		if r.Chance(1, 4) {
			bf |= 0x01 // big-endian
		}
		return &core.DatatypeMessage{Class: core.DatatypeFixed, Version: 1, Size: []uint32{1, 2, 4, 8}[r.Intn(4)], ClassBitField: bf}
	case 2:
		bf := uint32(0)
		if r.Chance(1, 4) {
			bf |= 0x01
		}
		return &core.DatatypeMessage{Class: core.DatatypeFloat, Version: 1, Size: []uint32{4, 8}[r.Intn(2)], ClassBitField: bf}
	default:
		return &core.DatatypeMessage{Class: core.DatatypeString, Version: 1, Size: uint32(r.Range(1, 300)), ClassBitField: uint32(r.Intn(3)) | uint32(r.Intn(2))<<4}
	}
}

func dtHeaderEqual(a, b *core.DatatypeMessage) string {
	switch {
	case a.Class != b.Class:
		return fmt.Sprintf("class %d != %d", a.Class, b.Class)
	case a.Version != b.Version:
		return fmt.Sprintf("version %d != %d", a.Version, b.Version)
	case a.Size != b.Size:
		return fmt.Sprintf("size %d != %d", a.Size, b.Size)
	case a.ClassBitField != b.ClassBitField:
		return fmt.Sprintf("bitfield %06x != %06x", a.ClassBitField, b.ClassBitField)
	}
	return ""
}

// encDT encodes twice (determinism), decodes, compares header fields and re-encodes.
func roundDT(v *core.DatatypeMessage, fail func(string, any), kind string, propsCompared bool) []byte {
	b1, err := core.EncodeDatatypeMessage(v)
	if err != nil {
		fail("datatype:"+kind+":encode-error", map[string]any{"value": fmt.Sprintf("%+v", *v), "err": err.Error()})
		return nil
	}
	pools.Dirty(false) // the second encoding starts from differently used pool buffers
	b2, _ := core.EncodeDatatypeMessage(v)
	if !bytes.Equal(b1, b2) {
		fail("datatype:"+kind+":nondeterministic", fmt.Sprintf("%x vs %x", b1, b2))
	}
	d, err := core.ParseDatatypeMessage(b1)
	if err != nil {
		fail("datatype:"+kind+":decode-error", map[string]any{"bytes": fmt.Sprintf("%x", b1), "err": err.Error()})
		return b1
	}
	if msg := dtHeaderEqual(v, d); msg != "" {
		fail("datatype:"+kind+":field", map[string]any{"value": fmt.Sprintf("%+v", *v), "decoded": fmt.Sprintf("%+v", *d), "why": msg, "bytes": fmt.Sprintf("%x", b1)})
		return b1
	}
	if propsCompared && !bytes.Equal(v.Properties, d.Properties) {
		fail("datatype:"+kind+":properties", map[string]any{"value_props": fmt.Sprintf("%x", v.Properties), "decoded_props": fmt.Sprintf("%x", d.Properties)})
		return b1
	}
	b3, err := core.EncodeDatatypeMessage(d)
	if err != nil || !bytes.Equal(b3, b1) {
		fail("datatype:"+kind+":reencode", map[string]any{"bytes": fmt.Sprintf("%x", b1), "reencoded": fmt.Sprintf("%x", b3), "err": fmt.Sprint(err)})
	}
	return b1
}

var c11Pairs = []c11Pair{
	{"superblock", func(c *ev.Ctx, r *ev.Rand, fail func(string, any)) string {
		v := &core.Superblock{Version: []uint8{0, 2, 3}[r.Intn(3)], OffsetSize: 8, LengthSize: 8, Endianness: binary.LittleEndian,
			BaseAddress: 0, RootGroup: interestingAddr(r), SuperExtension: 0}
		if r.Chance(1, 4) {
			v.BaseAddress = uint64(512 << uint(r.Intn(4)))
		}
		if r.Chance(1, 4) && v.Version != 0 {
			v.SuperExtension = uint64(r.Range(48, 1<<20))
		}
		if v.Version == 0 {
			v.RootBTreeAddr, v.RootHeapAddr = interestingAddr(r), interestingAddr(r)
		}
		eof := uint64(r.Range(96, 1<<30))
		m1, m2 := memio.New(0), memio.New(0)
		if err := v.WriteTo(m1, eof); err != nil {
			fail("superblock:encode-error", err.Error())
			return ""
		}
		pools.Dirty(false) // the second encoding starts from differently used pool buffers
		_ = v.WriteTo(m2, eof)
		if !bytes.Equal(m1.Data, m2.Data) {
			fail("superblock:nondeterministic", "")
		}
		d, err := core.ReadSuperblock(m1)
		if err != nil {
			fail("superblock:decode-error", map[string]any{"v": v.Version, "err": err.Error(), "bytes": fmt.Sprintf("%x", m1.Data)})
			return ""
		}
		normExt := func(x uint64) uint64 { // 0 is written as UNDEF by WriteTo (documented)
			if x == 0 {
				return ^uint64(0)
			}
			return x
		}
		diff := ""
		switch {
		case d.Version != v.Version:
			diff = "Version"
		case d.OffsetSize != 8 || d.LengthSize != 8:
			diff = "OffsetSize/LengthSize"
		case d.RootGroup != v.RootGroup:
			diff = "RootGroup"
		case d.BaseAddress != v.BaseAddress:
			diff = "BaseAddress"
		case v.Version != 0 && normExt(d.SuperExtension) != normExt(v.SuperExtension):
			diff = "SuperExtension"
		case v.Version == 0 && (d.RootBTreeAddr != v.RootBTreeAddr || d.RootHeapAddr != v.RootHeapAddr):
			diff = "RootBTreeAddr/RootHeapAddr"
		case d.Endianness != binary.LittleEndian:
			diff = "Endianness"
		}
		if diff != "" {
			fail(fmt.Sprintf("superblock:field(%s):v%d", diff, v.Version), map[string]any{"value": fmt.Sprintf("%+v", *v), "decoded": fmt.Sprintf("%+v", *d)})
		}
		// the EOF address is part of the element: check it at its specified offset
		off := 28
		if v.Version == 0 {
			off = 40
		}
		if got := binary.LittleEndian.Uint64(m1.Data[off:]); got != eof {
			fail(fmt.Sprintf("superblock:field(EOF):v%d", v.Version), fmt.Sprintf("eof %d stored as %d", eof, got))
		}
		return fmt.Sprintf("sb v%d base=%d ext=%d", v.Version, v.BaseAddress, v.SuperExtension)
	}},
	{"objectheader", func(c *ev.Ctx, r *ev.Rand, fail func(string, any)) string {
		ver := uint8(1 + r.Intn(2))
		w := &core.ObjectHeaderWriter{Version: ver, RefCount: 1}
		n := r.Range(1, 6)
		budget := 250
		types := []core.MessageType{core.MsgDataspace, core.MsgDatatype, core.MsgDataLayout, core.MsgAttribute, core.MsgLinkMessage, core.MsgLinkInfo, core.MsgSymbolTable, core.MsgFilterPipeline, core.MsgAttributeInfo}
		for i := 0; i < n; i++ {
			l := r.Range(1, 60)
			if ver == 1 {
				l = (l + 7) &^ 7 // v1 message data is stored in multiples of 8 bytes
			}
			if ver == 2 && budget-(4+l) < 0 {
				break
			}
			budget -= 4 + l
			w.Messages = append(w.Messages, core.MessageWriter{Type: types[r.Intn(len(types))], Data: r.Bytes(l)})
		}
		if ver == 1 && r.Chance(1, 12) {
			// a version 1 message at the upper edge of its 16-bit size field, in front of or
			// between the others
			big := core.MessageWriter{Type: core.MsgAttribute, Data: r.Bytes([]int{65512, 65520, 65528, 65529, 65530, 65532, 65535}[r.Intn(7)])}
			at := r.Intn(len(w.Messages) + 1)
			if at == len(w.Messages) && len(w.Messages) > 0 && r.Bool() {
				at = 0
			}
			w.Messages = append(w.Messages[:at], append([]core.MessageWriter{big}, w.Messages[at:]...)...)
		}
		if ver == 2 && r.Chance(1, 6) { // fill the 255-byte chunk exactly
			used := 0
			for _, m := range w.Messages {
				used += 4 + len(m.Data)
			}
			if 255-used >= 5 {
				w.Messages = append(w.Messages, core.MessageWriter{Type: core.MsgAttribute, Data: r.Bytes(255 - used - 4)})
			}
		}
		addr := uint64(r.Range(0, 4096)) &^ 7
		if ver == 1 && addr == 0 {
			addr = 8
		}
		m1, m2 := memio.New(0), memio.New(0)
		sz, err := w.WriteTo(m1, addr)
		if err != nil {
			fail(fmt.Sprintf("objectheader:v%d:encode-error", ver), err.Error())
			return ""
		}
		pools.Dirty(false) // the second encoding starts from differently used pool buffers
		_, _ = w.WriteTo(m2, addr)
		if !bytes.Equal(m1.Data, m2.Data) {
			fail(fmt.Sprintf("objectheader:v%d:nondeterministic", ver), "")
		}
		if sz != w.Size() || uint64(len(m1.Data)) != addr+sz {
			fail(fmt.Sprintf("objectheader:v%d:size", ver), fmt.Sprintf("WriteTo returned %d, Size() %d, bytes written up to %d (addr %d)", sz, w.Size(), len(m1.Data), addr))
		}
		// a reader needs bytes after the header to exist (it reads fixed-size prefixes)
		m1.Data = append(m1.Data, make([]byte, 64)...)
		d, err := core.ReadObjectHeader(m1, addr, testSB())
		if err != nil {
			fail(fmt.Sprintf("objectheader:v%d:decode-error", ver), map[string]any{"err": err.Error(), "bytes": fmt.Sprintf("%x", m1.Data[addr:addr+sz])})
			return ""
		}
		if d.Version != ver {
			fail(fmt.Sprintf("objectheader:v%d:field(Version)", ver), d.Version)
		}
		var got []*core.HeaderMessage
		for _, m := range d.Messages {
			if m.Type != core.MsgNil {
				got = append(got, m)
			}
		}
		if len(got) != len(w.Messages) {
			fail(fmt.Sprintf("objectheader:v%d:field(message count)", ver), fmt.Sprintf("%d decoded, %d encoded", len(got), len(w.Messages)))
			return ""
		}
		for i, m := range w.Messages {
			if got[i].Type != m.Type || !bytes.Equal(got[i].Data, m.Data) {
				fail(fmt.Sprintf("objectheader:v%d:field(message)", ver), fmt.Sprintf("message %d: type %d/%d, data %x / %x", i, got[i].Type, m.Type, got[i].Data, m.Data))
				break
			}
		}
		return fmt.Sprintf("ohdr v%d msgs=%d", ver, len(w.Messages))
	}},
	{"datatype-basic", func(c *ev.Ctx, r *ev.Rand, fail func(string, any)) string {
		v := genBasicDT(r)
		kind := map[core.DatatypeClass]string{core.DatatypeFixed: "fixed", core.DatatypeFloat: "float", core.DatatypeString: "string"}[v.Class]
		roundDT(v, fail, kind, false)
		return fmt.Sprintf("%s size=%d bf=%x", kind, v.Size, v.ClassBitField)
	}},
	{"datatype-reference-opaque", func(c *ev.Ctx, r *ev.Rand, fail func(string, any)) string {
		if r.Bool() {
			v := &core.DatatypeMessage{Class: core.DatatypeReference, Version: 1, Size: []uint32{8, 12}[r.Intn(2)], ClassBitField: uint32(r.Intn(2))}
			roundDT(v, fail, "reference", false)
			return fmt.Sprintf("reference size=%d", v.Size)
		}
		tag := randName(r, r.Range(1, 40))
		v := &core.DatatypeMessage{Class: core.DatatypeOpaque, Version: 1, Size: uint32(r.Range(1, 500)), Properties: []byte(tag)}
		b, err := core.EncodeDatatypeMessage(v)
		if err != nil {
			fail("datatype:opaque:encode-error", err.Error())
			return ""
		}
		d, err := core.ParseDatatypeMessage(b)
		if err != nil {
			fail("datatype:opaque:decode-error", err.Error())
			return ""
		}
		// the tag comes back NUL-padded to a multiple of 8 and its padded length in the bit field
		if d.Class != core.DatatypeOpaque || d.Size != v.Size || strings.TrimRight(string(d.Properties), "\x00") != tag || int(d.ClassBitField&0xFF) != (len(tag)+7)/8*8 {
			fail("datatype:opaque:field", map[string]any{"tag": tag, "decoded": fmt.Sprintf("%+v", *d)})
		}
		return fmt.Sprintf("opaque size=%d taglen=%d", v.Size, len(tag))
	}},
	{"datatype-compound", func(c *ev.Ctx, r *ev.Rand, fail func(string, any)) string {
		var gen func(depth int) ([]core.CompoundFieldDef, uint32)
		gen = func(depth int) ([]core.CompoundFieldDef, uint32) {
			n := r.Range(1, 6)
			var fs []core.CompoundFieldDef
			off := uint32(0)
			for i := 0; i < n; i++ {
				var t *core.DatatypeMessage
				if depth < 2 && r.Chance(1, 10) {
					// a nested compound made of string members with one-character names (the
					// smallest possible member encodings), usually followed by siblings
					var sub []core.CompoundFieldDef
					so := uint32(0)
					for k, nm := 0, r.Range(2, 9); k < nm; k++ {
						var st *core.DatatypeMessage
						for try := 0; try < 60 && st == nil; try++ {
							b := genBasicDT(r)
							if b.Class == core.DatatypeString {
								e2, _ := core.EncodeDatatypeMessage(b)
								st, _ = core.ParseDatatypeMessage(e2)
							}
						}
						if st == nil {
							break
						}
						sub = append(sub, core.CompoundFieldDef{Name: string(rune('a' + k)), Offset: so, Type: st})
						so += st.Size
					}
					if len(sub) > 0 {
						if enc, err := core.EncodeCompoundDatatypeV3(so, sub); err == nil {
							t, _ = core.ParseDatatypeMessage(enc)
						}
					}
				} else if depth < 2 && r.Chance(1, 5) {
					sub, sz := gen(depth + 1)
					enc, err := core.EncodeCompoundDatatypeV3(sz, sub)
					if err != nil {
						fail("datatype:compound:encode-error", err.Error())
						continue
					}
					t, _ = core.ParseDatatypeMessage(enc)
				} else if r.Chance(1, 6) {
					// member classes with property blocks of other lengths: time (2 bytes),
					// bit field (4), reference (none)
					switch r.Intn(3) {
					case 0:
						sz := []uint32{4, 8}[r.Intn(2)]
						t = &core.DatatypeMessage{Class: core.DatatypeTime, Version: 1, Size: sz, ClassBitField: uint32(r.Intn(2)), Properties: []byte{byte(sz * 8), 0}}
					case 1:
						sz := []uint32{1, 2, 4, 8}[r.Intn(4)]
						t = &core.DatatypeMessage{Class: core.DatatypeBitfield, Version: 1, Size: sz, ClassBitField: uint32(r.Intn(2)), Properties: []byte{0, 0, byte(sz * 8), 0}}
					default:
						t = &core.DatatypeMessage{Class: core.DatatypeReference, Version: 1, Size: 8}
					}
				} else {
					b := genBasicDT(r)
					enc, _ := core.EncodeDatatypeMessage(b)
					t, _ = core.ParseDatatypeMessage(enc)
				}
				if t == nil {
					continue
				}
				fs = append(fs, core.CompoundFieldDef{Name: randName(r, r.Range(1, 20)) + fmt.Sprint(i), Offset: off, Type: t})
				off += t.Size
				if r.Chance(1, 4) {
					off += uint32(r.Intn(8)) // padding between members
				}
			}
			if off == 0 {
				off = 1
			}
			// the member list need not be in layout order: one list in three is encoded in a
			// permuted order (offsets unchanged)
			if len(fs) > 1 && r.Chance(1, 3) {
				if r.Bool() {
					for i, j := 0, len(fs)-1; i < j; i, j = i+1, j-1 {
						fs[i], fs[j] = fs[j], fs[i]
					}
				} else {
					for i := len(fs) - 1; i > 0; i-- {
						j := r.Intn(i + 1)
						fs[i], fs[j] = fs[j], fs[i]
					}
				}
			}
			return fs, off
		}
		fields, size := gen(0)
		if len(fields) == 0 {
			return ""
		}
		// a string member followed by anything else in the encoding
		var flat []core.DatatypeClass
		var walk func(fs []core.CompoundFieldDef)
		walk = func(fs []core.CompoundFieldDef) {
			for _, f := range fs {
				if f.Type.Class == core.DatatypeCompound {
					if ct, err := core.ParseCompoundType(f.Type); err == nil {
						var sub []core.CompoundFieldDef
						for _, m := range ct.Members {
							sub = append(sub, core.CompoundFieldDef{Name: m.Name, Offset: m.Offset, Type: m.Type})
						}
						walk(sub)
						continue
					}
					flat = append(flat, core.DatatypeString) // undecodable nested part: same class of problem
					continue
				}
				flat = append(flat, f.Type.Class)
			}
		}
		walk(fields)
		stringNotLast := false
		for i, cl := range flat {
			if cl == core.DatatypeString && i != len(flat)-1 {
				stringNotLast = true
			}
		}
		origFail := fail
		fail = func(sym string, detail any) {
			if stringNotLast && (strings.Contains(sym, "decode-error") || strings.Contains(sym, "field") || strings.Contains(sym, "length") || strings.Contains(sym, "reencode")) {
				origFail("datatype:compound:string-member-not-last", map[string]any{"symptom": sym, "detail": detail})
				return
			}
			origFail(sym, detail)
		}
		v1 := r.Chance(1, 3)
		var enc []byte
		var err error
		kind := "compound-v3"
		if v1 {
			kind = "compound-v1"
			enc, err = core.EncodeCompoundDatatypeV1(size, fields)
		} else {
			enc, err = core.EncodeCompoundDatatypeV3(size, fields)
		}
		if err != nil {
			fail("datatype:"+kind+":encode-error", err.Error())
			return ""
		}
		var enc2 []byte
		if v1 {
			pools.Dirty(false) // the second encoding starts from differently used pool buffers
			enc2, _ = core.EncodeCompoundDatatypeV1(size, fields)
		} else {
			pools.Dirty(false) // the second encoding starts from differently used pool buffers
			enc2, _ = core.EncodeCompoundDatatypeV3(size, fields)
		}
		if !bytes.Equal(enc, enc2) {
			fail("datatype:"+kind+":nondeterministic", "")
		}
		dt, err := core.ParseDatatypeMessage(enc)
		if err != nil {
			fail("datatype:"+kind+":decode-error", err.Error())
			return ""
		}
		if dt.Class != core.DatatypeCompound || dt.Size != size {
			fail("datatype:"+kind+":field", fmt.Sprintf("class %d size %d, want compound size %d", dt.Class, dt.Size, size))
			return ""
		}
		if 8+len(dt.Properties) != len(enc) {
			fail("datatype:"+kind+":length", fmt.Sprintf("decoder consumed %d of %d bytes", 8+len(dt.Properties), len(enc)))
		}
		ct, err := core.ParseCompoundType(dt)
		if err != nil {
			fail("datatype:"+kind+":decode-error", map[string]any{"err": err.Error(), "bytes": fmt.Sprintf("%x", enc)})
			return ""
		}
		if len(ct.Members) != len(fields) {
			fail("datatype:"+kind+":field(member count)", fmt.Sprintf("%d members decoded, %d encoded", len(ct.Members), len(fields)))
			return ""
		}
		for i, f := range fields {
			m := ct.Members[i]
			if m.Name != f.Name || m.Offset != f.Offset {
				fail("datatype:"+kind+":field(member)", fmt.Sprintf("member %d: %q@%d decoded, %q@%d encoded", i, m.Name, m.Offset, f.Name, f.Offset))
				break
			}
			// a string type has no property bytes of its own (documented in parseMemberDatatype)
			propsEq := f.Type.Class == core.DatatypeString || bytes.Equal(f.Type.Properties, m.Type.Properties)
			if msg := dtHeaderEqual(f.Type, m.Type); msg != "" || !propsEq {
				fail("datatype:"+kind+":field(member type)", fmt.Sprintf("member %d (%s): %s; props %x / %x", i, f.Name, msg, f.Type.Properties, m.Type.Properties))
				break
			}
		}
		// through EncodeDatatypeMessage (compound branch)
		re, err := core.EncodeDatatypeMessage(dt)
		if err != nil || !bytes.Equal(re, enc) {
			fail("datatype:"+kind+":reencode", fmt.Sprint(err))
		}
		return fmt.Sprintf("%s members=%d size=%d", kind, len(fields), size)
	}},
	{"datatype-vlen", func(c *ev.Ctx, r *ev.Rand, fail func(string, any)) string {
		base := genBasicDT(r)
		bb, _ := core.EncodeDatatypeMessage(base)
		bf := uint32(0)
		if base.Class == core.DatatypeString {
			bf = 1 | uint32(r.Intn(3))<<4 | uint32(r.Intn(2))<<8
		}
		v := &core.DatatypeMessage{Class: core.DatatypeVarLen, Version: 1, Size: 16, ClassBitField: bf, Properties: bb}
		roundDT(v, fail, "vlen", true)
		if d, err := core.ParseDatatypeMessage(roundBytes(v)); err == nil {
			if d.IsVariableString() != (bf&0xF == 1) {
				fail("datatype:vlen:field(string flag)", fmt.Sprintf("IsVariableString=%v for bit field %x", d.IsVariableString(), bf))
			}
			if bd, err := core.ParseDatatypeMessage(d.Properties); err != nil || dtHeaderEqual(base, bd) != "" {
				fail("datatype:vlen:field(base type)", fmt.Sprintf("base %+v decoded %+v err %v", *base, bd, err))
			}
		}
		return fmt.Sprintf("vlen base class=%d size=%d bf=%x", base.Class, base.Size, bf)
	}},
	{"datatype-array-enum", func(c *ev.Ctx, r *ev.Rand, fail func(string, any)) string {
		base := &core.DatatypeMessage{Class: core.DatatypeFixed, Version: 1, Size: []uint32{1, 2, 4, 8}[r.Intn(4)], ClassBitField: uint32(r.Intn(2)) << 3}
		if r.Bool() {
			// array: the library has no array property decoder; the inverse used here is a
			// direct reading of the version-3 layout (ndims, dims[4 bytes], base type)
			if r.Bool() {
				base = genBasicDT(r)
			}
			bb, _ := core.EncodeDatatypeMessage(base)
			nd := r.Range(1, 5)
			dims := make([]uint64, nd)
			total := uint32(base.Size)
			for i := range dims {
				dims[i] = uint64(r.Range(1, 9))
				total *= uint32(dims[i])
			}
			enc, err := core.EncodeArrayDatatypeMessage(bb, dims, total)
			if err != nil {
				fail("datatype:array:encode-error", err.Error())
				return ""
			}
			pools.Dirty(false) // the second encoding starts from differently used pool buffers
			enc2, _ := core.EncodeArrayDatatypeMessage(bb, dims, total)
			if !bytes.Equal(enc, enc2) {
				fail("datatype:array:nondeterministic", "")
			}
			d, err := core.ParseDatatypeMessage(enc)
			if err != nil {
				fail("datatype:array:decode-error", err.Error())
				return ""
			}
			ok := d.Class == core.DatatypeArray && d.Size == total && len(d.Properties) >= 1+4*nd && int(d.Properties[0]) == nd
			if ok {
				for i := range dims {
					if uint64(binary.LittleEndian.Uint32(d.Properties[1+4*i:])) != dims[i] {
						ok = false
					}
				}
				if bd, err := core.ParseDatatypeMessage(d.Properties[1+4*nd:]); err != nil || dtHeaderEqual(base, bd) != "" {
					ok = false
				}
			}
			if !ok {
				fail("datatype:array:field", map[string]any{"dims": dims, "total": total, "decoded": fmt.Sprintf("%+v", *d)})
			}
			return fmt.Sprintf("array nd=%d base=%d/%d", nd, base.Class, base.Size)
		}
		bb, _ := core.EncodeDatatypeMessage(base)
		n := r.Range(1, 12)
		names := make([]string, n)
		values := make([]byte, 0, n*int(base.Size))
		for i := range names {
			names[i] = randName(r, r.Range(1, 18)) + fmt.Sprint(i)
			values = append(values, r.Bytes(int(base.Size))...)
		}
		enc, err := core.EncodeEnumDatatypeMessage(bb, names, values, base.Size)
		if err != nil {
			fail("datatype:enum:encode-error", err.Error())
			return ""
		}
		pools.Dirty(false) // the second encoding starts from differently used pool buffers
		enc2, _ := core.EncodeEnumDatatypeMessage(bb, names, values, base.Size)
		if !bytes.Equal(enc, enc2) {
			fail("datatype:enum:nondeterministic", "")
		}
		d, err := core.ParseDatatypeMessage(enc)
		if err != nil {
			fail("datatype:enum:decode-error", err.Error())
			return ""
		}
		ok := d.Class == core.DatatypeEnum && d.Size == base.Size && int(d.ClassBitField&0xFFFF) == n
		// direct reading of what the encoder laid out: base type, then (padded name, value) pairs
		p := d.Properties
		if ok {
			if bd, err := core.ParseDatatypeMessage(p); err != nil || dtHeaderEqual(base, bd) != "" {
				ok = false
			}
			p = p[len(bb):]
			for i := 0; ok && i < n; i++ {
				pl := (len(names[i]) + 1 + 7) / 8 * 8
				if len(p) < pl+int(base.Size) || strings.TrimRight(string(p[:pl]), "\x00") != names[i] || !bytes.Equal(p[pl:pl+int(base.Size)], values[i*int(base.Size):(i+1)*int(base.Size)]) {
					ok = false
					break
				}
				p = p[pl+int(base.Size):]
			}
		}
		if !ok {
			fail("datatype:enum:field", map[string]any{"names": names, "decoded": fmt.Sprintf("%+v", *d)})
		}
		return fmt.Sprintf("enum n=%d base=%d", n, base.Size)
	}},
	{"datatype-registry", func(c *ev.Ctx, r *ev.Rand, fail func(string, any)) string {
		types := hdf5.VerifRegistryTypes()
		t := types[r.Intn(len(types))]
		var opts []hdf5.DatasetOption
		switch {
		case t == hdf5.String:
			opts = append(opts, hdf5.WithStringSize(uint32(r.Range(1, 100))))
		case t >= 100 && t < 200:
			nd := r.Range(1, 3)
			dims := make([]uint64, nd)
			for i := range dims {
				dims[i] = uint64(r.Range(1, 6))
			}
			opts = append(opts, hdf5.WithArrayDims(dims))
		case t >= 200 && t < 300:
			n := r.Range(1, 6)
			names := make([]string, n)
			vals := make([]int64, n)
			for i := range names {
				names[i] = fmt.Sprintf("E%d", i)
				vals[i] = int64(i * 3)
			}
			opts = append(opts, hdf5.WithEnumValues(names, vals))
		case t == hdf5.Opaque:
			opts = append(opts, hdf5.WithOpaqueTag(randName(r, r.Range(1, 20)), uint32(r.Range(1, 64))))
		}
		msg, class, size, err := hdf5.VerifRegistryEncode(t, opts...)
		if err != nil {
			fail(fmt.Sprintf("registry:%d:encode-error", t), err.Error())
			return ""
		}
		pools.Dirty(false) // the second encoding starts from differently used pool buffers
		msg2, _, _, _ := hdf5.VerifRegistryEncode(t, opts...)
		if !bytes.Equal(msg, msg2) {
			fail(fmt.Sprintf("registry:%d:nondeterministic", t), "")
		}
		d, err := core.ParseDatatypeMessage(msg)
		if err != nil {
			fail(fmt.Sprintf("registry:%d:decode-error", t), err.Error())
			return ""
		}
		if d.Class != class || d.Size != size {
			fail(fmt.Sprintf("registry:%d:field", t), fmt.Sprintf("handler announced class %d size %d, message decodes as class %d size %d (%x)", class, size, d.Class, d.Size, msg))
		}
		// signedness of the integer handlers is part of the value
		signedWant := map[hdf5.Datatype]bool{hdf5.Int8: true, hdf5.Int16: true, hdf5.Int32: true, hdf5.Int64: true}
		if t <= hdf5.Uint64 {
			if got := d.ClassBitField&0x08 != 0; got != signedWant[t] {
				fail("registry:integer-sign", fmt.Sprintf("type %d: signed bit %v in encoded message, want %v", t, got, signedWant[t]))
			}
		}
		return fmt.Sprintf("registry %d", t)
	}},
	{"dataspace", func(c *ev.Ctx, r *ev.Rand, fail func(string, any)) string {
		rank := r.Range(1, 32)
		if r.Chance(2, 3) {
			rank = r.Range(1, 4)
		}
		pool := []uint64{1, 2, 3, 255, 256, 65535, 65536, 1<<32 - 1, 1 << 32, 1<<63 - 1}
		dims := u64s(r, rank, pool)
		var maxd []uint64
		if r.Bool() {
			maxd = make([]uint64, rank)
			for i := range maxd {
				switch r.Intn(3) {
				case 0:
					maxd[i] = ^uint64(0)
				case 1:
					maxd[i] = dims[i]
				default:
					maxd[i] = dims[i] + uint64(r.Intn(1000))
				}
			}
		}
		b1, err := core.EncodeDataspaceMessage(dims, maxd)
		if err != nil {
			fail("dataspace:encode-error", err.Error())
			return ""
		}
		pools.Dirty(false) // the second encoding starts from differently used pool buffers
		b2, _ := core.EncodeDataspaceMessage(dims, maxd)
		if !bytes.Equal(b1, b2) {
			fail("dataspace:nondeterministic", "")
		}
		d, err := core.ParseDataspaceMessage(b1)
		if err != nil {
			fail("dataspace:decode-error", map[string]any{"rank": rank, "err": err.Error()})
			return ""
		}
		if !eqU64s(d.Dimensions, dims) {
			fail("dataspace:field(dims)", map[string]any{"dims": dims, "decoded": d.Dimensions})
		}
		if (len(maxd) > 0 || len(d.MaxDims) > 0) && !eqU64s(d.MaxDims, maxd) {
			fail("dataspace:field(maxdims)", map[string]any{"max": maxd, "decoded": d.MaxDims})
		}
		b3, err := core.EncodeDataspaceMessage(d.Dimensions, d.MaxDims)
		if err != nil || !bytes.Equal(b3, b1) {
			fail("dataspace:reencode", fmt.Sprint(err))
		}
		return fmt.Sprintf("dataspace rank=%d max=%v", rank, maxd != nil)
	}},
	{"layout", func(c *ev.Ctx, r *ev.Rand, fail func(string, any)) string {
		sb := testSB()
		sb.Version = []uint8{0, 2, 3}[r.Intn(3)] // the message codecs take the superblock version into account
		if r.Bool() {
			size, addr := r.Uint64()>>uint(r.Intn(50)), interestingAddr(r)
			b1, err := core.EncodeLayoutMessage(core.LayoutContiguous, size, addr, sb, nil)
			if err != nil {
				fail("layout:contiguous:encode-error", err.Error())
				return ""
			}
			pools.Dirty(false) // the second encoding starts from differently used pool buffers
			b2, _ := core.EncodeLayoutMessage(core.LayoutContiguous, size, addr, sb, nil)
			if !bytes.Equal(b1, b2) {
				fail("layout:contiguous:nondeterministic", "")
			}
			d, err := core.ParseDataLayoutMessage(b1, sb)
			if err != nil {
				fail("layout:contiguous:decode-error", err.Error())
				return ""
			}
			if !d.IsContiguous() || d.DataAddress != addr || d.DataSize != size {
				fail("layout:contiguous:field", fmt.Sprintf("addr %d size %d decoded %+v", addr, size, *d))
			}
			return "layout contiguous"
		}
		// chunked: the stored dimensionality includes the trailing element-size dimension
		rank := r.Range(1, 5)
		cd := u64s(r, rank, []uint64{1, 2, 7, 64, 1024, 1<<32 - 1})
		addr := interestingAddr(r)
		b1, err := core.EncodeLayoutMessage(core.LayoutChunked, 0, addr, sb, cd)
		if err != nil {
			fail("layout:chunked:encode-error", err.Error())
			return ""
		}
		pools.Dirty(false) // the second encoding starts from differently used pool buffers
		b2, _ := core.EncodeLayoutMessage(core.LayoutChunked, 0, addr, sb, cd)
		if !bytes.Equal(b1, b2) {
			fail("layout:chunked:nondeterministic", "")
		}
		d, err := core.ParseDataLayoutMessage(b1, sb)
		if err != nil {
			fail("layout:chunked:decode-error", map[string]any{"err": err.Error(), "bytes": fmt.Sprintf("%x", b1)})
			return ""
		}
		if !d.IsChunked() || d.DataAddress != addr || !eqU64s(d.ChunkSize, cd) {
			fail("layout:chunked:field", map[string]any{"addr": addr, "chunk": cd, "decoded": fmt.Sprintf("%+v", *d)})
		}
		return fmt.Sprintf("layout chunked rank=%d", rank)
	}},
	{"attribute", func(c *ev.Ctx, r *ev.Rand, fail func(string, any)) string {
		dt := genBasicDT(r)
		rank := r.Range(1, 3)
		dims := make([]uint64, rank)
		n := uint64(1)
		for i := range dims {
			dims[i] = uint64(r.Range(1, 5))
			n *= dims[i]
		}
		ds := &core.DataspaceMessage{Version: 1, Type: core.DataspaceSimple, Dimensions: dims}
		data := r.Bytes(int(n) * int(dt.Size))
		name := randName(r, nameLen(r))
		b1, err := core.EncodeAttributeMessage(name, dt, ds, data)
		if len(name)+1 > 0xFFFF {
			// the 16-bit name size cannot hold it: an error is the only correct answer
			if err == nil {
				fail("attribute:oversized-name-accepted", len(name))
			}
			return fmt.Sprintf("attribute namelen=%d refused", len(name))
		}
		if err != nil {
			fail("attribute:encode-error", err.Error())
			return ""
		}
		pools.Dirty(false) // the second encoding starts from differently used pool buffers
		b2, _ := core.EncodeAttributeMessage(name, dt, ds, data)
		if !bytes.Equal(b1, b2) {
			fail("attribute:nondeterministic", "")
		}
		d, err := core.ParseAttributeMessage(b1, binary.LittleEndian)
		if err != nil {
			fail("attribute:decode-error", map[string]any{"name_len": len(name), "err": err.Error()})
			return ""
		}
		sym := ""
		switch {
		case d.Name != name:
			sym = "name"
		case dtHeaderEqual(dt, d.Datatype) != "":
			sym = "datatype"
		case !eqU64s(d.Dataspace.Dimensions, dims):
			sym = "dataspace"
		case !bytes.Equal(d.Data, data):
			sym = "data"
		}
		if sym != "" {
			cls := "short"
			if len(name) >= 65535 {
				cls = "name>=65535"
			}
			fail("attribute:field("+sym+"):"+cls, map[string]any{"name_len": len(name), "decoded_name_len": len(d.Name), "dims": dims})
		}
		// second encoder: EncodeAttributeFromStruct must agree
		if b3, err := core.EncodeAttributeFromStruct(d, testSB()); err == nil && sym == "" && !bytes.Equal(b3, b1) {
			fail("attribute:reencode", fmt.Sprintf("%d vs %d bytes", len(b3), len(b1)))
		}
		return fmt.Sprintf("attribute namelen=%d rank=%d class=%d", len(name), rank, dt.Class)
	}},
	{"attribute-info", func(c *ev.Ctx, r *ev.Rand, fail func(string, any)) string {
		sb := testSB()
		sb.Version = []uint8{0, 2, 3}[r.Intn(3)] // the message codecs take the superblock version into account
		v := &core.AttributeInfoMessage{Version: 0, Flags: uint8(r.Intn(4)), FractalHeapAddr: interestingAddr(r), BTreeNameIndexAddr: interestingAddr(r)}
		if v.Flags&1 != 0 {
			v.MaxCreationIndex = uint64(r.Intn(65536))
		}
		if v.Flags&2 != 0 {
			v.BTreeOrderIndexAddr = interestingAddr(r)
		}
		b1, err := core.EncodeAttributeInfoMessage(v, sb)
		if err != nil {
			fail("attribute-info:encode-error", err.Error())
			return ""
		}
		pools.Dirty(false) // the second encoding starts from differently used pool buffers
		b2, _ := core.EncodeAttributeInfoMessage(v, sb)
		if !bytes.Equal(b1, b2) {
			fail("attribute-info:nondeterministic", "")
		}
		d, err := core.ParseAttributeInfoMessage(b1, sb)
		if err != nil {
			fail("attribute-info:decode-error", map[string]any{"flags": v.Flags, "err": err.Error()})
			return ""
		}
		if *d != *v {
			fail(fmt.Sprintf("attribute-info:field:flags=%d", v.Flags), map[string]any{"value": fmt.Sprintf("%+v", *v), "decoded": fmt.Sprintf("%+v", *d)})
		}
		return fmt.Sprintf("attrinfo flags=%d", v.Flags)
	}},
	{"link", func(c *ev.Ctx, r *ev.Rand, fail func(string, any)) string {
		sb := testSB()
		sb.Version = []uint8{0, 2, 3}[r.Intn(3)] // the message codecs take the superblock version into account
		name := randName(r, nameLen(r))
		v := &core.LinkMessage{Version: 1, Name: name}
		lsz := uint8(0)
		switch {
		case len(name) > 65535:
			lsz = 2
		case len(name) > 255:
			lsz = 1
		}
		if r.Chance(1, 4) && lsz < 3 { // a wider length field than necessary is well-formed too
			lsz++
		}
		v.Flags = lsz
		kind := r.Intn(3)
		var softPath, extFile, extPath string
		switch kind {
		case 0:
			v.Type = core.LinkTypeHard
			v.LinkValue = make([]byte, 8)
			binary.LittleEndian.PutUint64(v.LinkValue, interestingAddr(r))
			if r.Bool() {
				v.Flags |= core.LinkFlagLinkTypeFieldBit
			}
		case 1:
			v.Type = core.LinkTypeSoft
			v.Flags |= core.LinkFlagLinkTypeFieldBit
			t := "/" + randName(r, r.Range(1, 60))
			softPath = t
			v.LinkValue = append([]byte{byte(len(t)), byte(len(t) >> 8)}, t...)
		default:
			v.Type = core.LinkTypeExternal
			v.Flags |= core.LinkFlagLinkTypeFieldBit
			// the library's own external-link value layout: len(file) file len(path) path
			f, p := randName(r, r.Range(1, 30))+".h5", "/"+randName(r, r.Range(1, 30))
			extFile, extPath = f, p
			v.LinkValue = append([]byte{byte(len(f)), byte(len(f) >> 8)}, f...)
			v.LinkValue = append(v.LinkValue, byte(len(p)), byte(len(p)>>8))
			v.LinkValue = append(v.LinkValue, p...)
		}
		if r.Bool() {
			v.Flags |= core.LinkFlagCreationOrderBit
			v.CreationOrder = r.Uint64() >> uint(r.Intn(60))
		}
		if r.Bool() {
			v.Flags |= core.LinkFlagCharSetBit
			v.CharSet = uint8(r.Intn(2))
		}
		b1, err := core.EncodeLinkMessage(v, sb)
		kname := []string{"hard", "soft", "external"}[kind]
		if err != nil {
			fail("link:"+kname+":encode-error", map[string]any{"flags": v.Flags, "name_len": len(name), "err": err.Error()})
			return ""
		}
		pools.Dirty(false) // the second encoding starts from differently used pool buffers
		b2, _ := core.EncodeLinkMessage(v, sb)
		if !bytes.Equal(b1, b2) {
			fail("link:"+kname+":nondeterministic", "")
		}
		d, err := core.ParseLinkMessage(b1, sb)
		if err != nil {
			fail("link:"+kname+":decode-error", map[string]any{"flags": v.Flags, "name_len": len(name), "err": err.Error()})
			return ""
		}
		sym := ""
		switch {
		case d.Name != v.Name:
			sym = "name"
		case d.Type != v.Type:
			sym = "type"
		case d.Flags != v.Flags:
			sym = "flags"
		case v.HasCreationOrder() && d.CreationOrder != v.CreationOrder:
			sym = "creation-order"
		case v.HasCharSetField() && d.CharSet != v.CharSet:
			sym = "charset"
		case kind == 0 && !bytes.Equal(d.LinkValue, v.LinkValue):
			sym = "value"
		case kind == 1:
			// the decoder hands out the path without its length prefix; the project's own
			// round-trip test compares through GetSoftLinkPath, so does this monitor
			if got, err := d.GetSoftLinkPath(); err != nil || got != softPath {
				sym = "value"
			}
		case kind == 2:
			if gf, gp, err := d.GetExternalLinkInfo(); err != nil || gf != extFile || gp != extPath || !bytes.Equal(d.LinkValue, v.LinkValue) {
				sym = "value"
			}
		}
		if sym != "" {
			fail("link:"+kname+":field("+sym+")", map[string]any{"flags": v.Flags, "name_len": len(name), "value": fmt.Sprintf("%x", v.LinkValue), "decoded_value": fmt.Sprintf("%x", d.LinkValue), "decoded_flags": d.Flags})
		}
		// second decoder (structures.ParseLinkMessage) must agree on name and kind
		if sd, err := structures.ParseLinkMessage(b1, sb); err != nil {
			fail("link:"+kname+":structures-decode-error", map[string]any{"flags": v.Flags, "name_len": len(name), "err": err.Error()})
		} else if sd.Name != v.Name || sd.IsHardLink() != (kind == 0) || sd.IsSoftLink() != (kind == 1) {
			fail("link:"+kname+":structures-field", map[string]any{"flags": v.Flags, "decoded": sd.String()})
		} else if kind == 0 && sd.ObjectAddress != binary.LittleEndian.Uint64(v.LinkValue) {
			fail("link:hard:structures-field(address)", fmt.Sprintf("%x vs %x", sd.ObjectAddress, v.LinkValue))
		}
		return fmt.Sprintf("link %s flags=%02x namelen=%d", kname, v.Flags, len(name))
	}},
	{"link-info", func(c *ev.Ctx, r *ev.Rand, fail func(string, any)) string {
		sb := testSB()
		sb.Version = []uint8{0, 2, 3}[r.Intn(3)] // the message codecs take the superblock version into account
		v := &core.LinkInfoMessage{Version: 0, Flags: uint8(r.Intn(4)), FractalHeapAddress: interestingAddr(r), NameBTreeAddress: interestingAddr(r)}
		if v.Flags&1 != 0 {
			v.MaxCreationOrder = int64(r.Uint64() >> uint(1+r.Intn(62)))
		}
		if v.Flags&2 != 0 {
			v.CreationOrderBTreeAddress = interestingAddr(r)
		}
		b1, err := core.EncodeLinkInfoMessage(v, sb)
		if err != nil {
			fail("link-info:encode-error", err.Error())
			return ""
		}
		pools.Dirty(false) // the second encoding starts from differently used pool buffers
		b2, _ := core.EncodeLinkInfoMessage(v, sb)
		if !bytes.Equal(b1, b2) {
			fail("link-info:nondeterministic", "")
		}
		d, err := core.ParseLinkInfoMessage(b1, sb)
		if err != nil {
			fail("link-info:decode-error", map[string]any{"flags": v.Flags, "err": err.Error()})
			return ""
		}
		if *d != *v {
			fail(fmt.Sprintf("link-info:field:flags=%d", v.Flags), map[string]any{"value": fmt.Sprintf("%+v", *v), "decoded": fmt.Sprintf("%+v", *d)})
		}
		return fmt.Sprintf("linkinfo flags=%d", v.Flags)
	}},
	{"symbol-table-message", func(c *ev.Ctx, r *ev.Rand, fail func(string, any)) string {
		// the reader decodes this message inline (group.go): B-tree address at 0, heap address at 8
		bt, hp := interestingAddr(r), interestingAddr(r)
		b1 := core.EncodeSymbolTableMessage(bt, hp, 8, 8)
		pools.Dirty(false) // the second encoding starts from differently used pool buffers
		b2 := core.EncodeSymbolTableMessage(bt, hp, 8, 8)
		if !bytes.Equal(b1, b2) {
			fail("symbol-table-message:nondeterministic", "")
		}
		if len(b1) != 16 || binary.LittleEndian.Uint64(b1[0:8]) != bt || binary.LittleEndian.Uint64(b1[8:16]) != hp {
			fail("symbol-table-message:field", fmt.Sprintf("%x for btree %x heap %x", b1, bt, hp))
		}
		return "stab"
	}},
}

func roundBytes(v *core.DatatypeMessage) []byte {
	b, _ := core.EncodeDatatypeMessage(v)
	return b
}

const c11Batch = 250

func c11Run(c *ev.Ctx) {
	p := c11Pairs[c.Index%len(c11Pairs)]
	seen := map[string]bool{}
	for i := 0; i < c11Batch; i++ {
		r := c.R.Fork(fmt.Sprint(i))
		nviol := 0
		fail := func(sym string, detail any) {
			nviol++
			c.Violation(sym, map[string]any{"pair": p.name, "detail": detail})
		}
		var desc string
		site, msg, panicked := ev.Guard(func() { desc = p.run(c, r, fail) })
		if panicked {
			c.Violation("panic:"+p.name+":"+ev.PanicClass(msg)+"@"+site, map[string]any{"panic": msg})
		}
		c.Evals(1)
		if desc != "" && !seen[desc] {
			seen[desc] = true
			c.Case(p.name+"|"+desc, true)
			c.Evals(-1)
		}
		if i == 0 && c.Index < len(c11Pairs) {
			c.Sample(map[string]any{"pair": p.name, "value": desc})
		}
	}
	c.Count("values:"+p.name, c11Batch)
}

var C11 = &ev.Property{
	ID:    "C11",
	Level: "exploration",
	Rule: "15 encoder/decoder pairs (superblock v0/2/3; object header v1/v2 up to the 255-byte chunk; datatype fixed/float/string, reference/opaque, compound v1/v3 incl. nested, with member lists in permuted (non-layout) order and with time / bit-field / reference members, vlen, array/enum, the 40 registry handlers; dataspace rank 1..32 with/without max dims; layout contiguous/chunked; attribute; attribute-info; link hard/soft/external with all flag combinations and name lengths 1/255/256/65535; link-info; symbol-table message), " +
		"250 seeded well-formed values per case with boundary values; each value: encode twice (determinism), decode, compare every field, re-encode where possible. Filter-pipeline message is covered by C08. distinct = distinct value descriptors (pair + shape parameters); every value is non-trivial.",
	Assumptions: []string{
		"array/enum datatype properties have no library decoder: the inverse used is a direct reading of the layout the encoder documents",
		"documented normalisations: SuperExtension 0 == UNDEF; opaque tag NUL-padded to 8 bytes; v1 object header message data in multiples of 8 bytes",
	},
	Cases: func(tier string) int {
		if tier == "thorough" {
			return len(c11Pairs) * 5000
		}
		return len(c11Pairs) * 50
	},
	Run:   c11Run,
	Floor: func(tier string) int64 { return 100 },
}
