package props

import "github.com/scigolib/hdf5/internal/zzverif/ev"

// C19 — rebalancing options never change content (part A, file level) and the automatic
// mode selector obeys its constraints (part B, package level); part C: twin runs on the
// name index itself.

func c19BCases(tier string) int {
	if tier == "thorough" {
		return 100000
	}
	return 3000
}

func c19Run(c *ev.Ctx) {
	if c.Index < c19BCases(c.Tier) {
		c19bRun(c)
		return
	}
	if c.Index < c19BCases(c.Tier)+c19ACases(c.Tier) {
		c19aRun(c)
		return
	}
	c19cRun(c)
}

var C19 = &ev.Property{
	ID:    "C19",
	Level: "exploration",
	Rule: "part B: a sequence of 1-200 observations under a controllable clock (steps 0, 1ns, period-1ns, period, period+1ns, 1s, 3h, occasionally backwards) and a random constraint setting (MinConfidence 0/0.3/0.65/0.7/1, stability period 0/1ns/30s/1h, allowed list nil/empty/singleton/pair/all/3-6 entries with repeats drawn from one or two modes, sometimes with a value that is no mode), driven three ways: scripted strategy through ConfigSelector, rule-based strategy on random features incl. file-size thresholds ±1, NaN ratios and (one observation in three) a bursty workload in the 500 MiB-1 GiB band where the rules choose incremental rebalancing, and SmartRebalancer.Evaluate over a WorkloadDetector fed bursts of operations; every returned decision is checked against a reference gate model (allowed, confidence fallback, confidence range, no mode invented, no mode change within the stability period on a non-decreasing clock; a permitted mode returned in place of a refused one counts as a decision that passed both gates). " +
		"part A: twin runs of one attribute history under a rebalancing configuration and under the default configuration; the logical dumps of the reopened files must be equal. " +
		"part C: twin runs of one insert/update/delete-by-name history on the name index (version 2 B-tree, node sizes 128/512/4096/default so that the single leaf reaches its capacity) in the default configuration and under immediate / lazy (threshold 0.001-1, delay 1ns-1h, batch 1-100) / incremental (interval 1us-1ms, budget 1us-1ms) rebalancing with toggles (force, rebalance all, disable, enable again) at random points: the outcome of every call, the records after every step and the records reloaded after WriteToFile must be equal. " +
		"non-trivial: >=2 observations (B) / history crossing into dense storage or with deletes (A); distinct = constraint setting + outcome-count descriptor (B), configuration + history shape (A).",
	Assumptions: []string{
		"ModeNone is always permitted (documented fallback); an empty allowed list means all modes (documented)",
		"the stability clause is judged on non-decreasing clocks; sequences with a backwards clock are run for the other gates only",
	},
	Cases: func(tier string) int { return c19BCases(tier) + c19ACases(tier) + c19CCases(tier) },
	Run:   c19Run,
	Floor: func(tier string) int64 { return 200 },
}
