package props

import (
	"fmt"
	"time"

	"github.com/scigolib/hdf5/internal/structures"
	"github.com/scigolib/hdf5/internal/zzverif/ev"
	"github.com/scigolib/hdf5/internal/zzverif/memio"
)

// C19 part C — twin runs at the place where the rebalancing options act: the name index
// (version 2 B-tree) of dense attribute storage. One history of insert / update / delete by
// name is applied to a tree in the default configuration (plain DeleteRecord) and to a tree
// under a drawn configuration (immediate, lazy with any threshold / delay / batch size,
// incremental with any budget / interval, toggled during the history). The outcome of every
// call, the records after every step and the records found after writing the tree out and
// loading it again must be the same. Histories run on small nodes too, so that they reach the
// capacity of the single leaf the index uses.

func c19CCases(tier string) int {
	if tier == "thorough" {
		return 4000
	}
	return 300
}

func c19cRun(c *ev.Ctx) {
	r := c.R
	nodeSize := []uint32{128, 128, 512, 4096, 0}[r.Intn(5)]
	a := structures.NewWritableBTreeV2(nodeSize)
	b := structures.NewWritableBTreeV2(nodeSize)
	capacity := a.VerifMaxRecords()
	mode := []string{"immediate", "lazy", "lazy", "incremental"}[r.Intn(4)]
	lazyCfg := structures.DefaultLazyConfig()
	lazyCfg.Threshold = []float64{0.001, 0.05, 0.5, 0.99, 1.0}[r.Intn(5)]
	lazyCfg.MaxDelay = []time.Duration{time.Nanosecond, time.Millisecond, time.Hour}[r.Intn(3)]
	lazyCfg.BatchSize = []int{1, 2, 10, 100}[r.Intn(4)]
	lazyOn := false
	stop := func() {}
	enable := func() bool {
		switch mode {
		case "lazy", "incremental":
			b.EnableLazyRebalancing(lazyCfg)
			lazyOn = true
			if mode == "incremental" {
				ic := structures.DefaultIncrementalConfig()
				ic.Interval = []time.Duration{time.Microsecond, 50 * time.Microsecond, time.Millisecond}[r.Intn(3)]
				ic.Budget = []time.Duration{time.Microsecond, time.Millisecond}[r.Intn(2)]
				if err := b.EnableIncrementalRebalancing(ic); err != nil {
					c.Violation("index-twin:incremental-enable-failed", err.Error())
					return false
				}
				stop = func() { _ = b.StopIncrementalRebalancing() }
			}
		}
		return true
	}
	if !enable() {
		return
	}
	defer func() { stop() }()
	delB := func(name string) error {
		switch {
		case mode == "immediate":
			return b.DeleteRecordWithRebalancing(name)
		case lazyOn:
			return b.DeleteRecordLazy(name)
		}
		return b.DeleteRecord(name)
	}
	// plans: 0 random mix, 1 fill to capacity / delete a few / fill again, 2 delete-heavy
	plan := r.Intn(3)
	nops := r.Range(20, 120)
	if plan == 1 {
		nops = capacity*2 + 40
		if nops > 1200 {
			nops = 1200
		}
	}
	var hist []string
	live := []string{}
	next := 0
	fail := func(key string, detail any) {
		t := hist
		if len(t) > 30 {
			t = t[len(t)-30:]
		}
		c.Violation("index-twin:"+key+":"+mode, map[string]any{"node_size": nodeSize, "capacity": capacity, "lazy": fmt.Sprintf("%+v", lazyCfg), "plan": plan, "detail": detail, "ops_total": len(hist), "last_ops": t})
	}
	same := func(where string) bool {
		ra, rb := a.GetRecords(), b.GetRecords()
		if !recordsEqual(ra, rb) {
			fail("records-differ", fmt.Sprintf("%s: default has %d records, twin %d", where, len(ra), len(rb)))
			return false
		}
		return true
	}
	toggles, refused, nearCap := 0, 0, false
	var pair []string
	if ps := minedCollisions(); len(ps) > 0 && r.Chance(1, 3) {
		p := ps[r.Intn(len(ps))]
		pair = []string{p[0], p[1]}
		if r.Bool() {
			pair = []string{p[1], p[0]}
		}
	}
	for i := 0; i < nops; i++ {
		k := r.Weighted([]int{6, 2, 3})
		switch plan {
		case 1:
			switch {
			case len(live) < capacity-1 && i < capacity+10:
				k = 0
			case r.Chance(1, 3):
				k = 2
			default:
				k = 0
			}
		case 2:
			k = r.Weighted([]int{3, 1, 5})
		}
		if len(live) == 0 {
			k = 0
		}
		if len(live) >= capacity-2 {
			nearCap = true
		}
		switch k {
		case 0:
			name := fmt.Sprintf("n%05d", next)
			if len(pair) > 0 {
				// two names with the same hash, one after the other (the index orders and finds
				// records by hash; whatever it does with equal hashes, it must do the same under
				// every configuration)
				name, pair = pair[0], pair[1:]
				c.Count("C:names_with_equal_hash_inserted", 1)
			}
			next++
			ea, eb := a.InsertRecord(name, uint64(next)), b.InsertRecord(name, uint64(next))
			hist = append(hist, fmt.Sprintf("insert %s (live %d) default=%v twin=%v", name, len(live), ea, eb))
			if (ea == nil) != (eb == nil) {
				fail("insert-outcome-differs", map[string]any{"default": fmt.Sprint(ea), "twin": fmt.Sprint(eb), "live": len(live)})
				return
			}
			if ea == nil {
				live = append(live, name)
			} else {
				refused++
			}
		case 1:
			name := live[r.Intn(len(live))]
			next++
			ea, eb := a.UpdateRecord(name, uint64(next)), b.UpdateRecord(name, uint64(next))
			hist = append(hist, fmt.Sprintf("update %s default=%v twin=%v", name, ea, eb))
			if (ea == nil) != (eb == nil) {
				fail("update-outcome-differs", map[string]any{"default": fmt.Sprint(ea), "twin": fmt.Sprint(eb)})
				return
			}
		default:
			j := r.Intn(len(live))
			name := live[j]
			ea, eb := a.DeleteRecord(name), delB(name)
			hist = append(hist, fmt.Sprintf("delete %s default=%v twin=%v", name, ea, eb))
			if (ea == nil) != (eb == nil) {
				fail("delete-outcome-differs", map[string]any{"default": fmt.Sprint(ea), "twin": fmt.Sprint(eb)})
				return
			}
			if ea == nil {
				live = append(live[:j], live[j+1:]...)
			}
		}
		if !same(fmt.Sprintf("after op %d", i)) {
			return
		}
		// toggles at any time
		if mode != "immediate" && r.Chance(1, 25) {
			toggles++
			switch r.Intn(4) {
			case 0:
				hist = append(hist, "ForceBatchRebalance")
				_ = b.ForceBatchRebalance()
			case 1:
				hist = append(hist, "RebalanceAll")
				_ = b.RebalanceAll()
			case 2:
				if lazyOn {
					hist = append(hist, "stop + DisableLazyRebalancing")
					stop()
					stop = func() {}
					_ = b.DisableLazyRebalancing()
					lazyOn = false
				} else {
					hist = append(hist, "enable again")
					if !enable() {
						return
					}
				}
			default:
				hist = append(hist, "BatchRebalance")
				_ = b.BatchRebalance()
			}
			if !same("after a toggle") {
				return
			}
		}
	}
	stop()
	stop = func() {}
	// write out, load again
	sb := testSB()
	load := func(t *structures.WritableBTreeV2) ([]structures.LinkNameRecord, error) {
		mf := memio.New(2048)
		addr, err := t.WriteToFile(mf, mf, sb)
		if err != nil {
			return nil, err
		}
		nb := structures.NewWritableBTreeV2(nodeSize)
		if err := nb.LoadFromFile(mf, addr, sb); err != nil {
			return nil, err
		}
		return nb.GetRecords(), nil
	}
	la, ea := load(a)
	lb, eb := load(b)
	if (ea == nil) != (eb == nil) {
		fail("persist-outcome-differs", map[string]any{"default": fmt.Sprint(ea), "twin": fmt.Sprint(eb)})
		return
	}
	if ea == nil && !recordsEqual(la, lb) {
		fail("persisted-records-differ", fmt.Sprintf("default reloads %d records, twin %d", len(la), len(lb)))
		return
	}
	c.Count("C:config:"+mode, 1)
	c.Count("C:toggles", int64(toggles))
	c.Count("C:inserts_refused_by_both", int64(refused))
	if nearCap {
		c.Count("C:histories_reaching_leaf_capacity", 1)
	}
	c.Case(fmt.Sprintf("C|%s|ns%d|plan%d|thr%v|batch%d|cap%v|ops%d", mode, nodeSize, plan, lazyCfg.Threshold, lazyCfg.BatchSize, nearCap, len(hist)/20), len(hist) > 10)
}
