package props

import (
	"encoding/binary"
	"fmt"
	"math"
	"path/filepath"
	"sort"
	"strings"

	"github.com/scigolib/hdf5/internal/zzverif/dump"
	"github.com/scigolib/hdf5/internal/zzverif/ev"
	"github.com/scigolib/hdf5/internal/zzverif/hx"
)

// C01 — dataset write, close, reopen, read returns exactly what was written.

type c01DS struct {
	Op     hx.Op
	Family string // numeric | string | array | enum | opaque | ref | compound
	Layout string
	Cmp    []string // expected ReadCompound rendering
}

func c01GenDataset(r *ev.Rand, i int, maxElems uint64) c01DS {
	path := "/" + hx.GenName(r, i)
	rank := r.Range(1, 4)
	dims := hx.GenDims(r, rank, maxElems)
	n := int(hx.NumElems(dims))
	op := hx.Op{K: "create_ds", Path: path, Dims: dims, Expect: "ok"}
	d := c01DS{}
	fam := r.Weighted([]int{12, 3, 2, 2, 1, 1, 2}) // numeric string array enum opaque ref compound
	chunkable := false
	switch fam {
	case 0:
		d.Family = "numeric"
		k := hx.NumericKinds[r.Intn(10)]
		op.DT = k
		v := hx.GenNumeric(r, "[]"+k, n, r.Intn(4))
		op.Data = &v
		chunkable = true
	case 1:
		d.Family = "string"
		op.DT = "str"
		op.StrSize = uint32(r.Range(1, 40))
		v := hx.Val{Kind: "[]str", S: hx.GenStrings(r, n, int(op.StrSize))}
		op.Data = &v
		chunkable = true
	case 2:
		d.Family = "array"
		base := []string{"i8", "i16", "i32", "i64", "u8", "u16", "u32", "u64", "f32", "f64"}[r.Intn(10)]
		op.DT = "arr_" + base
		nd := r.Range(1, 3)
		op.ArrDims = make([]uint64, nd)
		an := 1
		for j := range op.ArrDims {
			op.ArrDims[j] = uint64(r.Range(1, 4))
			an *= int(op.ArrDims[j])
		}
		v := hx.GenNumeric(r, "[]"+base, n*an, r.Intn(4))
		op.Data = &v
	case 3:
		d.Family = "enum"
		base := []string{"i8", "i16", "i32", "i64", "u8", "u16", "u32", "u64"}[r.Intn(8)]
		op.DT = "enum_" + base
		ne := r.Range(1, 6)
		for j := 0; j < ne; j++ {
			op.EnumN = append(op.EnumN, fmt.Sprintf("E%d", j))
			op.EnumV = append(op.EnumV, int64(j*2))
		}
		v := hx.Val{Kind: "[]" + base}
		for j := 0; j < n; j++ {
			x := op.EnumV[r.Intn(ne)]
			if base[0] == 'i' {
				v.I = append(v.I, x)
			} else {
				v.U = append(v.U, uint64(x))
			}
		}
		op.Data = &v
	case 4:
		d.Family = "opaque"
		op.DT = "opaque"
		op.OpTag = "tag-" + hx.GenName(r, i)
		op.OpSize = uint32(r.Range(1, 24))
		v := hx.Val{Kind: "bytes", B: r.Bytes(n * int(op.OpSize))}
		op.Data = &v
	case 5:
		d.Family = "ref"
		op.DT = "objref"
		v := hx.GenNumeric(r, "[]u64", n, 3)
		op.Data = &v
	default:
		d.Family = "compound"
		op.K = "create_cmp"
		nf := r.Range(1, 5)
		rec := 0
		for j := 0; j < nf; j++ {
			ft := []string{"i32", "i64", "f32", "f64", fmt.Sprintf("str%d", r.Range(1, 12))}[r.Intn(5)]
			op.Fields = append(op.Fields, hx.Field{Name: fmt.Sprintf("m%d_%s", j, ft), DT: ft})
			rec += int(hx.FieldSize(ft))
		}
		buf := make([]byte, 0, n*rec)
		for e := 0; e < n; e++ {
			var parts []string
			for _, f := range op.Fields {
				switch {
				case f.DT == "i32":
					x := uint32(r.Intn(1 << 31))
					buf = binary.LittleEndian.AppendUint32(buf, x)
					parts = append(parts, fmt.Sprintf("%s=int:%d;", f.Name, x))
				case f.DT == "i64":
					x := r.Uint64() >> 1
					buf = binary.LittleEndian.AppendUint64(buf, x)
					parts = append(parts, fmt.Sprintf("%s=int:%d;", f.Name, x))
				case f.DT == "f32":
					x := r.Float32Bits()
					buf = binary.LittleEndian.AppendUint32(buf, x)
					parts = append(parts, fmt.Sprintf("%s=f32:%08x;", f.Name, x))
				case f.DT == "f64":
					x := r.Float64Bits()
					buf = binary.LittleEndian.AppendUint64(buf, x)
					parts = append(parts, fmt.Sprintf("%s=f64:%016x;", f.Name, x))
				default:
					sz := int(hx.FieldSize(f.DT))
					s := hx.GenStrings(r, 1, sz)[0]
					fb := make([]byte, sz)
					copy(fb, s)
					buf = append(buf, fb...)
					parts = append(parts, fmt.Sprintf("%s=str:%x;", f.Name, s))
				}
			}
			sort.Strings(parts)
			d.Cmp = append(d.Cmp, strings.Join(parts, ""))
		}
		v := hx.Val{Kind: "bytes", B: buf}
		op.Data = &v
	}
	if chunkable && r.Chance(3, 5) {
		op.Chunk = hx.GenChunk(r, dims, r.Intn(5))
		if d.Family == "numeric" {
			switch r.Intn(6) {
			case 0:
				op.Gzip = r.Range(1, 9)
			case 1:
				op.Shuffle, op.Gzip = true, r.Range(1, 9)
			case 2:
				op.Fletcher = true
			}
		}
	}
	d.Layout = hx.ChunkClass(dims, op.Chunk)
	if op.Gzip != 0 || op.Shuffle || op.Fletcher {
		d.Layout += "+filter"
	}
	d.Op = op
	return d
}

func typeFamily(d c01DS) string {
	if d.Family != "numeric" {
		return d.Family
	}
	k := d.Op.DT
	switch {
	case k[0] == 'f':
		return "float" + k[1:]
	case k[0] == 'u':
		return "uint" + k[1:]
	default:
		return "int" + k[1:]
	}
}

var classOf = map[string]int{"numeric-i": 0, "numeric-u": 0, "numeric-f": 1, "string": 3, "opaque": 5, "compound": 6, "ref": 7, "enum": 8, "array": 10}

func c01Run(c *ev.Ctx) {
	r := c.R
	if c.Index%6 == 5 {
		c01Rewrite(c)
		return
	}
	if c.Index%12 == 2 {
		c01NearCopies(c)
		return
	}
	big := c.Index%40 == 17 // datasets of a MiB and more, several per file (see below)
	grid := c.Index%20 == 9 // many chunks along one axis of a rank 2-4 dataset (see below)
	sbv := []uint8{0, 2, 3}[r.Intn(3)]
	nds := r.Range(1, 3)
	maxElems := uint64(c.Pick(4096, 65536))
	if r.Chance(2, 3) {
		maxElems = 600
	}
	var dss []c01DS
	s := &hx.Script{SB: sbv}
	for i := 0; i < nds; i++ {
		d := c01GenDataset(r, i, maxElems)
		dss = append(dss, d)
		s.Ops = append(s.Ops, d.Op)
	}
	if grid {
		// one file in twenty: a dataset of rank 2-4 with 17-70 chunks along one axis (each axis
		// in turn) and one or two along the others: chunk indexes beyond small powers of two
		rank := 2 + (c.Index/20)%3
		axis := (c.Index / 60) % rank
		dims, chunk := make([]uint64, rank), make([]uint64, rank)
		for i := range dims {
			chunk[i] = uint64(r.Range(1, 2))
			dims[i] = chunk[i] * uint64(r.Range(1, 2))
		}
		dims[axis] = chunk[axis]*uint64(r.Range(17, 70)) - uint64(r.Intn(int(chunk[axis])))
		k := hx.NumericKinds[r.Intn(10)]
		v := hx.GenNumeric(r, "[]"+k, int(hx.NumElems(dims)), 2+r.Intn(2))
		d := c01DS{Family: "numeric", Op: hx.Op{K: "create_ds", Path: "/grid", DT: k, Dims: dims, Chunk: chunk, Data: &v, Expect: "ok"}}
		d.Layout = hx.ChunkClass(dims, chunk)
		dss, s.Ops = []c01DS{d}, []hx.Op{d.Op}
		nds = 1
		c.Count("files_with_long_chunk_grids", 1)
	}
	if big {
		// one file in forty: two or three datasets of 1-2 MiB each, a numeric one first, then
		// fixed-length strings much shorter than their element size, then numeric again
		// (large buffers change hands between consecutive writes of one process)
		dss, s.Ops = nil, nil
		mk := func(i int, fam string) {
			d := c01DS{Family: fam, Layout: "contiguous"}
			op := hx.Op{K: "create_ds", Path: fmt.Sprintf("/big%d", i), Expect: "ok"}
			switch fam {
			case "numeric":
				k := hx.NumericKinds[r.Intn(10)]
				es := (&hx.Val{Kind: "[]" + k}).ElemSize()
				n := r.Range(1<<20, 2<<20) / es
				if i == 0 {
					n = r.Range(2<<20, 5<<19) / es // the first one is the largest
				}
				op.DT, op.Dims = k, []uint64{uint64(n)}
				v := hx.GenNumeric(r, "[]"+k, n, 1+r.Intn(3))
				op.Data = &v
			default:
				op.DT = "str"
				op.StrSize = uint32(r.Range(12, 40))
				n := r.Range(1<<20, 2<<20) / int(op.StrSize)
				op.Dims = []uint64{uint64(n)}
				strs := make([]string, n)
				for j := range strs {
					t := fmt.Sprintf("s%d", j%977)
					strs[j] = t[:min(len(t), 1+j%5)]
				}
				v := hx.Val{Kind: "[]str", S: strs}
				op.Data = &v
			}
			if r.Chance(1, 3) {
				op.Chunk = []uint64{uint64(r.Range(int(op.Dims[0])/7+1, int(op.Dims[0])))}
				d.Layout = hx.ChunkClass(op.Dims, op.Chunk)
			}
			d.Op = op
			dss = append(dss, d)
			s.Ops = append(s.Ops, op)
		}
		mk(0, "numeric")
		mk(1, "string")
		if r.Bool() {
			mk(2, "numeric")
		}
		nds = len(dss)
		c.Count("files_with_datasets_of_a_MiB_and_more", 1)
	}
	path := filepath.Join(c.Dir, "c01.h5")
	e := hx.Run(path, s)
	closeRes := hx.OpRes{}
	if len(e.Res) > len(s.Ops) {
		closeRes = e.Res[len(s.Ops)]
	}
	_ = closeRes
	witness := func(d c01DS, detail any) map[string]any {
		op := d.Op
		if op.Data != nil && op.Data.Len() > 64 {
			dd := *op.Data
			dd.I, dd.U, dd.F, dd.S, dd.B = head(dd.I, 16), headU(dd.U, 16), headU(dd.F, 16), headS(dd.S, 8), headB(dd.B, 64)
			op.Data = &dd
		}
		return map[string]any{"sb": sbv, "dataset": op, "layout": d.Layout, "detail": detail, "datasets_in_file": nds}
	}
	if len(e.Res) > 0 && len(e.Res) <= len(s.Ops) && !e.Res[len(e.Res)-1].OK() && len(e.Res) == 1 && strings.HasPrefix(e.Res[0].Err, "create:") {
		c.Violation(fmt.Sprintf("create-file-failed:sb%d", sbv), e.Res[0])
		return
	}
	written := map[int]bool{}
	for i, d := range dss {
		res := e.Res[i]
		key := func(sym string) string {
			return fmt.Sprintf("%s:sb%d:%s:%s", sym, sbv, d.Layout, typeFamily(d))
		}
		switch {
		case res.Panic != "":
			c.Violation(key("write-panic")+"@"+res.Panic, witness(d, res))
		case res.Err != "":
			// a refusal is in scope only where the combination is documented as supported
			if d.Family == "ref" || d.Family == "array" || d.Family == "enum" || d.Family == "opaque" {
				c.Count("refused:"+d.Family, 1)
			} else if strings.Contains(res.Err, "at most 65535") {
				// the single-node chunk index (listed finding): its own key
				c.Violation("write-refused:more-than-65535-chunks", witness(d, res.Err))
			} else {
				c.Violation(key("write-refused"), witness(d, res.Err))
			}
		default:
			written[i] = true
		}
	}
	dp := dump.File(path, dump.Options{Twice: true})
	if !dp.OpenRes.OK() {
		c.Violation(fmt.Sprintf("open-fail:sb%d:n%d", sbv, nds), map[string]any{"open": dp.OpenRes, "script": s.Ops})
		return
	}
	for i, d := range dss {
		if !written[i] {
			continue
		}
		key := func(sym string) string {
			return fmt.Sprintf("%s:sb%d:%s:%s", sym, sbv, d.Layout, typeFamily(d))
		}
		c.Case(fmt.Sprintf("sb%d|%s|%s|rank%d|n%d|data%d", sbv, d.Layout, typeFamily(d), len(d.Op.Dims), hx.NumElems(d.Op.Dims)/16, styleOf(d.Op.Data)), true)
		c.Count("datasets:"+d.Family, 1)
		c.Count("layout:"+d.Layout, 1)
		o := dp.Get(d.Op.Path)
		if o == nil {
			c.Violation(key("missing"), witness(d, map[string]any{"paths": dp.Paths()}))
			continue
		}
		if o.Kind != "dataset" {
			c.Violation(key("kind"), witness(d, o.Kind))
			continue
		}
		// shape and element type
		if !o.MetaRes.OK() || !o.InfoRes.OK() {
			c.Violation(key("info-error"), witness(d, map[string]any{"meta": o.MetaRes, "info": o.InfoRes}))
			continue
		}
		if !eqU64s(o.Dims, d.Op.Dims) {
			c.Violation(key("shape"), witness(d, map[string]any{"read_dims": o.Dims}))
			continue
		}
		wantClass, wantSize, wantSigned := -1, uint32(0), -1
		switch d.Family {
		case "numeric":
			wantSize = uint32(d.Op.Data.ElemSize())
			if d.Op.DT[0] == 'f' {
				wantClass = 1
			} else {
				wantClass = 0
				wantSigned = 0
				if d.Op.DT[0] == 'i' {
					wantSigned = 1
				}
			}
		case "string":
			wantClass, wantSize = 3, d.Op.StrSize
		case "opaque":
			wantClass, wantSize = 5, d.Op.OpSize
		case "compound":
			wantClass = 6
			for _, f := range d.Op.Fields {
				wantSize += hx.FieldSize(f.DT)
			}
		case "ref":
			wantClass, wantSize = 7, 8
		case "enum":
			wantClass = 8
			wantSize = uint32(d.Op.Data.ElemSize())
		case "array":
			wantClass = 10
			wantSize = uint32(d.Op.Data.ElemSize())
			for _, a := range d.Op.ArrDims {
				wantSize *= uint32(a)
			}
		}
		if o.TypeClass != wantClass || o.TypeSize != wantSize || (wantSigned >= 0 && int(o.TypeBits>>3&1) != wantSigned) {
			c.Violation(key("dtype"), witness(d, map[string]any{"read_class": o.TypeClass, "read_size": o.TypeSize, "read_bits": o.TypeBits, "want_class": wantClass, "want_size": wantSize, "want_signed": wantSigned}))
			continue
		}
		// typed reads
		for _, rr := range []dump.Res{o.ReadRes, o.StringsRes, o.CompoundRes, o.AttrsRes} {
			if rr.Panic != "" {
				c.Violation(key("read-panic")+"@"+rr.Panic, witness(d, rr))
			}
		}
		var want []uint64
		if d.Family == "numeric" || d.Family == "enum" {
			want = d.Op.Data.AsFloat64Bits()
		}
		typedReadExists := d.Family == "numeric" && hx.ReadableKinds[d.Op.DT]
		switch {
		case o.ReadRes.OK():
			switch {
			case want == nil || d.Family == "array":
				// a numeric read of a string/opaque/compound/array/reference dataset has no meaning
				c.Violation(key("spurious-value:Read"), witness(d, map[string]any{"read_len": len(o.Read)}))
			case len(o.Read) != len(want):
				c.Violation(key("length"), witness(d, fmt.Sprintf("Read returned %d elements, wrote %d", len(o.Read), len(want))))
			default:
				for j := range want {
					if o.Read[j] != want[j] {
						c.Violation(key("values"), witness(d, fmt.Sprintf("element %d: read %v (%016x), expected %v (%016x)", j, math.Float64frombits(o.Read[j]), o.Read[j], math.Float64frombits(want[j]), want[j])))
						break
					}
				}
			}
		case typedReadExists && o.ReadRes.Err != "":
			c.Violation(key("read-error"), witness(d, o.ReadRes.Err))
		}
		if o.Reread != "" {
			c.Violation(key("second-read-differs"), witness(d, o.Reread))
		}
		switch {
		case o.StringsRes.OK():
			if d.Family != "string" {
				c.Violation(key("spurious-value:ReadStrings"), witness(d, map[string]any{"strings": headS(o.Strings, 4)}))
			} else {
				ws := d.Op.Data.S
				if len(o.Strings) != len(ws) {
					c.Violation(key("length"), witness(d, fmt.Sprintf("ReadStrings returned %d, wrote %d", len(o.Strings), len(ws))))
				} else {
					for j := range ws {
						if o.Strings[j] != ws[j] {
							c.Violation(key("values"), witness(d, fmt.Sprintf("string %d: read %q, wrote %q", j, o.Strings[j], ws[j])))
							break
						}
					}
				}
			}
		case d.Family == "string" && o.StringsRes.Err != "":
			c.Violation(key("read-error"), witness(d, o.StringsRes.Err))
		}
		switch {
		case o.CompoundRes.OK():
			if d.Family != "compound" {
				c.Violation(key("spurious-value:ReadCompound"), witness(d, map[string]any{"n": len(o.Compound)}))
			} else if len(o.Compound) != len(d.Cmp) {
				c.Violation(key("length"), witness(d, fmt.Sprintf("ReadCompound returned %d, wrote %d", len(o.Compound), len(d.Cmp))))
			} else {
				for j := range d.Cmp {
					if o.Compound[j] != d.Cmp[j] {
						c.Violation(key("values"), witness(d, fmt.Sprintf("record %d: read %s, wrote %s", j, o.Compound[j], d.Cmp[j])))
						break
					}
				}
			}
		case d.Family == "compound" && o.CompoundRes.Err != "":
			c.Violation(key("read-error"), witness(d, o.CompoundRes.Err))
		}
	}
	// nothing else may appear in the file
	want := map[string]bool{"/": true}
	for i, d := range dss {
		if written[i] {
			want[d.Op.Path] = true
		}
	}
	for _, o := range dp.Objects {
		if !want[o.Path] {
			// a dataset whose write failed after creation is legitimately present
			found := false
			for _, d := range dss {
				if d.Op.Path == o.Path {
					found = true
				}
			}
			if !found {
				c.Violation(fmt.Sprintf("extra-object:sb%d", sbv), map[string]any{"path": o.Path, "script": s.Ops})
			}
		}
	}
	if c.Index < 4 {
		var ops []string
		for _, d := range dss {
			ops = append(ops, d.Op.String())
		}
		c.Sample(map[string]any{"sb": sbv, "datasets": ops})
	}
}

func styleOf(v *hx.Val) int {
	if v == nil {
		return -1
	}
	return v.Len() % 4
}

func head(x []int64, n int) []int64 {
	if len(x) > n {
		return x[:n]
	}
	return x
}
func headU(x []uint64, n int) []uint64 {
	if len(x) > n {
		return x[:n]
	}
	return x
}
func headS(x []string, n int) []string {
	if len(x) > n {
		return x[:n]
	}
	return x
}
func headB(x []byte, n int) []byte {
	if len(x) > n {
		return x[:n]
	}
	return x
}

// c01NearCopies: a chunked integer dataset whose chunks are near-copies of one another: the
// same length and the same checksum (CRC-32, Adler-32, Fletcher-32, byte sums) as the chunk
// before, an identical chunk, or one byte changed. Whatever the writer derives from a chunk's
// bytes (a checksum, a hash, a "seen before" key) is the same for neighbours that differ.
func c01NearCopies(c *ev.Ctx) {
	r := c.R
	sbv := []uint8{0, 2, 3}[r.Intn(3)]
	k := []string{"i32", "u32", "i64", "u64", "i16", "u16", "u8", "i8"}[r.Intn(8)]
	es := (&hx.Val{Kind: "[]" + k}).ElemSize()
	chunkElems := r.Range(max(1, 8/es), 64)
	nchunks := r.Range(2, 12)
	rank2 := r.Bool()
	prev := r.Bytes(chunkElems * es)
	var all []byte
	all = append(all, prev...)
	kindsUsed := map[string]bool{}
	for j := 1; j < nchunks; j++ {
		sibs := c08Siblings(r, prev)
		cur := prev
		if len(sibs) > 0 {
			sb := sibs[r.Intn(len(sibs))]
			cur = sb.data
			kindsUsed[sb.name] = true
		}
		all = append(all, cur...)
		prev = cur
	}
	n := chunkElems * nchunks
	v := hx.Val{Kind: "[]" + k}
	for i := 0; i < n; i++ {
		var u uint64
		for b := 0; b < es; b++ {
			u |= uint64(all[i*es+b]) << (8 * uint(b))
		}
		if k[0] == 'i' {
			shift := uint(64 - 8*es)
			v.I = append(v.I, int64(u<<shift)>>shift)
		} else {
			v.U = append(v.U, u)
		}
	}
	op := hx.Op{K: "create_ds", Path: "/nc", DT: k, Dims: []uint64{uint64(n)}, Chunk: []uint64{uint64(chunkElems)}, Data: &v, Expect: "ok"}
	if rank2 {
		// chunk = one row
		op.Dims, op.Chunk = []uint64{uint64(nchunks), uint64(chunkElems)}, []uint64{1, uint64(chunkElems)}
	}
	switch r.Intn(4) {
	case 0:
		op.Gzip = r.Range(1, 9)
	case 1:
		op.Fletcher = true
	}
	s := &hx.Script{SB: sbv, Ops: []hx.Op{op}}
	path := filepath.Join(c.Dir, "c01nc.h5")
	e := hx.Run(path, s)
	var kl []string
	for kk := range kindsUsed {
		kl = append(kl, kk)
	}
	sort.Strings(kl)
	c.Case(fmt.Sprintf("near-copies|%s|chunks%d|%v|gzip%d|fl%v", k, nchunks, kl, op.Gzip, op.Fletcher), true)
	c.Count("datasets_with_near-copy_chunks", 1)
	wit := func(detail any) map[string]any {
		return map[string]any{"sb": sbv, "kind": k, "dims": op.Dims, "chunk": op.Chunk, "sibling_kinds": kl, "gzip": op.Gzip, "fletcher": op.Fletcher, "detail": detail}
	}
	if len(e.Res) == 0 || !e.Res[0].OK() || !e.CloseRes.OK() {
		c.Violation("near-copies:write-failed", wit(e.Res))
		return
	}
	dp := dump.File(path, dump.Options{})
	o := dp.Get("/nc")
	if !dp.OpenRes.OK() || o == nil || !hx.ReadableKinds[k] {
		if !dp.OpenRes.OK() || o == nil {
			c.Violation("near-copies:missing", wit(dp.OpenRes))
		}
		return
	}
	want := v.AsFloat64Bits()
	if !o.ReadRes.OK() || len(o.Read) != len(want) {
		c.Violation("near-copies:read-error", wit(o.ReadRes))
		return
	}
	for j := range want {
		if o.Read[j] != want[j] {
			c.Violation("near-copies:values", wit(fmt.Sprintf("element %d (chunk %d): read %016x, written %016x", j, j/chunkElems, o.Read[j], want[j])))
			return
		}
	}
}

// c01Rewrite: one numeric dataset is written twice (same session, or a second session through
// OpenDataset); what counts is the data written last. The leg enumerates the byte size around
// 64 KiB, the layout, and the styles of the first and of the last data.
func c01Rewrite(c *ev.Ctx) {
	r := c.R
	combo := c.Index / 6
	s2 := combo % 4
	sizeClass := (combo / 4) % 4
	chunked := (combo/16)%2 == 1
	s1 := 3 - (combo/32)%4
	second := r.Chance(1, 2) // rewrite in a later session
	sbv := []uint8{0, 2, 3}[r.Intn(3)]
	k := hx.NumericKinds[r.Intn(10)]
	es := (&hx.Val{Kind: "[]" + k}).ElemSize()
	var n int
	szName := []string{"small", "64KiB-1elem", "64KiB", ">64KiB"}[sizeClass]
	switch sizeClass {
	case 0:
		n = r.Range(1, 600)
	case 1:
		n = 65536/es - 1
	case 2:
		n = 65536 / es
	default:
		n = 65536/es + r.Range(1, 16384)
	}
	dims := []uint64{uint64(n)}
	if r.Chance(1, 2) {
		for _, f := range []int{8, 4, 2} {
			if n%f == 0 && r.Chance(1, 2) {
				dims = []uint64{uint64(n / f), uint64(f)}
				break
			}
		}
	}
	// one rewrite case in six: the dataset is reshaped between the two writes — its two extents
	// trade places, so the element count (and often the chunk count) stays what it was
	reshape := combo%6 == 4
	if reshape {
		a, b := r.Range(2, 9), r.Range(2, 9)
		for b == a {
			b = r.Range(2, 9)
		}
		n, dims, chunked, second, szName = a*b, []uint64{uint64(a), uint64(b)}, true, false, "reshaped"
	}
	v1 := hx.GenNumeric(r, "[]"+k, n, s1)
	v2 := hx.GenNumeric(r, "[]"+k, n, s2)
	op := hx.Op{K: "create_ds", Path: "/rw", DT: k, Dims: dims, Data: &v1, Expect: "ok"}
	layout := "contiguous"
	if chunked {
		layout = "chunked"
		op.Chunk = hx.GenChunk(r, dims, []int{0, 1, 2, 4}[r.Intn(4)])
		if hx.NumElems(dims)/hx.NumElems(op.Chunk) > 4096 {
			op.Chunk = hx.GenChunk(r, dims, 0)
		}
	}
	if reshape {
		cdim := uint64(r.Range(1, 3))
		op.Chunk = []uint64{min(cdim, dims[0]), min(cdim, dims[1])}
		op.MaxDims = []uint64{hx.Unlimited, hx.Unlimited}
	}
	s := &hx.Script{SB: sbv, Ops: []hx.Op{op}}
	if reshape {
		s.Ops = append(s.Ops, hx.Op{K: "resize", Path: "/rw", Dims: []uint64{dims[1], dims[0]}})
	}
	if second {
		s.Ops = append(s.Ops, hx.Op{K: "close"}, hx.Op{K: "reopen"}, hx.Op{K: "opends", Path: "/rw"})
	}
	s.Ops = append(s.Ops, hx.Op{K: "write", Path: "/rw", Data: &v2})
	wi := len(s.Ops) - 1
	path := filepath.Join(c.Dir, "c01rw.h5")
	e := hx.Run(path, s)
	mode := "same-session"
	if second {
		mode = "later-session"
	}
	key := func(sym string) string { return fmt.Sprintf("rewrite:%s:%s:%s:%s", sym, mode, layout, szName) }
	wit := func(detail any) map[string]any {
		return map[string]any{"sb": sbv, "kind": k, "dims": dims, "chunk": op.Chunk, "first_style": s1, "last_style": s2, "mode": mode, "detail": detail}
	}
	c.Case(fmt.Sprintf("rewrite|%s|%s|%s|first%d|last%d", mode, layout, szName, s1, s2), true)
	c.Count("rewrite:"+mode+":"+layout, 1)
	want := v1.AsFloat64Bits()
	for i := 0; i < wi && i < len(e.Res); i++ {
		if !e.Res[i].OK() {
			c.Violation(key("setup-failed:"+s.Ops[i].K), wit(e.Res[i]))
			return
		}
	}
	if wi >= len(e.Res) {
		c.Violation(key("setup-failed"), wit(e.Res))
		return
	}
	switch wr := e.Res[wi]; {
	case wr.Panic != "":
		c.Violation(key("write-panic")+"@"+wr.Panic, wit(wr))
		return
	case wr.Err != "":
		// refusing the overwrite is an answer (non-contiguous data through OpenDataset); the first data must then stand
		if !(second && chunked) {
			c.Violation(key("write-refused"), wit(wr.Err))
			return
		}
		c.Count("rewrite:refused", 1)
	default:
		want = v2.AsFloat64Bits()
	}
	if len(e.Res) > wi+1 && !e.Res[wi+1].OK() {
		c.Violation(key("close-failed"), wit(e.Res[wi+1]))
		return
	}
	dp := dump.File(path, dump.Options{})
	if !dp.OpenRes.OK() {
		c.Violation(key("open-fail"), wit(dp.OpenRes))
		return
	}
	o := dp.Get("/rw")
	if o == nil || o.Kind != "dataset" {
		c.Violation(key("missing"), wit(dp.Paths()))
		return
	}
	if !hx.ReadableKinds[k] {
		return
	}
	if !o.ReadRes.OK() {
		c.Violation(key("read-error"), wit(o.ReadRes))
		return
	}
	if len(o.Read) != len(want) {
		c.Violation(key("length"), wit(fmt.Sprintf("Read returned %d elements, wrote %d", len(o.Read), len(want))))
		return
	}
	for j := range want {
		if o.Read[j] != want[j] {
			c.Violation(key("values"), wit(fmt.Sprintf("element %d: read %016x, last written %016x, first written %016x", j, o.Read[j], want[j], v1.AsFloat64Bits()[j])))
			return
		}
	}
}

var C01 = &ev.Property{
	ID:    "C01",
	Level: "exploration",
	Rule: "each case writes a file (superblock 0/2/3) with 1-3 datasets through the public API: element type from {10 numeric kinds, fixed strings, arrays, enums, opaque, object references, compound}, rank 1-4, extents from {1,2,3,4,5,7,8,9,11,13,16,17,31,32,64, random}, contiguous or chunked (whole extent, non-dividing chunk, many chunks per dimension, chunk of one element, random; numeric ones optionally filtered) and data from {zeros, extremes incl. NaN payloads / >2^31 / >2^63, ramp, random}; after Close and a fresh Open the monitor checks path, kind, shape, datatype class/size/sign and every typed read (Read, ReadStrings, ReadCompound) against the written values, and that reads without a meaning for the type report errors. Every sixth case writes one numeric dataset twice (in the same session, or in a later session through OpenDataset), enumerating byte size {small, 64 KiB less one element, 64 KiB, above} x layout x style of the first and of the last data; the last data written must be read. One case in twelve writes a chunked integer dataset whose chunks are near-copies of their predecessors (same length and same CRC-32 / Adler-32 / Fletcher-32, identical, one byte changed). One case in twenty writes a rank 2-4 dataset with 17-70 chunks along one axis (each axis in turn). One case in forty writes two or three datasets of 1-2 MiB into one file (numeric, then fixed strings much shorter than their element size, then numeric). Every numeric Read is repeated after the caller has overwritten the first result. " +
		"distinct = (superblock, layout class, type family, rank, size bucket, data style); every written dataset is non-trivial.",
	Assumptions: []string{
		"expected numeric values use the reader's documented widening to float64 computed by the same Go conversions",
		"strings are generated without NUL bytes and no longer than the declared size",
		"creation refusals are accepted for reference/array/enum/opaque datasets (counted), not for numeric, string and compound ones",
	},
	Cases: func(tier string) int {
		if tier == "thorough" {
			return 6000
		}
		return 500
	},
	Run:   c01Run,
	Floor: func(tier string) int64 { return 60 },
}
