package props

import (
	"context"
	"fmt"
	"math"
	"sync"
	"time"

	"github.com/scigolib/hdf5/internal/rebalancing"
	"github.com/scigolib/hdf5/internal/structures"
	"github.com/scigolib/hdf5/internal/zzverif/ev"
)

// C19 part B — the automatic selector obeys its gates.
//
// Monitor: a reference gate model is stepped with the raw decisions (known exactly: the
// harness either scripts the strategy or calls the pure RuleBasedStrategy.Select itself)
// and the injected clock; every Decision returned by ConfigSelector.SelectConfig /
// SmartRebalancer.Evaluate is checked against it.

type vClock struct {
	mu sync.Mutex
	t  time.Time
}

func (c *vClock) Now() time.Time { c.mu.Lock(); defer c.mu.Unlock(); return c.t }
func (c *vClock) Add(d time.Duration) {
	c.mu.Lock()
	c.t = c.t.Add(d)
	c.mu.Unlock()
}

type scriptedStrategy struct{ next rebalancing.Decision }

func (s *scriptedStrategy) Select(rebalancing.WorkloadFeatures, rebalancing.WorkloadType) rebalancing.Decision {
	return s.next
}

type fakeTree struct{ size uint64 }

func (f *fakeTree) EnableLazyRebalancing(structures.LazyRebalancingConfig) error { return nil }
func (f *fakeTree) EnableIncrementalRebalancing(structures.IncrementalRebalancingConfig) error {
	return nil
}
func (f *fakeTree) DisableRebalancing() error                        { return nil }
func (f *fakeTree) StartBackgroundRebalancing(context.Context) error { return nil }
func (f *fakeTree) StopBackgroundRebalancing() error                 { return nil }
func (f *fakeTree) GetFileSize() uint64                              { return f.size }

type c19Obs struct {
	Step     string  `json:"dt"`
	RawMode  string  `json:"raw_mode"`
	RawConf  float64 `json:"raw_conf"`
	GotMode  string  `json:"got_mode"`
	GotConf  float64 `json:"got_conf"`
	Backward bool    `json:"clock_backwards,omitempty"`
}

type gateModel struct {
	minConf    float64
	period     time.Duration
	allowed    []rebalancing.Mode
	havePrev   bool
	prevMode   rebalancing.Mode
	lastChange time.Time
	lastTime   time.Time
	monotone   bool
}

func (g *gateModel) isAllowed(m rebalancing.Mode) bool {
	if len(g.allowed) == 0 {
		return true
	}
	for _, a := range g.allowed {
		if a == m {
			return true
		}
	}
	return false
}

// step returns "" or the violated gate.
func (g *gateModel) step(now time.Time, rawMode rebalancing.Mode, rawConf float64, got rebalancing.Decision) string {
	if !g.lastTime.IsZero() && now.Before(g.lastTime) {
		g.monotone = false // stability is judged on non-decreasing clocks only
	}
	g.lastTime = now
	// gate: range
	if math.IsNaN(got.Confidence) || got.Confidence < 0 || got.Confidence > 1 {
		return "range"
	}
	// gate: allowed (none is the documented fallback and always permitted)
	if got.Mode != rebalancing.ModeNone && !g.isAllowed(got.Mode) {
		return "allowed"
	}
	// gate: confidence
	if rawConf < g.minConf {
		if got.Mode != rebalancing.ModeNone {
			return "confidence"
		}
		return ""
	}
	if !g.isAllowed(rawMode) {
		if got.Mode == rebalancing.ModeNone {
			return "" // rejected by the allowed gate: not part of the stability sequence
		}
		// the selector substituted a permitted mode for the refused one: what it returned has a
		// permitted mode and sufficient confidence, so it is a decision that passes both gates
		// and the stability period applies to it like to any other (seeded C19.r9)
		if !g.havePrev {
			g.havePrev, g.prevMode, g.lastChange = true, got.Mode, now
			return ""
		}
		if got.Mode != g.prevMode {
			if g.monotone && now.Sub(g.lastChange) < g.period {
				return "stability"
			}
			g.prevMode, g.lastChange = got.Mode, now
		}
		return ""
	}
	// passes both gates: the returned mode is the raw mode or the previously adopted one
	if got.Mode != rawMode && !(g.havePrev && got.Mode == g.prevMode) {
		return "invented-mode"
	}
	if !g.havePrev {
		if got.Mode != rawMode {
			return "invented-mode"
		}
		g.havePrev, g.prevMode, g.lastChange = true, got.Mode, now
		return ""
	}
	if got.Mode != g.prevMode {
		if g.monotone && now.Sub(g.lastChange) < g.period {
			return "stability"
		}
		g.prevMode, g.lastChange = got.Mode, now
	}
	return ""
}

func c19bRun(c *ev.Ctx) {
	r := c.R
	clk := &vClock{t: time.Unix(1_700_000_000, 0)}
	cons := rebalancing.DefaultSafetyConstraints()
	cons.MinConfidence = []float64{0, 0.3, 0.65, 0.7, 1}[r.Intn(5)]
	cons.MinStabilityPeriod = []time.Duration{0, time.Nanosecond, 30 * time.Second, time.Hour}[r.Intn(4)]
	all := []rebalancing.Mode{rebalancing.ModeNone, rebalancing.ModeLazy, rebalancing.ModeIncremental}
	switch r.Intn(7) {
	case 5, 6:
		// a list of 3-6 entries drawn from one or two modes (repeats), in any order; sometimes
		// with a value that is no mode at all
		k := r.Range(1, 2)
		pick := []rebalancing.Mode{all[r.Intn(3)], all[r.Intn(3)]}[:k]
		for i, n := 0, r.Range(3, 6); i < n; i++ {
			cons.AllowedModes = append(cons.AllowedModes, pick[r.Intn(len(pick))])
		}
		if r.Chance(1, 5) {
			cons.AllowedModes = append(cons.AllowedModes, rebalancing.Mode([]string{"immediate", "bogus", ""}[r.Intn(3)]))
		}
	case 0:
		cons.AllowedModes = nil
	case 1:
		cons.AllowedModes = []rebalancing.Mode{}
	case 2:
		cons.AllowedModes = []rebalancing.Mode{all[r.Intn(3)]}
	case 3:
		cons.AllowedModes = []rebalancing.Mode{all[r.Intn(3)], all[r.Intn(3)]}
	default:
		cons.AllowedModes = all
	}
	g := &gateModel{minConf: cons.MinConfidence, period: cons.MinStabilityPeriod, allowed: cons.AllowedModes, monotone: true}
	variant := r.Intn(3) // 0 scripted strategy, 1 rule-based via SelectConfig, 2 SmartRebalancer.Evaluate
	n := r.Range(1, 200)
	steps := []time.Duration{0, time.Nanosecond, cons.MinStabilityPeriod - time.Nanosecond, cons.MinStabilityPeriod, cons.MinStabilityPeriod + time.Nanosecond, time.Second, 3 * time.Hour}
	allowBackwards := r.Chance(1, 6)
	var hist []c19Obs
	report := func(gate, strat string) {
		t := hist
		if len(t) > 12 {
			t = t[len(t)-12:]
		}
		c.Violation("selector:"+gate+":"+strat, map[string]any{"min_confidence": cons.MinConfidence, "stability_period": cons.MinStabilityPeriod.String(), "allowed": cons.AllowedModes, "last_observations": t, "observations": len(hist)})
	}
	changes, blocked, lowConf, disallowed := 0, 0, 0, 0
	record := func(dt time.Duration, rawMode rebalancing.Mode, rawConf float64, got rebalancing.Decision) bool {
		hist = append(hist, c19Obs{Step: dt.String(), RawMode: string(rawMode), RawConf: rawConf, GotMode: string(got.Mode), GotConf: got.Confidence, Backward: dt < 0})
		prev := g.prevMode
		had := g.havePrev
		if gate := g.step(clk.Now(), rawMode, rawConf, got); gate != "" {
			report(gate, []string{"scripted", "rule-based", "evaluate"}[variant])
			return false
		}
		switch {
		case rawConf < cons.MinConfidence:
			lowConf++
		case !g.isAllowed(rawMode):
			disallowed++
		case had && got.Mode != prev:
			changes++
		case had && got.Mode != rawMode:
			blocked++
		}
		return true
	}
	nextStep := func() time.Duration {
		dt := steps[r.Intn(len(steps))]
		if dt < 0 {
			dt = 0
		}
		if allowBackwards && r.Chance(1, 10) {
			dt = -time.Duration(r.Range(1, 100)) * time.Second
		}
		return dt
	}

	switch variant {
	case 0:
		st := &scriptedStrategy{}
		sel := rebalancing.NewConfigSelector(rebalancing.WithSafetyConstraints(cons), rebalancing.WithStrategy(st), rebalancing.WithSelectorClock(clk))
		for i := 0; i < n; i++ {
			dt := nextStep()
			clk.Add(dt)
			m := all[r.Intn(3)]
			conf := []float64{0, 0.29, 0.3, 0.64999, 0.65, 0.7, 0.70001, 0.99, 1}[r.Intn(9)]
			if r.Chance(1, 4) {
				conf = r.Float64()
			}
			st.next = rebalancing.Decision{Mode: m, Confidence: conf, Reason: "scripted"}
			got := sel.SelectConfig(rebalancing.WorkloadFeatures{SampleSize: 1}, rebalancing.WorkloadUnknown)
			if !record(dt, m, conf, got) {
				return
			}
		}
	case 1:
		sel := rebalancing.NewConfigSelector(rebalancing.WithSafetyConstraints(cons), rebalancing.WithSelectorClock(clk))
		pure := &rebalancing.RuleBasedStrategy{}
		sizes := []uint64{0, 1, 100<<20 - 1, 100 << 20, 100<<20 + 1, 500<<20 - 1, 500 << 20, 500<<20 + 1, 1<<30 - 1, 1 << 30, 1<<30 + 1, 1 << 63}
		for i := 0; i < n; i++ {
			dt := nextStep()
			clk.Add(dt)
			f := rebalancing.WorkloadFeatures{
				DeleteRatio: r.Float64(), WriteRatio: r.Float64(), ReadRatio: r.Float64(),
				OperationRate: []float64{0, 1, 9.99, 10, 99, 100, 1e6, math.Inf(1)}[r.Intn(8)],
				BurstDetected: r.Bool(), FileSize: sizes[r.Intn(len(sizes))],
				SampleSize: []int{0, 1, 9, 10, 49, 50, 99, 100, 999, 1000, 1 << 30}[r.Intn(11)],
			}
			if r.Chance(1, 20) {
				f.DeleteRatio = math.NaN()
			}
			if r.Chance(1, 3) {
				// the band in which the rules pick incremental rebalancing, with a burst: the
				// decisions an allowed-modes list without "incremental" has to refuse
				f.FileSize = []uint64{500<<20 + 1, 700 << 20, 1<<30 - 1}[r.Intn(3)]
				f.BurstDetected = r.Chance(3, 4)
			}
			wt := rebalancing.WorkloadType(r.Intn(7))
			raw := pure.Select(f, wt)
			got := sel.SelectConfig(f, wt)
			if !record(dt, raw.Mode, raw.Confidence, got) {
				return
			}
		}
	default:
		det := rebalancing.NewWorkloadDetector(rebalancing.WithClock(clk), rebalancing.WithWindowSize([]time.Duration{time.Second, time.Minute, 5 * time.Minute}[r.Intn(3)]), rebalancing.WithMinSampleSize(r.Range(1, 20)), rebalancing.WithCapacity(r.Range(5, 500)))
		sel := rebalancing.NewConfigSelector(rebalancing.WithSafetyConstraints(cons), rebalancing.WithSelectorClock(clk))
		tree := &fakeTree{size: uint64(r.Intn(3)) * (400 << 20)}
		sr := rebalancing.NewSmartRebalancer(tree, rebalancing.WithDetector(det), rebalancing.WithSelector(sel), rebalancing.WithRebalancerClock(clk))
		pure := &rebalancing.RuleBasedStrategy{}
		mix := [][3]int{{1, 1, 1}, {0, 1, 9}, {0, 9, 0}, {9, 1, 0}, {1, 8, 1}, {2, 2, 6}}[r.Intn(6)] // read, write, delete weights
		for i := 0; i < n; i++ {
			// a burst of operations at controlled times, then one evaluation
			k := r.Range(0, 60)
			for j := 0; j < k; j++ {
				clk.Add(time.Duration(r.Intn(3)) * []time.Duration{time.Microsecond, time.Millisecond, time.Second}[r.Intn(3)])
				op := rebalancing.OperationType(r.Weighted(mix[:]))
				if r.Chance(1, 30) {
					tree.size = uint64(r.Intn(4)) * (300 << 20)
				}
				_ = sr.RecordOperation(op)
			}
			dt := nextStep()
			clk.Add(dt)
			f := det.ExtractFeatures()
			wt := det.DetectWorkloadType()
			raw := pure.Select(f, wt)
			got, err := sr.Evaluate()
			if err != nil {
				c.Violation("selector:evaluate-error", err.Error())
				return
			}
			if !record(dt, raw.Mode, raw.Confidence, got) {
				return
			}
		}
	}
	desc := fmt.Sprintf("B|v%d|minconf%v|period%v|allowed%v|n%d|chg%d|blk%d|low%d|dis%d|back%v", variant, cons.MinConfidence, cons.MinStabilityPeriod, cons.AllowedModes, n/20, changes, blocked, lowConf > 0, disallowed > 0, allowBackwards)
	c.Case(desc, n >= 2)
	c.Count("B:observations", int64(len(hist)))
	c.Count("B:mode_changes_accepted", int64(changes))
	c.Count("B:changes_blocked_by_stability", int64(blocked))
	c.Count("B:low_confidence_fallbacks", int64(lowConf))
	c.Count("B:disallowed_raw_modes", int64(disallowed))
	c.Count(fmt.Sprintf("B:variant%d", variant), 1)
	if len(hist) <= 6 {
		c.Sample(map[string]any{"part": "B", "constraints": fmt.Sprintf("%+v", cons), "observations": hist})
	}
}
