package props

import (
	"bytes"
	"encoding/binary"
	"fmt"
	"os"
	"path/filepath"
	"sort"
	"strings"

	"github.com/scigolib/hdf5/internal/core"
	"github.com/scigolib/hdf5/internal/zzverif/dump"
	"github.com/scigolib/hdf5/internal/zzverif/ev"
	"github.com/scigolib/hdf5/internal/zzverif/hx"
	"github.com/scigolib/hdf5/internal/zzverif/specdec"
)

// C12 — variable-length data round-trips through the global heap.
//
// Observer: the independent decoder follows every 16-byte element of a vlen dataset to
// its global heap object and hands back the element bytes; every GCOL collection it
// touches is decoded strictly (declared size, object sizes, alignment, free-space object).
// The library's own readers are consulted too: a returned value must equal what was
// written, an error is an accepted answer where no vlen reader exists.

// byte lengths around the capacity of one 4 KiB collection: 16-byte collection header + 16-byte
// object header + data (aligned to 8) + room or no room for the 16-byte free-space object
var c12Lens = []int{0, 1, 7, 8, 9, 4031, 4032, 4033, 4039, 4040, 4041, 4047, 4048, 4049, 4055, 4056, 4057, 4063, 4064, 4065, 4071, 4072, 4073, 4079, 4080, 4081}

type c12DS struct {
	path  string
	kind  string // vstr | v[]i32 ...
	elems [][]byte
	val   hx.Val
	dims  []uint64
	chunk []uint64
}

func c12ElemLen(r *ev.Rand, class int, unit int) (n int, tag string) {
	switch class {
	case 0:
		return 0, "empty"
	case 1:
		if unit == 1 && r.Chance(1, 4) {
			return r.Range(9, 16), "small" // 32-byte objects: 127 of them leave 16 bytes
		}
		return r.Range(1, 24), "small"
	case 2: // around the capacity of one 4 KiB collection (byte lengths)
		b := c12Lens[r.Intn(len(c12Lens))]
		return b / unit, "edge"
	case 3:
		return r.Range(200, 1500) / unit, "medium"
	case 4:
		return r.Range(65537, 70000) / unit, "huge"
	case 6: // one element of a MiB or more (a collection of its own with room for followers)
		return r.Range(1<<20, 1<<20+700000) / unit, "MiB"
	default:
		return r.Range(150000, 260000) / unit, "huge"
	}
}

func c12Run(c *ev.Ctx) {
	r := c.R
	sbv := []uint8{0, 2, 3}[r.Intn(3)]
	nds := r.Weighted([]int{5, 3, 2}) + 1
	// one case in thirty: a single chunked dataset whose last collection is left open at Close
	// with exactly 24 / 8 free bytes (252 / 253 empty elements and one short one)
	edgeAtClose := c.Index%30 == 11
	if edgeAtClose {
		nds = 1
	}
	// one case in 150: seven datasets of 10^4 short elements each in one file - more heap
	// objects in one session than a 16-bit object index can count
	manyObjects := c.Index%150 == 19
	if manyObjects {
		nds = 7
	}
	kinds := []string{"vstr", "v[]i32", "v[]i64", "v[]u32", "v[]u64", "v[]f32", "v[]f64"}
	unitOf := map[string]int{"vstr": 1, "v[]i32": 4, "v[]i64": 8, "v[]u32": 4, "v[]u64": 8, "v[]f32": 4, "v[]f64": 8}
	// count profile: mostly small, sometimes many collections, rarely 10^4 elements
	profile := r.Weighted([]int{60, 30, 8, 2})
	if !c.Thorough() && profile == 3 && c.Index%4 != 0 {
		profile = 1
	}
	s := &hx.Script{SB: sbv}
	var dss []*c12DS
	tags := map[string]bool{}
	mib := profile == 0 && c.Index%16 == 7
	for d := 0; d < nds; d++ {
		kind := kinds[r.Intn(len(kinds))]
		unit := unitOf[kind]
		var count int
		switch profile {
		case 0:
			count = r.Range(1, 12)
		case 1:
			count = r.Range(50, 600)
		case 2:
			count = r.Range(1000, 3000)
		default:
			count = 10000
			if d > 0 {
				count = r.Range(1, 20)
			}
		}
		if manyObjects {
			count = 10000
		}
		// one file in eight: long runs of empty elements (16-byte objects: 255 of them fill a
		// collection to its last byte, the last object header ends exactly at the collection end)
		emptyRun := (r.Chance(1, 8) || edgeAtClose) && !manyObjects
		closer := false // the run ends with one short element (254 elements: 8 bytes stay free)
		if emptyRun {
			count = []int{253, 254, 254, 255, 256, 300, 510, 511, 600}[r.Intn(9)]
			closer = r.Chance(1, 3)
			if edgeAtClose {
				count, closer = 253+(c.Index/30)%2, true
			}
			tags["empty-run"] = true
		}
		ds := &c12DS{path: fmt.Sprintf("/v%d", d), kind: kind}
		ds.val.Kind = kind
		hugeBudget := 2
		for i := 0; i < count; i++ {
			w := []int{10, 50, 25, 12, 2, 1}
			if emptyRun {
				w = []int{1, 0, 0, 0, 0, 0}
				if r.Chance(1, 100) && !edgeAtClose {
					w = []int{0, 1, 0, 0, 0, 0}
				}
				// a run that starts with one short element (what lies behind the collection in the file is
				// the reference of element 0, which must not be an empty one to show damage): 253 / 254 elements leave the collection that
				// is still open at Close with exactly 24 / 8 free bytes
				if closer && i == 0 {
					w = []int{0, 1, 0, 0, 0, 0}
				}
			}
			if manyObjects {
				w = []int{1, 12, 0, 0, 0, 0}
			} else if count > 600 {
				w = []int{10, 70, 10, 10, 0, 0}
				if hugeBudget > 0 && r.Chance(1, 500) {
					w = []int{0, 0, 0, 0, 1, 0}
				}
			}
			cl := r.Weighted(w)
			// one file in sixteen: the second element of the first dataset is a MiB long and is
			// followed by the usual mix of small ones
			if mib && d == 0 && i == 1 {
				cl = 6
				hugeBudget++
			}
			if cl >= 4 {
				if hugeBudget == 0 {
					cl = 1
				} else {
					hugeBudget--
				}
			}
			n, tag := c12ElemLen(r, cl, unit)
			if emptyRun && closer && i == 0 {
				n, tag = max(1, r.Range(1, 8)/unit), "closer"
			}
			tags[tag] = true
			var raw []byte
			if kind == "vstr" {
				raw = make([]byte, n)
				style := r.Intn(4)
				for j := 0; j < n; j++ {
					switch style {
					case 0:
						raw[j] = byte('a' + r.Intn(26))
					case 1: // arbitrary bytes incl. NUL
						raw[j] = byte(r.Intn(256))
					case 2: // embedded NULs
						raw[j] = byte('A' + r.Intn(26))
						if r.Chance(1, 6) {
							raw[j] = 0
						}
					default: // multi-byte UTF-8
						u := []string{"é", "ж", "水", "😀", "x"}[r.Intn(5)]
						if j+len(u) <= n {
							copy(raw[j:], u)
							j += len(u) - 1
						} else {
							raw[j] = 'y'
						}
					}
				}
				if style == 2 && n > 0 && r.Bool() {
					raw[n-1] = 0 // trailing NUL is part of the value
					tags["trailing-nul"] = true
				}
				ds.val.S = append(ds.val.S, string(raw))
			} else {
				seq := make([]uint64, n)
				raw = make([]byte, n*unit)
				for j := range seq {
					var x uint64
					switch r.Intn(4) {
					case 0:
						x = uint64(r.Intn(100))
					case 1:
						x = ^uint64(0) - uint64(r.Intn(3))
					default:
						x = r.Uint64()
					}
					if unit == 4 {
						x &= 0xffffffff
						binary.LittleEndian.PutUint32(raw[j*4:], uint32(x))
					} else {
						binary.LittleEndian.PutUint64(raw[j*8:], x)
					}
					seq[j] = x
				}
				ds.val.VU = append(ds.val.VU, seq)
			}
			ds.elems = append(ds.elems, raw)
		}
		// shape: 1-D, or 2-D when the count factors
		ds.dims = []uint64{uint64(count)}
		if count%2 == 0 && count >= 4 && r.Chance(1, 3) {
			ds.dims = []uint64{uint64(count / 2), 2}
		}
		if r.Chance(2, 5) || edgeAtClose {
			ds.chunk = make([]uint64, len(ds.dims))
			for i := range ds.chunk {
				ds.chunk[i] = uint64(r.Range(1, int(min(ds.dims[i], 64))))
			}
		}
		dss = append(dss, ds)
	}
	// creation and writes: either create+write per dataset, or all created first and the
	// writes interleaved afterwards (collections of different datasets interleave)
	interleave := nds > 1 && r.Bool()
	if interleave {
		for _, ds := range dss {
			s.Ops = append(s.Ops, hx.Op{K: "create_ds", Path: ds.path, DT: ds.kind, Dims: ds.dims, Chunk: ds.chunk})
		}
		if r.Bool() {
			nv := hx.GenNumeric(r, "[]i32", 5, 1)
			s.Ops = append(s.Ops, hx.Op{K: "create_ds", Path: "/plain", DT: "i32", Dims: []uint64{5}, Data: &nv})
		}
		order := r.Perm(nds)
		for _, i := range order {
			v := dss[i].val
			s.Ops = append(s.Ops, hx.Op{K: "write", Path: dss[i].path, Data: &v})
		}
	} else {
		for _, ds := range dss {
			v := ds.val
			s.Ops = append(s.Ops, hx.Op{K: "create_ds", Path: ds.path, DT: ds.kind, Dims: ds.dims, Chunk: ds.chunk, Data: &v})
			if r.Chance(1, 3) {
				av := hx.ScalarOf(r, "i32")
				s.Ops = append(s.Ops, hx.Op{K: "attr", Path: ds.path, Name: "a", Data: &av})
			}
		}
	}
	dumpScriptIfReplay(c, s)
	path := filepath.Join(c.Dir, "c12.h5")
	e := hx.Run(path, s)
	wit := func(detail any) map[string]any {
		var ops []string
		for i, op := range s.Ops {
			st := "ok"
			if i < len(e.Res) && !e.Res[i].OK() {
				st = "ERR:" + e.Res[i].Err + e.Res[i].Panic
			}
			ops = append(ops, fmt.Sprintf("%s[%s]", op.String(), st))
		}
		return map[string]any{"sb": sbv, "ops": ops, "detail": detail}
	}
	for i, res := range e.Res {
		if !res.OK() {
			c.Violation("write-failed:"+s.Ops[i].K+":"+s.Ops[i].DT, wit(res))
			return
		}
	}
	if !e.CloseRes.OK() {
		c.Violation("close-failed", wit(e.CloseRes))
		return
	}
	var tl []string
	for t := range tags {
		tl = append(tl, t)
	}
	sort.Strings(tl)
	var kl []string
	total := 0
	for _, ds := range dss {
		lay := "contig"
		if ds.chunk != nil {
			lay = "chunked"
		}
		kl = append(kl, ds.kind+":"+lay+fmt.Sprintf(":r%d", len(ds.dims)))
		total += len(ds.elems)
	}
	c.Case(fmt.Sprintf("sb%d|%s|%s|profile%d|il%v", sbv, strings.Join(kl, ","), strings.Join(tl, ","), profile, interleave), true)
	c.Count("elements_written", int64(total))
	c.Count("profile:"+[]string{"few", "hundreds", "thousands", "ten-thousand"}[profile], 1)
	for _, t := range tl {
		c.Count("len-class:"+t, 1)
	}

	// ---- library reader
	dp := dump.File(path, dump.Options{})
	if !dp.OpenRes.OK() {
		c.Violation("open-fail", wit(dp.OpenRes))
		return
	}
	for _, ds := range dss {
		o := dp.Get(ds.path)
		if o == nil {
			c.Violation("lib:missing", wit(ds.path))
			continue
		}
		if o.Kind != "dataset" {
			c.Violation("lib:kind", wit(map[string]any{"path": ds.path, "kind": o.Kind}))
			continue
		}
		if !o.MetaRes.OK() {
			c.Violation("lib:info-error", wit(map[string]any{"path": ds.path, "res": o.MetaRes}))
			continue
		}
		if o.TypeClass != 9 {
			c.Violation("lib:class", wit(map[string]any{"path": ds.path, "class": o.TypeClass, "info": o.Info}))
		}
		if !eqU64s(o.Dims, ds.dims) {
			c.Violation("lib:shape", wit(map[string]any{"path": ds.path, "dims": o.Dims, "want": ds.dims}))
		}
		if ds.kind == "vstr" {
			if o.StringsRes.OK() && o.Strings != nil {
				c.Count("lib_string_reads_ok", 1)
				for i := range ds.elems {
					if i >= len(o.Strings) || o.Strings[i] != string(ds.elems[i]) {
						c.Violation("lib:string-value", wit(map[string]any{"path": ds.path, "index": i}))
						break
					}
				}
			} else {
				c.Count("lib_string_reads_error(accepted)", 1)
			}
		}
		// a numeric read of vlen data has no meaning: values must not be returned as if they were data
		if o.ReadRes.OK() && len(o.Read) > 0 {
			c.Violation("lib:numeric-read-of-vlen-succeeds", wit(map[string]any{"path": ds.path, "n": len(o.Read)}))
		}
	}

	// ---- independent decoder
	f, err := os.Open(path)
	if err != nil {
		c.Inconclusive("open: " + err.Error())
		return
	}
	defer f.Close()
	st, _ := f.Stat()
	strict, err := specdec.Decode(f, st.Size(), specdec.Options{})
	if err != nil {
		c.Violation("dec:undecodable", wit(err.Error()))
		return
	}
	tol, err := specdec.Decode(f, st.Size(), specdec.Options{Tolerate: specdec.AllTolerances()})
	if err != nil {
		c.Violation("dec:undecodable", wit(err.Error()))
		return
	}
	for _, sd := range []*specdec.File{strict, tol} {
		isStrict := sd == strict
		for _, ds := range dss {
			o, rerr := sd.Resolve(ds.path)
			if rerr != nil || o == nil {
				if !isStrict {
					c.Violation("dec:missing", wit(map[string]any{"path": ds.path, "err": fmt.Sprint(rerr)}))
				}
				continue
			}
			if o.Type == nil || o.Type.Class != 9 {
				if !isStrict {
					cl := -1
					if o.Type != nil {
						cl = o.Type.Class
					}
					c.Violation("dec:class", wit(map[string]any{"path": ds.path, "class": cl}))
				}
				continue
			}
			if !isStrict {
				// base type
				b := o.Type.Base
				ok := b != nil
				if ok {
					switch ds.kind {
					case "vstr":
						ok = o.Type.VLenIsString && b.Size == 1
					case "v[]i32":
						ok = !o.Type.VLenIsString && b.Class == 0 && b.Size == 4 && b.Signed
					case "v[]i64":
						ok = !o.Type.VLenIsString && b.Class == 0 && b.Size == 8 && b.Signed
					case "v[]u32":
						ok = !o.Type.VLenIsString && b.Class == 0 && b.Size == 4 && !b.Signed
					case "v[]u64":
						ok = !o.Type.VLenIsString && b.Class == 0 && b.Size == 8 && !b.Signed
					case "v[]f32":
						ok = !o.Type.VLenIsString && b.Class == 1 && b.Size == 4
					case "v[]f64":
						ok = !o.Type.VLenIsString && b.Class == 1 && b.Size == 8
					}
				}
				if !ok {
					c.Violation("dec:base:"+ds.kind, wit(map[string]any{"path": ds.path, "type_raw": fmt.Sprintf("% x", o.Type.Raw)}))
				}
			}
			raw, derr := sd.ReadData(o)
			if derr != nil {
				if !isStrict {
					c.Violation("dec:read-data", wit(map[string]any{"path": ds.path, "err": derr.Error()}))
				}
				continue
			}
			els, verr := sd.VLenElements(raw, o.Type)
			if verr != nil {
				if !isStrict {
					c.Violation("dec:elements:"+c12ErrClass(verr.Error()), wit(map[string]any{"path": ds.path, "err": verr.Error()}))
				}
				continue
			}
			if isStrict {
				continue
			}
			c.Count("elements_decoded", int64(len(els)))
			if len(els) != len(ds.elems) {
				c.Violation("dec:count", wit(map[string]any{"path": ds.path, "got": len(els), "want": len(ds.elems)}))
				continue
			}
			for i := range els {
				if !bytes.Equal(els[i], ds.elems[i]) {
					cl := "small"
					switch n := len(ds.elems[i]); {
					case n == 0:
						cl = "empty"
					case n > 60000:
						cl = "huge"
					case n > 3000:
						cl = "edge"
					}
					c.Violation("dec:element:"+cl, wit(map[string]any{"path": ds.path, "index": i, "want_len": len(ds.elems[i]), "got_len": len(els[i]),
						"want_head": fmt.Sprintf("% x", headB(ds.elems[i], 24)), "got_head": fmt.Sprintf("% x", headB(els[i], 24))}))
					break
				}
			}
		}
	}
	// GCOL well-formedness: the element reference layout is judged by the strict decoder; the
	// collections themselves by the tolerant one (which reaches them whatever the layout)
	ncol := 0
	seen := map[string]bool{}
	for _, is := range strict.Issues {
		if is.Key == "vlen-ref-layout" && !seen[is.Key] {
			seen[is.Key] = true
			c.Violation("gcol:"+is.Key, wit(map[string]any{"issue": is.Key, "at": is.Addr, "detail": is.Detail}))
		}
	}
	for _, is := range tol.Issues {
		k := c05NormIssue(is.Key)
		if strings.Contains(k, "GCOL") && !seen[k] {
			seen[k] = true
			c.Violation("gcol:"+k, wit(map[string]any{"issue": is.Key, "at": is.Addr, "detail": is.Detail}))
		}
	}
	for _, x := range tol.Extents {
		if x.Kind == "GCOL" {
			ncol++
			// the library's own collection reader (used for vlen attributes and compound
			// members) must list the same objects with the same bytes as the decoder
			g, gerr := tol.DecodeGlobalHeap(x.Start)
			if gerr != nil || g == nil {
				continue
			}
			var lib *core.GlobalHeapCollection
			var lerr error
			site, msg, pan := ev.Guard(func() { lib, lerr = core.ReadGlobalHeapCollection(f, x.Start, 8) })
			switch {
			case pan:
				if !seen["libgcol-panic"] {
					seen["libgcol-panic"] = true
					c.Violation("lib-collection-reader:panic:"+ev.PanicClass(msg)+"@"+site, wit(map[string]any{"collection": x.Start}))
				}
			case lerr != nil:
				if !seen["libgcol-err"] {
					seen["libgcol-err"] = true
					c.Violation("lib-collection-reader:error", wit(map[string]any{"collection": x.Start, "err": lerr.Error()}))
				}
			default:
				c.Count("collections_read_by_library_reader", 1)
				for _, ob := range g.Objects {
					if ob.Index == 0 {
						continue
					}
					lo, oerr := lib.GetObject(uint32(ob.Index))
					if oerr != nil || !bytes.Equal(lo.Data, ob.Data) {
						if !seen["libgcol-obj"] {
							seen["libgcol-obj"] = true
							pos := "inside"
							if ob.Offset+16+((ob.Size+7)&^7) >= x.End {
								pos = "last-bytes-of-collection"
							}
							c.Violation("lib-collection-reader:object-differs:"+pos, wit(map[string]any{"collection": x.Start, "index": ob.Index, "size": ob.Size, "err": fmt.Sprint(oerr)}))
						}
						break
					}
				}
			}
		}
	}
	for _, is := range tol.CheckExtents() {
		if strings.Contains(is.Detail, "GCOL") || strings.Contains(is.Key, "GCOL") {
			k := c05NormIssue(is.Key)
			if k == "tree-node-smaller-than-2K-entries" {
				continue // the neighbour's size, judged by C05
			}
			if !seen["x"+k] {
				seen["x"+k] = true
				c.Violation("gcol-extent:"+k, wit(map[string]any{"issue": is.Key, "at": is.Addr, "detail": is.Detail}))
			}
		}
	}
	c.Count("collections_decoded", int64(ncol))
	if ncol > 1 {
		c.Count("files_with_rollover", 1)
	}
}

func c12ErrClass(s string) string {
	switch {
	case strings.Contains(s, "no GCOL signature"):
		return "collection-not-written"
	case strings.Contains(s, "has no object"):
		return "object-missing"
	case strings.Contains(s, "heap object has"):
		return "object-short"
	case strings.Contains(s, "element size"):
		return "element-size"
	}
	return "other"
}

var C12 = &ev.Property{
	ID:    "C12",
	Level: "exploration",
	Rule: "each case writes 1-3 variable-length datasets (vlen string and vlen sequences of int32/int64/uint32/uint64/float32/float64; contiguous or chunked; rank 1-2; superblock 0/2/3; writes interleaved between datasets or not) with element lists of 1-12, 50-600, 1000-3000 or 10^4 elements whose byte lengths are drawn from {0, 1-24, the 4031..4081 collection-capacity edge, 200-1500, >64 KiB, >150 KiB; one file in sixteen with an element of 1-1.7 MiB followed by small ones}, strings with arbitrary bytes, embedded/trailing NUL and multi-byte UTF-8. After Close and reopen: the library must report a variable-length datatype and the written shape, any value its readers return must equal the written one (an error is accepted); the independent decoder must find class 9 with the written base type, follow every element reference into the global heap and return exactly the written bytes; every collection is also read with the library's own collection reader, which must list the same objects with the same bytes; one file in eight holds runs of 252-600 empty elements (collections filled to the last byte, or left with exactly 8 / 16 / 24 free bytes at Close: directed in one case of thirty); every issue the decoder raises on a GCOL collection (size field, object size, alignment, free-space object, duplicate index, extent overlap) or on the element reference layout is a violation. " +
		"non-trivial: every case; distinct = (superblock, kinds+layouts, length classes, count profile, interleaving).",
	Assumptions: []string{"the independent decoder (validated on the reference corpus' vlen files against h5dump output) stands in for the format specification"},
	Cases: func(tier string) int {
		if tier == "thorough" {
			return 8000
		}
		return 600
	},
	Run:   c12Run,
	Floor: func(tier string) int64 { return 50 },
}
