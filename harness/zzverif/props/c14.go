package props

import (
	"bytes"
	"encoding/binary"
	"errors"
	"fmt"
	"sort"
	"sync"
	"time"

	"github.com/scigolib/hdf5/internal/core"
	"github.com/scigolib/hdf5/internal/structures"
	"github.com/scigolib/hdf5/internal/zzverif/ev"
	"github.com/scigolib/hdf5/internal/zzverif/memio"
	"github.com/scigolib/hdf5/internal/zzverif/ref"
)

// C14 — B-tree v2 name index is a faithful, persistent map under any history; the key
// hash is Jenkins lookup3.
//
// Monitor: an executable model (map name -> heap id) is stepped together with the real
// WritableBTreeV2; after every operation the monitor compares what the tree exposes
// (records, order, header counts, searches for present and absent names) with the model,
// and at random points writes the tree out and loads it back.

var lookup3Vectors = []struct {
	s    string
	init uint32
	want uint32
}{
	{"", 0, 0xdeadbeef},
	{"", 0xdeadbeef, 0xbd5b7dde},
	{"Four score and seven years ago", 0, 0x17770551},
	{"Four score and seven years ago", 1, 0xcd628161},
}

func lookup3SelfCheck() error {
	for _, v := range lookup3Vectors {
		if got := ref.Lookup3([]byte(v.s), v.init); got != v.want {
			return fmt.Errorf("reference lookup3(%q,%d)=%08x, published %08x", v.s, v.init, got, v.want)
		}
	}
	return nil
}

func testSB() *core.Superblock {
	return &core.Superblock{Version: 2, OffsetSize: 8, LengthSize: 8, Endianness: binary.LittleEndian}
}

// ---- colliding names (by the library's own hash), mined once per process

var (
	collOnce  sync.Once
	collPairs [][2]string
)

func minedCollisions() [][2]string {
	collOnce.Do(func() {
		seen := make(map[uint32]string, 1<<20)
		r := ev.NewRand(12345, "collisions", 0)
		for i := 0; i < 1_500_000 && len(collPairs) < 64; i++ {
			// lengths 1..11 and 13..23: stays clear of the length%12==0 class so that the
			// pairs are independent of the hash-tail behaviour checked separately
			n := 3 + r.Intn(8)
			if r.Bool() {
				n += 12
			}
			b := make([]byte, n)
			for j := range b {
				b[j] = "abcdefghijklmnopqrstuvwxyz0123456789_"[r.Intn(37)]
			}
			s := string(b)
			h := structures.VerifJenkinsHash(s)
			if o, ok := seen[h]; ok && o != s {
				collPairs = append(collPairs, [2]string{o, s})
				continue
			}
			seen[h] = s
		}
	})
	return collPairs
}

// ---- hash conformance cases

func c14Hash(c *ev.Ctx) {
	if err := lookup3SelfCheck(); err != nil {
		c.Inconclusive("reference lookup3 failed its published vectors: " + err.Error())
		return
	}
	check := func(b []byte) {
		got := structures.VerifJenkinsHash(string(b))
		want := ref.Lookup3(b, 0)
		c.Evals(1)
		if got != want {
			c.Violation(fmt.Sprintf("hash:len%%12=%d", len(b)%12), map[string]any{"name_hex": fmt.Sprintf("%x", b), "len": len(b), "got": fmt.Sprintf("%08x", got), "lookup3": fmt.Sprintf("%08x", want)})
		}
	}
	idx := c.Index
	switch idx {
	case 0:
		// all strings of length 0, 1 and 2
		check(nil)
		for a := 0; a < 256; a++ {
			check([]byte{byte(a)})
		}
		for a := 0; a < 65536; a++ {
			check([]byte{byte(a >> 8), byte(a)})
		}
		c.DistinctN(1 + 256 + 65536)
		c.Count("hash:exhaustive-len0-2", 1+256+65536)
		c.Sample(map[string]any{"kind": "hash", "what": "all byte strings of length 0..2 vs reference lookup3"})
	default:
		// random strings, every length 0..64 (and a few longer)
		per := c.Pick(40, 4000)
		for n := 0; n <= 64; n++ {
			for k := 0; k < per; k++ {
				check(c.R.Bytes(n))
			}
		}
		for _, n := range []int{96, 127, 128, 255, 256, 1000} {
			check(c.R.Bytes(n))
		}
		c.DistinctN(int64(64 * per))
		c.Count("hash:random-len0-64", int64(65*per))
	}
}

// ---- history cases

type c14Op struct {
	Op   string `json:"op"`
	Name string `json:"name,omitempty"`
	ID   uint64 `json:"id,omitempty"`
}

type c14Case struct {
	Mode       string  `json:"mode"`
	NodeSize   uint32  `json:"node_size"`
	Collisions bool    `json:"collisions"`
	Ops        []c14Op `json:"ops"`
}

const id7mask = (1 << 56) - 1

func id7(rec structures.LinkNameRecord) uint64 {
	var t [8]byte
	copy(t[:], rec.HeapID[:])
	return binary.LittleEndian.Uint64(t[:])
}

func c14History(c *ev.Ctx) {
	r := c.R
	modes := []string{"off", "immediate", "lazy", "incremental"}
	cs := c14Case{Mode: modes[r.Intn(4)], NodeSize: 4096}
	switch r.Intn(6) {
	case 0:
		cs.NodeSize = 512
	case 1:
		cs.NodeSize = 0 // default
	case 2:
		cs.NodeSize = 128
	}
	cs.Collisions = r.Chance(1, 3)
	bt := structures.NewWritableBTreeV2(cs.NodeSize)
	capacity := bt.VerifMaxRecords()
	var stopIncr func()
	switch cs.Mode {
	case "lazy", "incremental":
		cfg := structures.DefaultLazyConfig()
		cfg.Threshold = []float64{0.001, 0.05, 0.5, 1.0}[r.Intn(4)]
		cfg.MaxDelay = []time.Duration{time.Nanosecond, time.Millisecond, time.Hour}[r.Intn(3)]
		cfg.BatchSize = []int{1, 10, 100}[r.Intn(3)]
		bt.EnableLazyRebalancing(cfg)
		if cs.Mode == "incremental" {
			ic := structures.DefaultIncrementalConfig()
			ic.Interval = []time.Duration{time.Microsecond, 50 * time.Microsecond, time.Millisecond}[r.Intn(3)]
			ic.Budget = []time.Duration{time.Microsecond, time.Millisecond}[r.Intn(2)]
			if err := bt.EnableIncrementalRebalancing(ic); err != nil {
				c.Violation("incremental:enable-failed", err.Error())
				return
			}
			stopIncr = func() { _ = bt.StopIncrementalRebalancing() }
			defer func() {
				if stopIncr != nil {
					stopIncr()
				}
			}()
		}
	}
	del := func(name string) error {
		switch cs.Mode {
		case "off":
			return bt.DeleteRecord(name)
		case "immediate":
			return bt.DeleteRecordWithRebalancing(name)
		default:
			return bt.DeleteRecordLazy(name)
		}
	}

	// name pool
	var pool []string
	npool := r.Range(4, 60)
	target := r.Intn(3) // 0: small, 1: around capacity, 2: beyond
	if target > 0 {
		npool = capacity + r.Range(5, 40)
	}
	coll := minedCollisions()
	collOf := map[string]string{}
	if cs.Collisions && len(coll) > 0 {
		for k := 0; k < 6; k++ {
			p := coll[r.Intn(len(coll))]
			pool = append(pool, p[0], p[1])
			collOf[p[0]], collOf[p[1]] = p[1], p[0]
		}
	}
	for len(pool) < npool {
		var s string
		switch r.Intn(6) {
		case 0:
			s = fmt.Sprintf("a%d", len(pool))
		case 1:
			s = fmt.Sprintf("%012d", len(pool)) // length 12
		case 2:
			s = fmt.Sprintf("%024d", len(pool)) // length 24
		case 3:
			s = fmt.Sprintf("ключ-%d-é", len(pool))
		default:
			s = fmt.Sprintf("n%d_%x", len(pool), r.Bytes(r.Intn(20)))
		}
		pool = append(pool, s)
	}
	model := map[string]uint64{}
	nops := r.Range(1, 60)
	if target > 0 {
		nops = capacity + r.Range(20, 400)
	}
	if c.Thorough() && r.Chance(1, 4) {
		nops += 500
	}
	sb := testSB()
	var hist []c14Op
	crossedCapacity, didReload, collisionLive := false, false, false
	var backing *memio.File // the file the current tree was loaded from (nil: built in memory)
	var backingAddr uint64
	writeAtSessions, sameObjectWriteBacks := 0, 0
	fail := func(key string, detail any) {
		trimmed := hist
		if len(trimmed) > 60 {
			trimmed = trimmed[len(trimmed)-60:]
		}
		c.Violation(key, map[string]any{"mode": cs.Mode, "node_size": cs.NodeSize, "detail": detail, "ops_total": len(hist), "last_ops": trimmed, "live": len(model)})
	}
	tag := func() string {
		t := cs.Mode
		if didReload {
			t += ",reloaded"
		}
		return t
	}
	// invariants checked after every op
	checkState := func() bool {
		recs := bt.GetRecords()
		if len(recs) != len(model) {
			fail("records:count:"+tag(), fmt.Sprintf("GetRecords has %d records, model has %d", len(recs), len(model)))
			return false
		}
		for i := 1; i < len(recs); i++ {
			if recs[i-1].NameHash > recs[i].NameHash {
				fail("records:unsorted:"+tag(), fmt.Sprintf("record %d hash %08x > record %d hash %08x", i-1, recs[i-1].NameHash, i, recs[i].NameHash))
				return false
			}
		}
		nr, tot, depth, leafN := bt.VerifBTreeCounts()
		if int(nr) != len(model) || tot != uint64(len(model)) || leafN != len(model) || depth != 0 {
			fail("header:counts:"+tag(), fmt.Sprintf("header NumRecordsRoot=%d TotalRecords=%d depth=%d leaf=%d, model=%d", nr, tot, depth, leafN, len(model)))
			return false
		}
		// multiset of (hash,id) equals the model's
		want := make([][2]uint64, 0, len(model))
		for n, id := range model {
			want = append(want, [2]uint64{uint64(structures.VerifJenkinsHash(n)), id & id7mask})
		}
		got := make([][2]uint64, 0, len(recs))
		for _, rc := range recs {
			got = append(got, [2]uint64{uint64(rc.NameHash), id7(rc)})
		}
		less := func(s [][2]uint64) func(i, j int) bool {
			return func(i, j int) bool {
				if s[i][0] != s[j][0] {
					return s[i][0] < s[j][0]
				}
				return s[i][1] < s[j][1]
			}
		}
		sort.Slice(want, less(want))
		sort.Slice(got, less(got))
		for i := range want {
			if want[i] != got[i] {
				fail("records:content:"+tag(), fmt.Sprintf("record set differs from model at sorted position %d: got (hash %08x,id %x) want (hash %08x,id %x)", i, got[i][0], got[i][1], want[i][0], want[i][1]))
				return false
			}
		}
		return true
	}
	searchCheck := func(name string) bool {
		idb, found := bt.SearchRecord(name)
		has := bt.HasKey(name)
		wantID, live := model[name]
		other, hasColl := collOf[name]
		_, otherLive := model[other]
		ckey := ""
		if hasColl && otherLive {
			ckey = "collision:"
		}
		if ckey == "" && (found != live || has != live) {
			// a chance collision: the 32-bit hash of this name equals that of a live name
			h := structures.VerifJenkinsHash(name)
			for n := range model {
				if n != name && structures.VerifJenkinsHash(n) == h {
					other, ckey = n, "collision:"
					c.Count("chance_hash_collisions_met", 1)
					break
				}
			}
		}
		if found != live || has != live {
			if ckey != "" {
				fail("collision:search:presence", fmt.Sprintf("name %q live=%v but SearchRecord found=%v HasKey=%v (partner %q with the same hash is live)", name, live, found, has, other))
				return true // non-mutating and classified: the history goes on
			}
			fail("search:presence:"+tag(), fmt.Sprintf("name %q live=%v but SearchRecord found=%v HasKey=%v", name, live, found, has))
			return false
		}
		if live {
			if len(idb) != 8 || binary.LittleEndian.Uint64(idb) != wantID&id7mask {
				if ckey != "" {
					fail("collision:search:value", fmt.Sprintf("name %q: SearchRecord id %x, model %x (partner %q with the same hash is live)", name, idb, wantID&id7mask, other))
					return true
				}
				fail("search:value:"+tag(), fmt.Sprintf("name %q: SearchRecord id %x, model %x", name, idb, wantID&id7mask))
				return false
			}
		}
		return true
	}

	// the object a tree is loaded into is constructed with the tree's own node size or with
	// another one (the file writer always constructs it with 4096, whatever the file holds):
	// what counts after loading is the node size found in the file
	loaderSize := func() uint32 {
		if r.Bool() {
			return cs.NodeSize
		}
		return []uint32{4096, 512, 128, 0, 8192}[r.Intn(5)]
	}
	collisionMutations := 0
	nextID := uint64(r.Intn(1000) + 1)
	// half of the histories are observed sparsely: the monitor's own searches and record
	// listings between two operations of the history are calls into the tree as well, and what
	// the tree remembers from one call to the next is part of what is under test. In those
	// histories a name that was searched is likely to be operated on next (look up, then
	// update or delete), with other operations in between.
	quiet := r.Bool()
	obsEvery := 1
	if quiet {
		obsEvery = r.Range(2, 6)
	}
	sticky := ""
	for step := 0; step < nops; step++ {
		name := pool[r.Intn(len(pool))]
		if quiet && sticky != "" && r.Bool() {
			name = sticky
		} else if target > 0 && len(model) < capacity && r.Chance(3, 4) {
			// steer towards capacity: pick an absent name
			for k := 0; k < 5; k++ {
				if _, ok := model[name]; !ok {
					break
				}
				name = pool[r.Intn(len(pool))]
			}
		}
		if quiet && (cs.Mode == "lazy" || cs.Mode == "incremental") && len(model) >= 3 && r.Chance(1, 10) {
			// look a name up, delete another one (lazily), then update the first - with nothing
			// in between: whatever the look-up left behind must not outlive the delete
			var names []string
			for n := range model {
				if _, coll := collOf[n]; !coll {
					names = append(names, n)
				}
			}
			sort.Strings(names)
			if len(names) >= 3 {
				x, y := names[r.Intn(len(names))], names[r.Intn(len(names))]
				hist = append(hist, c14Op{"search", x, 0})
				if !searchCheck(x) {
					return
				}
				hist = append(hist, c14Op{"delete", y, 0})
				if err := del(y); err != nil {
					fail("delete:refused:"+tag(), err.Error())
					return
				}
				delete(model, y)
				nextID += 11
				hist = append(hist, c14Op{"update", x, nextID})
				err := bt.UpdateRecord(x, nextID)
				_, xLive := model[x]
				switch {
				case xLive && err != nil:
					fail("update:refused:"+tag(), err.Error())
					return
				case !xLive && err == nil:
					fail("update:absent-accepted:"+tag(), fmt.Sprintf("update of absent name %q succeeded", x))
					return
				case xLive:
					model[x] = nextID
				}
				if !checkState() {
					return
				}
				continue
			}
		}
		_, live := model[name]
		w := []int{5, 2, 2, 3, 1}
		if target > 0 && len(model) < capacity {
			w = []int{12, 1, 1, 1, 1}
		}
		if target == 2 && len(model) >= capacity {
			w = []int{6, 2, 2, 2, 1}
		}
		switch r.Weighted(w) {
		case 0: // insert (only absent names: inserting a present name has no defined meaning)
			if live {
				continue
			}
			nextID += uint64(r.Intn(1<<20) + 1)
			id := nextID
			if r.Chance(1, 20) {
				id = r.Uint64() // exercises the 7-byte truncation
			}
			hist = append(hist, c14Op{"insert", name, id})
			before := bt.GetRecords()
			err := bt.InsertRecord(name, id)
			if len(model) >= capacity {
				crossedCapacity = true
				if err == nil {
					fail("capacity:insert-accepted:"+tag(), fmt.Sprintf("insert #%d accepted beyond capacity %d", len(model)+1, capacity))
					return
				}
				after := bt.GetRecords()
				if len(after) != len(before) {
					fail("capacity:failed-insert-changed-state:"+tag(), "record count changed by a refused insert")
					return
				}
			} else {
				if err != nil {
					fail("insert:refused:"+tag(), fmt.Sprintf("insert of absent name %q refused below capacity (%d/%d): %v", name, len(model), capacity, err))
					return
				}
				model[name] = id
			}
		case 1: // update
			nextID += 7
			hist = append(hist, c14Op{"update", name, nextID})
			err := bt.UpdateRecord(name, nextID)
			other, hasColl := collOf[name]
			_, otherLive := model[other]
			ckey := ""
			if hasColl && otherLive {
				ckey = "collision:"
			}
			if live && err != nil {
				fail("update:refused:"+tag(), err.Error())
				return
			}
			if ckey != "" {
				// both names of a colliding pair are involved: the index identifies records by
				// hash only, so which record was touched is undefined. One classified event,
				// then the history ends (model and tree can no longer be compared).
				if !live && err == nil {
					fail("collision:update:absent-accepted", fmt.Sprintf("update of absent name %q changed the record of %q", name, other))
				}
				collisionMutations++
				goto done
			}
			if !live && err == nil {
				fail("update:absent-accepted:"+tag(), fmt.Sprintf("update of absent name %q succeeded", name))
				return
			}
			if live {
				model[name] = nextID
			}
		case 2: // delete
			hist = append(hist, c14Op{"delete", name, 0})
			err := del(name)
			other, hasColl := collOf[name]
			_, otherLive := model[other]
			ckey := ""
			if hasColl && otherLive {
				ckey = "collision:"
			}
			if live && err != nil {
				fail("delete:refused:"+tag(), err.Error())
				return
			}
			if ckey != "" {
				if !live && err == nil {
					fail("collision:delete:absent-accepted", fmt.Sprintf("delete of absent name %q removed the record of %q", name, other))
				}
				collisionMutations++
				goto done
			}
			if !live && err == nil {
				fail("delete:absent-accepted:"+tag(), fmt.Sprintf("delete of absent name %q succeeded", name))
				return
			}
			delete(model, name)
		case 3: // search
			hist = append(hist, c14Op{"search", name, 0})
			if !searchCheck(name) {
				return
			}
			sticky = name
		case 4: // write out and load back (both fresh-write and in-place paths)
			if backing != nil && r.Bool() {
				// a modify session on a tree that was loaded from a file: write back in place, load
				// again, continue on the loaded copy. Nothing before the tree's own blocks may
				// change (the file's other content), the reloaded tree equals the model.
				hist = append(hist, c14Op{"writeat+load", "", 0})
				before := backing.Snapshot()
				if err := bt.WriteAt(backing, sb); err != nil {
					fail("persist:writeat-failed:"+tag(), err.Error())
					return
				}
				after := backing.Snapshot()
				// the tree's blocks were allocated from offset 2048 on; the 2048 bytes in front of
				// them stand for the rest of the file (superblock, other objects)
				for i := 0; i < 2048 && i < len(before) && i < len(after); i++ {
					if before[i] != after[i] {
						fail("persist:writeat-outside-tree:"+tag(), fmt.Sprintf("byte %d in front of the tree's blocks changed from %02x to %02x; records in the tree: %d", i, before[i], after[i], len(model)))
						return
					}
				}
				nb := structures.NewWritableBTreeV2(loaderSize())
				if err := nb.LoadFromFile(backing, backingAddr, sb); err != nil {
					fail("persist:load-after-writeat-failed:"+tag(), err.Error())
					return
				}
				if !recordsEqual(bt.GetRecords(), nb.GetRecords()) {
					fail("persist:writeat-record:"+tag(), "records differ after WriteAt + load")
					return
				}
				if msg := c14CheckBytes(backing, backingAddr, len(model)); msg != "" {
					fail("persist:bytes:"+tag(), msg)
					return
				}
				// continue on the freshly loaded copy, or keep the object that has just written
				// itself back (one loaded tree written back several times as it changes)
				if r.Bool() {
					if cs.Mode == "lazy" {
						nb.EnableLazyRebalancing(structures.DefaultLazyConfig())
					}
					bt = nb
				} else {
					sameObjectWriteBacks++
				}
				writeAtSessions++
				break
			}
			hist = append(hist, c14Op{"write+load", "", 0})
			mf := memio.New(2048)
			_, _ = mf.WriteAt(bytes.Repeat([]byte{0x5A}, 2048), 0) // stands for the rest of the file
			addr, err := bt.WriteToFile(mf, mf, sb)
			if err != nil {
				fail("persist:write-failed:"+tag(), err.Error())
				return
			}
			nb := structures.NewWritableBTreeV2(loaderSize())
			if err := nb.LoadFromFile(mf, addr, sb); err != nil {
				fail("persist:load-failed:"+tag(), err.Error())
				return
			}
			a, b := bt.GetRecords(), nb.GetRecords()
			if len(a) != len(b) {
				fail("persist:count:"+tag(), fmt.Sprintf("loaded %d records, wrote %d", len(b), len(a)))
				return
			}
			for i := range a {
				if a[i] != b[i] {
					fail("persist:record:"+tag(), fmt.Sprintf("record %d differs after write+load: %+v vs %+v", i, a[i], b[i]))
					return
				}
			}
			if r.Bool() {
				// continue the history on the loaded tree, persisting through WriteAt
				if stopIncr != nil {
					stopIncr()
					stopIncr = nil
					if cs.Mode == "incremental" {
						cs.Mode = "lazy"
					}
				}
				if cs.Mode == "lazy" {
					nb.EnableLazyRebalancing(structures.DefaultLazyConfig())
				}
				bt = nb
				didReload = true
				backing, backingAddr = mf, addr
				// in-place rewrite must reproduce too
				if err := bt.WriteAt(mf, sb); err != nil {
					fail("persist:writeat-failed:"+tag(), err.Error())
					return
				}
				nb2 := structures.NewWritableBTreeV2(loaderSize())
				if err := nb2.LoadFromFile(mf, addr, sb); err != nil {
					fail("persist:load-after-writeat-failed:"+tag(), err.Error())
					return
				}
				if !recordsEqual(bt.GetRecords(), nb2.GetRecords()) {
					fail("persist:writeat-record:"+tag(), "records differ after WriteAt + load")
					return
				}
			}
			// the bytes on disk: header count fields equal the number of records
			if msg := c14CheckBytes(mf, addr, len(model)); msg != "" {
				fail("persist:bytes:"+tag(), msg)
				return
			}
		}
		if quiet && step%obsEvery != 0 && step != nops-1 {
			continue
		}
		if !checkState() {
			return
		}
		// probe one more name every step (present or absent), colliding partners preferably
		probe := pool[r.Intn(len(pool))]
		if o, ok := collOf[name]; ok {
			probe = o
			if _, l1 := model[name]; l1 {
				collisionLive = true
			}
		}
		if !searchCheck(probe) {
			return
		}
	}
done:
	if collisionMutations > 0 {
		c.Count("histories_ended_at_mutation_of_colliding_pair", 1)
		goto record
	}
	if !checkState() {
		return
	}
	// final full sweep over the pool + never-inserted names
	for _, n := range pool {
		if !searchCheck(n) {
			return
		}
	}
	for k := 0; k < 20; k++ {
		if !searchCheck(fmt.Sprintf("absent-%d-%x", k, r.Bytes(4))) {
			return
		}
	}
record:
	c.Count("in_place_write_back_sessions", int64(writeAtSessions))
	c.Count("write_backs_by_an_object_that_wrote_back_before", int64(sameObjectWriteBacks))
	desc := fmt.Sprintf("%s|ns%d|cap%v|reload%v|coll%v|ops%d|live%d", cs.Mode, cs.NodeSize, crossedCapacity, didReload, collisionLive, len(hist)/20, len(model)/20)
	c.Case(desc, len(hist) >= 3)
	c.Count("mode:"+cs.Mode, 1)
	c.Count("ops", int64(len(hist)))
	if crossedCapacity {
		c.Count("histories_reaching_capacity", 1)
	}
	if didReload {
		c.Count("histories_continued_after_reload", 1)
	}
	if collisionLive {
		c.Count("histories_with_live_colliding_partner_probe", 1)
	}
	if len(hist) <= 12 {
		cs.Ops = hist
		c.Sample(cs)
	}
}

func recordsEqual(a, b []structures.LinkNameRecord) bool {
	if len(a) != len(b) {
		return false
	}
	for i := range a {
		if a[i] != b[i] {
			return false
		}
	}
	return true
}

// c14CheckBytes decodes the written header and leaf independently of the library:
// signature, type, counts, root address inside the file, records sorted.
func c14CheckBytes(mf *memio.File, addr uint64, want int) string {
	d := mf.Snapshot()
	if addr+38 > uint64(len(d)) {
		return "header beyond written bytes"
	}
	h := d[addr:]
	if !bytes.Equal(h[:4], []byte("BTHD")) {
		return "header signature is not BTHD"
	}
	if h[4] != 0 || h[5] != 5 {
		return fmt.Sprintf("header version/type = %d/%d", h[4], h[5])
	}
	nodeSize := binary.LittleEndian.Uint32(h[6:])
	recSize := binary.LittleEndian.Uint16(h[10:])
	depth := binary.LittleEndian.Uint16(h[12:])
	root := binary.LittleEndian.Uint64(h[16:])
	nroot := binary.LittleEndian.Uint16(h[24:])
	total := binary.LittleEndian.Uint64(h[26:])
	if recSize != 11 || depth != 0 {
		return fmt.Sprintf("record size %d depth %d", recSize, depth)
	}
	if int(nroot) != want || total != uint64(want) {
		return fmt.Sprintf("on-disk counts root=%d total=%d, live records %d", nroot, total, want)
	}
	if want == 0 {
		return ""
	}
	need := uint64(6 + 11*want + 4)
	if root+need > uint64(len(d)) {
		return "leaf beyond written bytes"
	}
	if need > uint64(nodeSize) {
		return fmt.Sprintf("leaf needs %d bytes, node size %d", need, nodeSize)
	}
	l := d[root:]
	if !bytes.Equal(l[:4], []byte("BTLF")) || l[4] != 0 || l[5] != 5 {
		return "leaf signature/version/type wrong"
	}
	prev := uint32(0)
	for i := 0; i < want; i++ {
		hsh := binary.LittleEndian.Uint32(l[6+11*i:])
		if hsh < prev {
			return fmt.Sprintf("on-disk record %d out of hash order", i)
		}
		prev = hsh
	}
	return ""
}

// c14Bulk: large nodes (8 KiB - 128 KiB) filled with thousands of records in one go, around
// the record counts at which 16-bit products of count and record size wrap (5957/5958 records
// of 11 bytes), written out, loaded and compared, then modified through the loaded object.
func c14Bulk(c *ev.Ctx) {
	r := c.R
	nodeSize := []uint32{8192, 65536, 131072, 131072}[r.Intn(4)]
	bt := structures.NewWritableBTreeV2(nodeSize)
	capacity := bt.VerifMaxRecords()
	n := []int{capacity, capacity - 1, capacity / 2, 5956, 5957, 5958, 5959, 8000}[r.Intn(8)]
	if n > capacity {
		n = capacity
	}
	if n < 1 {
		n = 1
	}
	fail := func(key string, detail any) {
		c.Violation("bulk:"+key, map[string]any{"node_size": nodeSize, "capacity": capacity, "records": n, "detail": detail})
	}
	model := map[string]uint64{}
	for i := 0; i < n; i++ {
		name := fmt.Sprintf("bulk-%06d-%x", i, r.Intn(1<<16))
		if err := bt.InsertRecord(name, uint64(i+1)); err != nil {
			fail("insert-refused", fmt.Sprintf("insert %d of %d: %v", i, n, err))
			return
		}
		model[name] = uint64(i + 1)
	}
	sb := testSB()
	mf := memio.New(2048)
	addr, err := bt.WriteToFile(mf, mf, sb)
	if err != nil {
		fail("write-failed", err.Error())
		return
	}
	nb := structures.NewWritableBTreeV2([]uint32{nodeSize, 4096}[r.Intn(2)])
	if err := nb.LoadFromFile(mf, addr, sb); err != nil {
		fail("load-failed", err.Error())
		return
	}
	if !recordsEqual(bt.GetRecords(), nb.GetRecords()) {
		fail("records-differ-after-load", fmt.Sprintf("%d written, %d loaded", len(bt.GetRecords()), len(nb.GetRecords())))
		return
	}
	// a few operations on the loaded tree, written back in place, loaded again
	for k := 0; k < 5; k++ {
		name := fmt.Sprintf("bulk-late-%d", k)
		err := nb.InsertRecord(name, uint64(1000000+k))
		if (err == nil) != (len(model) < capacity) {
			fail("late-insert", fmt.Sprintf("insert with %d of %d records: %v", len(model), capacity, err))
			return
		}
		if err == nil {
			model[name] = uint64(1000000 + k)
		}
	}
	if err := nb.WriteAt(mf, sb); err != nil {
		fail("writeat-failed", err.Error())
		return
	}
	nb2 := structures.NewWritableBTreeV2(4096)
	if err := nb2.LoadFromFile(mf, addr, sb); err != nil {
		fail("load-after-writeat-failed", err.Error())
		return
	}
	if len(nb2.GetRecords()) != len(model) || !recordsEqual(nb.GetRecords(), nb2.GetRecords()) {
		fail("records-differ-after-writeat", fmt.Sprintf("%d in the model, %d loaded", len(model), len(nb2.GetRecords())))
		return
	}
	c.Count("bulk_trees", 1)
	c.Count("bulk_records", int64(n))
	c.Case(fmt.Sprintf("bulk|ns%d|n%d", nodeSize, n), true)
}

func c14Run(c *ev.Ctx) {
	if c.Index < 4 {
		c14Hash(c)
		return
	}
	if c.Index%25 == 9 {
		c14Bulk(c)
		return
	}
	c14History(c)
}

var _ = errors.New

var C14 = &ev.Property{
	ID:    "C14",
	Level: "exploration",
	Rule: "cases 0-3: name hash vs an independent lookup3 (all strings of length 0..2, random strings of every length 0..64 and some longer); other cases: a seeded history of insert/update/delete/search/write+load on a WritableBTreeV2 in a random rebalancing mode " +
		"(off, immediate, lazy with random thresholds, lazy+incremental with a 1µs-1ms ticker), node sizes 128/512/4096 (one case in 25 fills a node of 8 KiB - 128 KiB with up to 11 914 records in one go, writes it out, loads it, modifies it and writes it back), one third of the histories steered to and beyond capacity, one third with hash-colliding name pairs (mined with the library's own hash) in the pool; after every operation the record multiset, order, header counts and a search of a present or absent name are compared with a map model. " +
		"A history is non-trivial if it has >=3 effective operations; distinct = distinct (mode, node size, reached capacity, continued after reload, probed a live colliding partner, ops/20, live/20) descriptors.",
	Assumptions: []string{
		"inserting a name that is already present is not part of the histories (no defined meaning in a name index)",
		"reference lookup3 is checked against the published hashlittle vectors before use",
	},
	Cases: func(tier string) int {
		if tier == "thorough" {
			return 4 + 5000
		}
		return 4 + 400
	},
	Run:   c14Run,
	Floor: func(tier string) int64 { return 30 },
}
