package props

import (
	"crypto/sha256"
	"fmt"
	"io"
	"math"
	"os"
	"path/filepath"
	"sort"
	"strings"

	"github.com/scigolib/hdf5/internal/zzverif/dump"
	"github.com/scigolib/hdf5/internal/zzverif/ev"
	"github.com/scigolib/hdf5/internal/zzverif/hx"
)

// C10 — reopening a file for modification preserves everything not modified.
//
// Monitor: the dump of the file before a session, patched with the session's successful
// modifications (attribute map per touched dataset, overwritten data, created objects),
// is compared with the dump after the session; a session without modification must leave
// the file byte-identical (sha256 before/after).

func fileSHA(path string) (string, int64) {
	f, err := os.Open(path)
	if err != nil {
		return "ERR:" + err.Error(), 0
	}
	defer f.Close()
	h := sha256.New()
	n, _ := io.Copy(h, f)
	return fmt.Sprintf("%x", h.Sum(nil)), n
}

func copyFile(dst, src string) error {
	b, err := os.ReadFile(src)
	if err != nil {
		return err
	}
	return os.WriteFile(dst, b, 0o644)
}

// c10KindOf derives the Val kind with which a dataset can be overwritten from its stored
// datatype ("" when the harness has no matching Go type).
func c10KindOf(o *dump.Obj) string {
	if !o.MetaRes.OK() || o.TypeBits&1 != 0 { // big-endian: the write API encodes little-endian
		return ""
	}
	switch o.TypeClass {
	case 0:
		sign := "u"
		if o.TypeBits&8 != 0 {
			sign = "i"
		}
		switch o.TypeSize {
		case 1, 2, 4, 8:
			return fmt.Sprintf("[]%s%d", sign, o.TypeSize*8)
		}
	case 1:
		switch o.TypeSize {
		case 4:
			return "[]f32"
		case 8:
			return "[]f64"
		}
	}
	return ""
}

func c10LayoutName(l int) string {
	switch l {
	case 0:
		return "compact"
	case 1:
		return "contiguous"
	case 2:
		return "chunked"
	}
	return fmt.Sprintf("layout%d", l)
}

// noAttrs returns the logical content of o without its attributes (and without its data
// when dropData is set, and without the member list when dropChildren is set).
func c10Head(o *dump.Obj, dropData, dropChildren bool) string {
	c := *o
	c.Attrs = nil
	if dropData {
		c.Read, c.Strings, c.Compound = nil, nil, nil
		c.ReadRes, c.StringsRes, c.CompoundRes = dump.Res{}, dump.Res{}, dump.Res{}
	}
	if dropChildren {
		c.Children = nil
	}
	return c.Logical()
}

func c10AttrFrag(a *dump.Attr) string {
	o := dump.Obj{Attrs: []dump.Attr{*a}}
	l := o.Logical()
	return l[strings.Index(l, "|attrs=")+7:]
}

type c10Session struct {
	ops []hx.Op
}

// c10Intent is one planned operation of a session (random mode fills it from the PRNG).
type c10Intent struct {
	choice   int // 0 attr upsert, 1 attr delete, 2 overwrite data, 3 CreateDataset, 4 CreateGroup
	openPath string
	second   bool // open a further handle first
	name     string
	val      *hx.Val
}

const c10DirectedChunk = 12

// c10SameSizeValue returns a value of the kind and (about) the size attribute a holds now:
// strings of the stored length + delta, numbers of the stored kind and count (delta 0 only).
func c10SameSizeValue(a dump.Attr, delta, salt int) *hx.Val {
	switch {
	case a.HasStr && len(a.Strs) == 1:
		n := len(a.Strs[0]) + delta
		if n < 1 || n > 4000 {
			return nil
		}
		b := make([]byte, n)
		for i := range b {
			b[i] = byte('A' + (i+salt)%26)
		}
		return &hx.Val{Kind: "str", S: []string{string(b)}}
	case delta == -2 && (a.Class == 0 || a.Class == 1) && len(a.Nums) > 0 && len(a.Nums) <= 4096:
		kind := ""
		switch {
		case a.Class == 1 && a.Size == 4:
			kind = "f32"
		case a.Class == 1 && a.Size == 8:
			kind = "f64"
		case a.Class == 0 && (a.Size == 1 || a.Size == 2 || a.Size == 4 || a.Size == 8):
			kind = fmt.Sprintf("i%d", a.Size*8)
			if a.BitField&0x08 == 0 {
				kind = fmt.Sprintf("u%d", a.Size*8)
			}
		}
		if kind == "" {
			return nil
		}
		n := len(a.Nums)
		v := hx.Val{Kind: kind}
		if len(a.Dims) > 0 {
			v.Kind = "[]" + kind
		} else if n != 1 {
			return nil
		}
		for i := 0; i < n; i++ {
			x := int64((i + salt) % 100)
			switch kind[0] {
			case 'i':
				v.I = append(v.I, x)
			case 'u':
				v.U = append(v.U, uint64(x))
			default:
				if a.Size == 4 {
					v.F = append(v.F, uint64(math.Float32bits(float32(x)+0.5)))
				} else {
					v.F = append(v.F, math.Float64bits(float64(x)+0.5))
				}
			}
		}
		return &v
	}
	return nil
}

// c10Eligible lists the corpus files used as reference bases (below 1 MiB), sorted.
func c10Eligible() []string {
	corpusInit()
	var out []string
	for _, f := range corpusFiles {
		if st, err := os.Stat(f); err == nil && st.Size() <= 1<<20 {
			out = append(out, f)
		}
	}
	return out
}

// c10DirectedCases is the number of leading cases that walk the reference corpus
// systematically (every eligible file: one no-op session, then one session that adds an
// attribute to each of its first datasets followed by a CreateDataset).
func c10DirectedCases() int {
	return (len(c10Eligible()) + c10DirectedChunk - 1) / c10DirectedChunk
}

func c10Run(c *ev.Ctx) {
	if n := c10DirectedCases(); c.Index < n {
		files := c10Eligible()
		lo := c.Index * c10DirectedChunk
		hi := min(lo+c10DirectedChunk, len(files))
		for _, f := range files[lo:hi] {
			c10RunOne(c, f, func(si int, dsPaths []string, prev *dump.Dump) []c10Intent {
				switch {
				case si == 0:
					return nil // no-op session
				case si == 1:
					var plan []c10Intent
					for i, p := range dsPaths {
						if i == 4 {
							break
						}
						v := hx.Val{Kind: "i32", I: []int64{int64(40 + i)}}
						plan = append(plan, c10Intent{choice: 0, openPath: p, name: "zz_added", val: &v})
					}
					return append(plan, c10Intent{choice: 3})
				}
				// sessions 2-42: an attribute the file came with (the first one found on the first
				// four datasets, whatever its type) is replaced by strings of 1, 2, ... 40 characters
				// and finally by numbers of the stored kind and count: among them are the values
				// whose encoded message is exactly as large as the stored one
				for i, p := range dsPaths {
					if i == 4 {
						break
					}
					po := prev.Get(p)
					if po == nil {
						continue
					}
					for _, a := range po.Attrs {
						if a.Name == "zz_added" {
							continue
						}
						if si <= 41 {
							b := make([]byte, si-1)
							for j := range b {
								b[j] = byte('A' + (j+si)%26)
							}
							return []c10Intent{{choice: 0, openPath: p, name: a.Name, val: &hx.Val{Kind: "str", S: []string{string(b)}}}}
						}
						if v := c10SameSizeValue(a, -2, si); v != nil && a.ValueRes.OK() {
							return []c10Intent{{choice: 0, openPath: p, name: a.Name, val: v}}
						}
						return []c10Intent{{choice: -1}}
					}
				}
				return []c10Intent{{choice: -1}} // no attributed dataset: no further sessions
				return nil
			})
		}
		return
	}
	c10RunOne(c, "", nil)
}

func c10RunOne(c *ev.Ctx, forcedRef string, directed func(si int, dsPaths []string, prev *dump.Dump) []c10Intent) {
	r := c.R
	path := filepath.Join(c.Dir, "c10.h5")
	var e *hx.Exec
	base := ""
	var baseInfo any
	if forcedRef != "" || r.Chance(3, 10) {
		// reference-library file, copied
		corpusInit()
		src := forcedRef
		for try := 0; try < 20 && src == ""; try++ {
			cand := corpusFiles[r.Intn(len(corpusFiles))]
			st, err := os.Stat(cand)
			if err != nil || st.Size() > 1<<20 {
				continue
			}
			src = cand
		}
		if src == "" {
			c.Inconclusive("no reference file below 1 MiB found in 20 draws")
			return
		}
		if err := copyFile(path, src); err != nil {
			c.Inconclusive("copy: " + err.Error())
			return
		}
		e = &hx.Exec{Path: path}
		base = "reference"
		baseInfo = strings.TrimPrefix(src, ev.RepoDir()+"/")
	} else {
		s := c04Random(r.Fork("base"))
		// a hard link to the first dataset gives a second path to the same object
		for _, op := range s.Ops {
			if op.K == "create_ds" {
				s.Ops = append(s.Ops, hx.Op{K: "hardlink", Path: "/alias", Target: op.Path})
				break
			}
		}
		e = hx.Run(path, s)
		if !e.CloseRes.OK() {
			c.Violation("base-close-failed", map[string]any{"res": e.CloseRes})
			return
		}
		base = fmt.Sprintf("lib-sb%d", s.SB)
		var ops []string
		for i, op := range s.Ops {
			st := "ok"
			if !e.Res[i].OK() {
				st = "ERR"
			}
			ops = append(ops, op.String()+"["+st+"]")
		}
		baseInfo = ops
	}
	prev := dump.File(path, dump.Options{MaxElems: 1 << 20})
	if !prev.OpenRes.OK() {
		if base == "reference" {
			c.Case(fmt.Sprintf("reference|unopenable|%v", baseInfo), false)
			return // the reader refuses the file: nothing to reopen
		}
		c.Violation("base-unopenable:"+base, map[string]any{"base": baseInfo, "res": prev.OpenRes})
		return
	}
	var history []string
	trace := os.Getenv("VERIF_TRACE") != ""
	logh := func(l string) {
		history = append(history, l)
		if trace {
			if tf, err := os.OpenFile(os.Getenv("VERIF_TRACE"), os.O_APPEND|os.O_CREATE|os.O_WRONLY, 0o644); err == nil {
				fmt.Fprintln(tf, baseInfo, l)
				tf.Close()
			}
		}
	}
	wit := func(detail any) map[string]any {
		return map[string]any{"base": baseInfo, "history": history, "detail": detail}
	}
	nsess := r.Range(1, 6)
	if directed != nil {
		nsess = 43
	}
	created := 0
	mods, noops := 0, 0
	kindsSeen := map[string]bool{}
	for si := 0; si < nsess; si++ {
		sTag := "s1"
		if si > 0 {
			sTag = "s2+"
		}
		// datasets of the current state
		var dsPaths []string
		for _, o := range prev.Objects {
			if o.Kind == "dataset" {
				dsPaths = append(dsPaths, o.Path)
			}
		}
		sort.Strings(dsPaths)
		canon := func(p string) string {
			po := prev.Get(p)
			if po == nil || po.Addr == 0 {
				return p
			}
			best := p
			for _, o := range prev.Objects {
				if o.Kind == "dataset" && o.Addr == po.Addr && o.Path < best {
					best = o.Path
				}
			}
			return best
		}
		var plan []c10Intent
		if directed != nil {
			plan = directed(si, dsPaths, prev)
			if len(plan) == 1 && plan[0].choice == -1 {
				break // the directed walk has nothing more to try on this file
			}
		}
		shaBefore, sizeBefore := fileSHA(path)
		res := e.Step(-1, &hx.Op{K: "reopen"})
		logh(fmt.Sprintf("S%d reopen[%s]", si, res.Err+res.Panic))
		if res.Panic != "" {
			c.Violation("panic:reopen@"+res.Panic, wit(res))
			return
		}
		if !res.OK() {
			// the reader opened it, OpenForWrite must too
			c.Violation("reopen-refused:"+base+":"+sTag, wit(res))
			return
		}
		// one session in eight (random histories only) shares the file with a second read-write
		// handle that is opened first, modifies nothing and is closed after this session's
		// Close: a session that makes no modification changes nothing, whenever it ends
		idle := false
		if directed == nil && r.Chance(1, 8) {
			if ri := e.Step(-1, &hx.Op{K: "open_idle"}); ri.OK() {
				idle = true
				logh(fmt.Sprintf("S%d open_idle", si))
			}
		}
		nops := r.Weighted([]int{2, 2, 3, 3, 2, 1, 1, 1, 1, 1, 1}) // 0..10
		sameSize := directed == nil && len(dsPaths) > 0 && r.Chance(1, 3)
		if sameSize {
			nops = r.Range(6, 14)
		}
		if directed != nil {
			nops = len(plan)
		}
		if directed == nil && !sameSize && len(dsPaths) > 0 && r.Chance(1, 5) {
			// a ladder: one attribute of a dataset is replaced again and again by a string that is
			// one character longer each time, so that the object header passes through every size
			// up to its capacity (and then moves the attribute to dense storage)
			p := dsPaths[r.Intn(len(dsPaths))]
			start := r.Range(1, 40)
			for j := 0; j < 230; j++ {
				b := make([]byte, start+j)
				for i := range b {
					b[i] = byte('k' + (i+j)%13)
				}
				plan = append(plan, c10Intent{choice: 0, openPath: p, name: "ladder", val: &hx.Val{Kind: "str", S: []string{string(b)}}})
			}
			nops = len(plan)
			kindsSeen["header-size-ladder"] = true
		} else if directed == nil && !sameSize && r.Chance(1, 6) {
			// a dataset without attributes gets ONE attribute that is too large for its header
			// (dense storage holding a single object), which is replaced by a value of another
			// size and then joined by others
			for _, p := range dsPaths {
				if po := prev.Get(p); po != nil && po.AttrsRes.OK() && len(po.Attrs) == 0 {
					mk := func(n int) *hx.Val {
						b := make([]byte, n)
						for i := range b {
							b[i] = byte('a' + (i+n)%26)
						}
						return &hx.Val{Kind: "str", S: []string{string(b)}}
					}
					plan = []c10Intent{{choice: 0, openPath: p, name: "lonely", val: mk(r.Range(300, 3000))}, {choice: 0, openPath: p, name: "lonely", val: mk(r.Range(260, 3000))}}
					for j := 0; j < r.Range(3, 14); j++ {
						plan = append(plan, c10Intent{choice: 0, openPath: p, name: fmt.Sprintf("joined%d", j), val: mk(r.Range(40, 400))})
					}
					nops = len(plan)
					kindsSeen["single-object-dense-storage"] = true
					break
				}
			}
		}
		type touch struct {
			attrs map[string]*hx.Val // nil value = deleted
			data  *hx.Val
			tried bool // a modification was attempted (successful or not)
		}
		touched := map[string]*touch{}  // by canonical dataset path
		handleOf := map[string]string{} // handle key -> dataset path
		newObjs := map[string]hx.Op{}
		sessionMods := 0
		anyAttempt := false
		for k := 0; k < nops; k++ {
			var in c10Intent
			if plan != nil {
				in = plan[k]
			} else {
				in.choice = r.Weighted([]int{6, 2, 3, 1, 1})
				if len(dsPaths) == 0 && in.choice < 3 {
					in.choice = 3
				}
				if in.choice < 3 {
					in.openPath = dsPaths[r.Intn(len(dsPaths))]
					in.second = r.Chance(1, 12)
					if sameSize {
						// two handles on one dataset taking turns with changes that keep the
						// header's size (each handle has its own copy of the header)
						in.openPath = dsPaths[0]
						in.second = k == 1
						if in.choice == 2 {
							in.choice = 0
						}
					}
				}
			}
			var op hx.Op
			target := ""
			switch in.choice {
			case 0, 1, 2:
				openPath := in.openPath
				target = canon(openPath) // all paths of one object share one model entry
				hkey := openPath
				if _, open := handleOf[hkey]; !open || in.second {
					// (re)open a handle; rarely a second handle on the same object
					if open {
						hkey = fmt.Sprintf("%s#%d", openPath, k)
					}
					for _, p := range handleOf {
						if p == target {
							kindsSeen["two-handles-on-one-object"] = true
						}
					}
					o := hx.Op{K: "opends", Path: openPath}
					if hkey != openPath {
						o.Name = hkey
					}
					rs := e.Step(-1, &o)
					logh(fmt.Sprintf("S%d %s[%s]", si, o.String(), rs.Err+rs.Panic))
					if rs.Panic != "" {
						c.Violation("panic:opends@"+rs.Panic, wit(rs))
						return
					}
					if !rs.OK() {
						c.Count("opends_refused", 1)
						continue
					}
					handleOf[hkey] = target
				}
				// pick one of the open handles of this dataset
				var hs []string
				for h, p := range handleOf {
					if p == target {
						hs = append(hs, h)
					}
				}
				sort.Strings(hs)
				hkey = hs[r.Intn(len(hs))]
				po := prev.Get(target)
				switch in.choice {
				case 0: // attribute upsert
					name := fmt.Sprintf("a%d", r.Intn(14))
					if po != nil && len(po.Attrs) > 0 && r.Chance(1, 3) {
						name = po.Attrs[r.Intn(len(po.Attrs))].Name
					}
					v := genAttrVal(r, r.Bool())
					if sameSize && in.name == "" {
						name, v = fmt.Sprintf("eq%d", r.Intn(5)), hx.ScalarOf(r, "i32")
					}
					if in.name != "" {
						name, v = in.name, *in.val
					}
					op = hx.Op{K: "attr", Path: hkey, Name: name, Data: &v}
				case 1: // attribute delete
					name := fmt.Sprintf("a%d", r.Intn(14))
					if sameSize {
						name = fmt.Sprintf("eq%d", r.Intn(5))
					}
					if po != nil && len(po.Attrs) > 0 && r.Chance(2, 3) {
						name = po.Attrs[r.Intn(len(po.Attrs))].Name
					}
					op = hx.Op{K: "delattr", Path: hkey, Name: name}
				default: // overwrite the data
					if po == nil {
						continue
					}
					kind := c10KindOf(po)
					n := hx.NumElems(po.Dims)
					if kind == "" || n == 0 || n > 1<<16 || !po.ReadRes.OK() {
						continue
					}
					v := hx.GenNumeric(r, kind, int(n), 2)
					// small exactly representable values, different per write
					off := int64(r.Range(1, 50))
					for i := range v.I {
						v.I[i] = (v.I[i] + off) % 100
					}
					for i := range v.U {
						v.U[i] = (v.U[i] + uint64(off)) % 100
					}
					for i := range v.F {
						if v.ElemSize() == 4 {
							v.F[i] = uint64(math.Float32bits(float32(i%50) + float32(off)))
						} else {
							v.F[i] = math.Float64bits(float64(i%50) + float64(off))
						}
					}
					op = hx.Op{K: "write", Path: hkey, Data: &v}
				}
			case 3:
				created++
				n := r.Range(1, 6)
				v := hx.GenNumeric(r, "[]i32", n, 2)
				op = hx.Op{K: "create_ds", Path: fmt.Sprintf("/new%d", created), DT: "i32", Dims: []uint64{uint64(n)}, Data: &v}
			default:
				created++
				op = hx.Op{K: "group", Path: fmt.Sprintf("/newg%d", created)}
			}
			anyAttempt = true
			rs := e.Step(-1, &op)
			logh(fmt.Sprintf("S%d %s[%s]", si, op.String(), rs.Err+rs.Panic+rs.Skipped))
			if rs.Panic != "" {
				c.Violation("panic:"+op.K+"@"+rs.Panic, wit(rs))
				return
			}
			if target != "" {
				t := touched[target]
				if t == nil {
					t = &touch{attrs: map[string]*hx.Val{}}
					touched[target] = t
				}
				t.tried = true
			}
			c.Count("op:"+op.K+":"+map[bool]string{true: "ok", false: "refused"}[rs.OK()], 1)
			if !rs.OK() {
				continue
			}
			sessionMods++
			switch op.K {
			case "attr":
				touched[target].attrs[op.Name] = op.Data
			case "delattr":
				touched[target].attrs[op.Name] = nil
			case "write":
				touched[target].data = op.Data
			case "create_ds", "group":
				newObjs[op.Path] = op
			}
		}
		rs := e.Step(-1, &hx.Op{K: "close"})
		logh(fmt.Sprintf("S%d close[%s]", si, rs.Err+rs.Panic))
		if idle {
			// the handle that modified nothing closes last: its Close must not undo what the
			// other session wrote
			ri := e.Step(-1, &hx.Op{K: "close_idle"})
			logh(fmt.Sprintf("S%d close_idle[%s]", si, ri.Err+ri.Panic))
			if ri.Panic != "" {
				c.Violation("panic:close@"+ri.Panic, wit(ri))
				return
			}
			kindsSeen["idle-second-writer-handle"] = true
		}
		if rs.Panic != "" {
			c.Violation("panic:close@"+rs.Panic, wit(rs))
			return
		}
		if !rs.OK() {
			c.Violation("close-failed:"+base+":"+sTag, wit(rs))
			return
		}
		mods += sessionMods
		// ---- no modification attempted: byte identity
		if !anyAttempt {
			noops++
			shaAfter, sizeAfter := fileSHA(path)
			if shaAfter != shaBefore {
				c.Violation("noop-session-changed-bytes:"+base+":"+sTag, wit(map[string]any{"size_before": sizeBefore, "size_after": sizeAfter, "handles_opened": len(handleOf)}))
				return
			}
		}
		// ---- dump after, compared with the patched previous dump
		cur := dump.File(path, dump.Options{MaxElems: 1 << 20})
		if !cur.OpenRes.OK() {
			c.Violation("unopenable-after-session:"+base+":"+sTag, wit(cur.OpenRes))
			return
		}
		// aliases: paths of prev that are the same object as a touched dataset (hard links)
		touchedPaths := map[string]*touch{}
		for p, t := range touched {
			po := prev.Get(p)
			for _, o := range prev.Objects {
				if o.Kind == "dataset" && po != nil && o.Addr != 0 && o.Addr == po.Addr {
					touchedPaths[o.Path] = t
				}
			}
			touchedPaths[p] = t
		}
		exclude := map[string]bool{}
		for p := range touchedPaths {
			exclude[p] = true
		}
		parents := map[string][]string{}
		for p := range newObjs {
			exclude[p] = true
			exclude[p+"/"] = true
			par := "/"
			exclude[par] = true
			parents[par] = append(parents[par], strings.TrimPrefix(p, "/"))
		}
		if diff := dump.Diff(prev, cur, exclude); len(diff) > 0 {
			d0 := diff[0]
			kind := "absent"
			if o := prev.Get(d0); o != nil {
				kind = o.Kind
			} else if o := cur.Get(d0); o != nil {
				kind = "appeared-" + o.Kind
			}
			var opk []string
			for p, t := range touched {
				_ = p
				if len(t.attrs) > 0 {
					opk = append(opk, "attr")
				}
				if t.data != nil {
					opk = append(opk, "write")
				}
			}
			if len(newObjs) > 0 {
				opk = append(opk, "create")
			}
			sort.Strings(opk)
			c.Violation("untouched-object-changed:"+kind+":"+base+":after-"+strings.Join(uniq(opk), "+"), wit(map[string]any{"paths": diff, "before": logicalOf(prev, d0), "after": logicalOf(cur, d0)}))
			return
		}
		// touched datasets
		tp := make([]string, 0, len(touchedPaths))
		for p := range touchedPaths {
			tp = append(tp, p)
		}
		sort.Strings(tp)
		for _, p := range tp {
			t := touchedPaths[p]
			po, co := prev.Get(p), cur.Get(p)
			if po == nil {
				continue
			}
			lay := c10LayoutName(po.Layout)
			if co == nil {
				c.Violation("touched-object-vanished:"+base, wit(p))
				return
			}
			if c10Head(po, t.data != nil, false) != c10Head(co, t.data != nil, false) {
				what := "attr-op"
				if t.data != nil {
					what = "write:" + lay
				}
				c.Violation("touched-object-other-content-changed:"+what+":"+base, wit(map[string]any{"path": p, "before": c10Head(po, t.data != nil, false), "after": c10Head(co, t.data != nil, false)}))
				return
			}
			if t.data != nil {
				want := t.data.AsFloat64Bits()
				ok := co.ReadRes.OK() && len(co.Read) == len(want)
				for i := 0; ok && i < len(want); i++ {
					ok = co.Read[i] == want[i]
				}
				if !ok {
					c.Violation("overwritten-data-wrong:"+lay+":"+base, wit(map[string]any{"path": p, "read_res": co.ReadRes, "read_head": headU(co.Read, 8), "want_head": headU(want, 8)}))
					return
				}
			}
			// attributes: untouched ones identical, touched ones per model
			storage := "compact"
			if len(po.Attrs) >= 8 {
				storage = "dense"
			}
			if !co.AttrsRes.OK() {
				if po.AttrsRes.OK() {
					c.Violation("attributes-unreadable-after-session:"+storage+":"+base, wit(map[string]any{"path": p, "res": co.AttrsRes}))
					return
				}
				continue
			}
			if !po.AttrsRes.OK() {
				continue
			}
			prevA := map[string]string{}
			for i := range po.Attrs {
				prevA[po.Attrs[i].Name] = c10AttrFrag(&po.Attrs[i])
			}
			model := attrModel{}
			deleted := map[string]bool{}
			for n, v := range t.attrs {
				if v == nil {
					deleted[n] = true
				} else {
					model[n] = *v
				}
			}
			sub := dump.Obj{AttrsRes: co.AttrsRes}
			seen := map[string]bool{}
			for i := range co.Attrs {
				a := &co.Attrs[i]
				if seen[a.Name] {
					c.Violation("attribute-duplicated:"+storage+":"+base, wit(map[string]any{"path": p, "name": a.Name}))
					return
				}
				seen[a.Name] = true
				if _, isNew := model[a.Name]; isNew {
					sub.Attrs = append(sub.Attrs, *a)
					continue
				}
				if deleted[a.Name] {
					c.Violation("deleted-attribute-still-present:"+storage+":"+base, wit(map[string]any{"path": p, "name": a.Name}))
					return
				}
				pf, had := prevA[a.Name]
				if !had {
					c.Violation("attribute-appeared:"+storage+":"+base, wit(map[string]any{"path": p, "name": a.Name}))
					return
				}
				if pf != c10AttrFrag(a) {
					c.Violation("untouched-attribute-changed:"+storage+":"+base, wit(map[string]any{"path": p, "name": a.Name, "before": pf, "after": c10AttrFrag(a)}))
					return
				}
			}
			for n := range prevA {
				if !seen[n] && !deleted[n] {
					if _, over := model[n]; !over {
						c.Violation("untouched-attribute-lost:"+storage+":"+base+":"+sTag, wit(map[string]any{"path": p, "name": n, "had": len(prevA), "has": len(co.Attrs)}))
						return
					}
				}
			}
			for _, d := range c02Compare(&sub, model) {
				if strings.HasSuffix(d[0], ">max-signed") {
					continue // ReadValue's signed view of unsigned attributes: judged (and recorded) by C02
				}
				c.Violation("written-attribute:"+d[0]+":"+storage+":"+base, wit(map[string]any{"path": p, "detail": d[1]}))
				return
			}
		}
		// created objects
		for p, op := range newObjs {
			co := cur.Get(p)
			if co == nil {
				co = cur.Get(p + "/")
			}
			if co == nil {
				c.Violation("created-object-missing:"+op.K+":"+base, wit(p))
				return
			}
			if op.K == "create_ds" {
				want := op.Data.AsFloat64Bits()
				ok := co.Kind == "dataset" && co.ReadRes.OK() && len(co.Read) == len(want)
				for i := 0; ok && i < len(want); i++ {
					ok = co.Read[i] == want[i]
				}
				if !ok {
					c.Violation("created-dataset-wrong:"+base, wit(map[string]any{"path": p, "kind": co.Kind, "read_res": co.ReadRes}))
					return
				}
			} else if co.Kind != "group" {
				c.Violation("created-group-wrong:"+base, wit(map[string]any{"path": p, "kind": co.Kind}))
				return
			}
		}
		for par, names := range parents {
			po, co := prev.Get(par), cur.Get(par)
			if po == nil || co == nil {
				continue
			}
			if c10Head(po, false, true) != c10Head(co, false, true) {
				c.Violation("parent-group-changed:"+base, wit(map[string]any{"before": c10Head(po, false, true), "after": c10Head(co, false, true)}))
				return
			}
			want := append(append([]string(nil), po.Children...), names...)
			got := append([]string(nil), co.Children...)
			sort.Strings(want)
			sort.Strings(got)
			if strings.Join(want, "\x00") != strings.Join(got, "\x00") {
				c.Violation("parent-members-wrong:"+base, wit(map[string]any{"want": want, "got": got}))
				return
			}
		}
		prev = cur
	}
	for k := range kindsSeen {
		c.Count(k, 1)
	}
	c.Count("sessions", int64(nsess))
	c.Count("noop_sessions_byte_compared", int64(noops))
	c.Count("successful_modifications", int64(mods))
	c.Count("base:"+base, 1)
	mode := "random"
	if directed != nil {
		mode = "directed"
		c.Count("directed_reference_files", 1)
	}
	c.Case(fmt.Sprintf("%s|%s|sessions%d|mods%d|noops%d|%v", base, mode, nsess, min(mods, 9), noops, baseInfo), mods > 0 || noops > 0)
}

func uniq(s []string) []string {
	var out []string
	for i, x := range s {
		if i == 0 || x != s[i-1] {
			out = append(out, x)
		}
	}
	return out
}

var C10 = &ev.Property{
	ID:    "C10",
	Level: "exploration",
	Rule: "the first cases walk every file of the bundled corpus below 1 MiB (12 per case): one OpenForWrite/Close session without modification (byte identity), then one session that adds an attribute to each of its first four datasets followed by a CreateDataset; every other case takes a base file (70%: written by the library from a random history with datasets, groups, compact and dense attributes, chunked/resized datasets, hard links, superblock 0/2/3; 30%: a file of the bundled reference corpus below 1 MiB, copied) and runs 1-6 sessions OpenForWrite / 0-10 operations / Close with operations from {OpenDataset (also a second handle on the same object), attribute upsert, attribute delete, overwrite of the data with values of the stored type, CreateDataset, CreateGroup}. After every session the file is dumped through the reader and compared with the dump before the session patched with the session's successful operations: objects not touched must be identical (all metadata, values, attributes), a touched dataset may differ only in the touched attributes / its data, which must equal what was written; created objects must be present with their content and appear in the parent exactly once; refused operations must leave no trace; a session in which no modification was attempted must leave the file byte-identical (sha256). " +
		"non-trivial: at least one successful modification or one byte-compared no-op session; distinct = (base, sessions, modifications, no-op sessions).",
	Assumptions: []string{"a refused operation is an accepted answer (support is partial by documentation); what it must not do is change the file"},
	Cases: func(tier string) int {
		if tier == "thorough" {
			return 20000
		}
		return 400
	},
	Run:   c10Run,
	Floor: func(tier string) int64 { return 40 },
}
