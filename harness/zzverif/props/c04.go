package props

import (
	"fmt"
	"math"
	"os"
	"path/filepath"
	"sort"
	"strings"

	"github.com/scigolib/hdf5/internal/zzverif/dump"
	"github.com/scigolib/hdf5/internal/zzverif/ev"
	"github.com/scigolib/hdf5/internal/zzverif/hx"
)

// C04 — operations on one object never change another object.
//
// Two monitors on every generated history op_1..op_n:
//  (a) differential prefix runs: the history is re-executed for every prefix length k into
//      a fresh file; the logical dump after prefix k, restricted to the objects op_k does not
//      target, must equal the dump after prefix k-1 (the library's own earlier answer is the
//      reference), and the file must open;
//  (b) byte-ownership monitor on the full run: the file is snapshotted before and after every
//      call; every changed byte must lie in a block allocated during that call, in a block
//      owned by an object the call targets (ownership = the call that allocated it), or in
//      the superblock. Anything else is an out-of-extent write — the root-cause event.

// c04Targets returns the model paths an op may legitimately change.
func c04Targets(op *hx.Op) []string {
	parentOf := func(p string) string {
		pp, _ := splitPath(p)
		return pp
	}
	switch op.K {
	case "create_ds", "create_cmp", "group", "densegroup":
		return []string{op.Path, parentOf(op.Path)}
	case "hardlink":
		return []string{op.Path, parentOf(op.Path), op.Target}
	case "softlink", "extlink":
		return []string{op.Path, parentOf(op.Path)}
	default:
		return []string{op.Path}
	}
}

// dumpPathsOf maps a model path to the walk paths it can appear under ("/g" and "/g/").
func dumpKey(p string) string { return strings.TrimSuffix(p, "/") }

type c04Case struct {
	Script *hx.Script
	Core   bool // one of the linear extensions of the 8-operation core set
}

// coreOps is the quantifier's core set on two resizable datasets X and Y.
func c04CoreOps(r *ev.Rand) []hx.Op {
	mk := func(p string) hx.Op {
		return hx.Op{K: "create_ds", Path: p, DT: "i32", Dims: []uint64{6}, Chunk: []uint64{4}, MaxDims: []uint64{hx.Unlimited}}
	}
	vx := hx.GenNumeric(r, "[]i32", 6, 2)
	vy := hx.GenNumeric(r, "[]i32", 6, 3)
	ax := hx.ScalarOf(r, "f64")
	ay := hx.Val{Kind: "str", S: []string{"attribute on Y"}}
	return []hx.Op{
		mk("/X"), mk("/Y"),
		{K: "write", Path: "/X", Data: &vx},
		{K: "write", Path: "/Y", Data: &vy},
		{K: "attr", Path: "/X", Name: "ax", Data: &ax},
		{K: "attr", Path: "/Y", Name: "ay", Data: &ay},
		{K: "hardlink", Path: "/linkX", Target: "/X"},
		{K: "resize", Path: "/X", Dims: []uint64{9}},
	}
}

// c04Extensions enumerates all orders of the core set that respect create-before-use.
var c04ExtCache [][]int

func c04Extensions() [][]int {
	if c04ExtCache != nil {
		return c04ExtCache
	}
	// dependencies: ops 2,4,6,7 need 0 (create X); ops 3,5 need 1 (create Y)
	need := map[int]int{2: 0, 4: 0, 6: 0, 7: 0, 3: 1, 5: 1}
	var out [][]int
	var rec func(cur []int, used int)
	rec = func(cur []int, used int) {
		if len(cur) == 8 {
			out = append(out, append([]int(nil), cur...))
			return
		}
		for i := 0; i < 8; i++ {
			if used&(1<<i) != 0 {
				continue
			}
			if d, ok := need[i]; ok && used&(1<<d) == 0 {
				continue
			}
			rec(append(cur, i), used|1<<i)
		}
	}
	rec(nil, 0)
	c04ExtCache = out
	return out
}

func c04Random(r *ev.Rand) *hx.Script {
	s := &hx.Script{SB: []uint8{0, 2, 3}[r.Intn(3)]}
	nobj := r.Range(2, 6)
	var dss, groups, denseGroups, linkObjs []string
	resizable := map[string]uint64{}
	created := 0
	nops := r.Range(3, 14)
	attrN := map[string]int{}
	// one history in six starts with two datasets of the same name, the one inside a group
	// created first, and is always split over two sessions (handles are opened by path)
	twin := r.Chance(1, 6)
	if twin {
		va, vb := hx.GenNumeric(r, "[]i32", 3, 2), hx.GenNumeric(r, "[]i32", 3, 3)
		s.Ops = append(s.Ops, hx.Op{K: "group", Path: "/ga"},
			hx.Op{K: "create_ds", Path: "/ga/same", DT: "i32", Dims: []uint64{3}, Data: &va},
			hx.Op{K: "create_ds", Path: "/same", DT: "i32", Dims: []uint64{3}, Data: &vb})
		groups = append(groups, "/ga")
		dss = append(dss, "/ga/same", "/same")
		created = 2
		nops += 3
	}
	for len(s.Ops) < nops {
		k := r.Weighted([]int{3, 3, 6, 2, 2, 2, 2, 1, 1})
		if created < 2 {
			k = 0
		}
		switch k {
		case 0: // create dataset
			if created >= nobj {
				continue
			}
			p := fmt.Sprintf("/d%d", created)
			if r.Chance(1, 3) {
				// the same leaf name in several groups ("/d0", "/g1/d0", "/g1/g2/d0"): a path is
				// more than its last component
				p = fmt.Sprintf("/d%d", created%2)
			}
			if len(groups) > 0 && r.Bool() {
				p = groups[r.Intn(len(groups))] + p
			}
			dup := false
			for _, q := range dss {
				if q == p {
					dup = true
				}
			}
			if dup {
				p = fmt.Sprintf("%s_%d", p, created)
			}
			n := uint64(r.Range(1, 12))
			op := hx.Op{K: "create_ds", Path: p, DT: []string{"i32", "f64", "u64", "f32"}[r.Intn(4)], Dims: []uint64{n}}
			if r.Bool() {
				op.Chunk = []uint64{uint64(r.Range(1, int(n)))}
				op.MaxDims = []uint64{hx.Unlimited}
				resizable[p] = n
			}
			v := hx.GenNumeric(r, "[]"+op.DT, int(n), 1+r.Intn(3))
			op.Data = &v
			s.Ops = append(s.Ops, op)
			dss = append(dss, p)
			created++
		case 1: // create group (sometimes a dense group linking to existing objects)
			if created >= nobj {
				continue
			}
			p := fmt.Sprintf("/g%d", created)
			if len(dss) > 0 && r.Chance(1, 4) {
				links := map[string]string{}
				for j := 0; j < r.Range(1, 10); j++ {
					links[fmt.Sprintf("l%d", j)] = dss[r.Intn(len(dss))]
				}
				s.Ops = append(s.Ops, hx.Op{K: "densegroup", Path: fmt.Sprintf("/dg%d", created), Links: links})
				denseGroups = append(denseGroups, fmt.Sprintf("/dg%d", created))
				if r.Bool() { // something allocated right behind it, then a link that makes its header grow
					s.Ops = append(s.Ops, hx.Op{K: "group", Path: fmt.Sprintf("/after_dg%d", created)})
					groups = append(groups, fmt.Sprintf("/after_dg%d", created))
					s.Ops = append(s.Ops, hx.Op{K: "hardlink", Path: fmt.Sprintf("/hl_dg%d", created), Target: fmt.Sprintf("/dg%d", created)})
				}
				created++
				continue
			}
			s.Ops = append(s.Ops, hx.Op{K: "group", Path: p})
			groups = append(groups, p)
			created++
		case 2: // attribute on an object (1..12 per object, crossing into dense storage)
			all := append(append([]string(nil), dss...), groups...)
			t := all[r.Intn(len(all))]
			burst := 1
			if r.Chance(1, 4) {
				burst = r.Range(2, 10)
			}
			for b := 0; b < burst && len(s.Ops) < nops+8; b++ {
				v := genAttrVal(r, r.Bool())
				if !v.Supported() {
					v = hx.ScalarOf(r, "i32")
				}
				s.Ops = append(s.Ops, hx.Op{K: "attr", Path: t, Name: fmt.Sprintf("a%d", attrN[t]%12), Data: &v})
				attrN[t]++
			}
		case 3: // delete attribute
			if len(dss) == 0 {
				continue
			}
			t := dss[r.Intn(len(dss))]
			s.Ops = append(s.Ops, hx.Op{K: "delattr", Path: t, Name: fmt.Sprintf("a%d", r.Intn(12))})
		case 4: // rewrite data
			if len(dss) == 0 {
				continue
			}
			t := dss[r.Intn(len(dss))]
			var dt string
			var n uint64
			for _, op := range s.Ops {
				if op.K == "create_ds" && op.Path == t {
					dt, n = op.DT, op.Dims[0]
				}
				if op.K == "resize" && op.Path == t {
					n = op.Dims[0]
				}
			}
			v := hx.GenNumeric(r, "[]"+dt, int(n), 3)
			s.Ops = append(s.Ops, hx.Op{K: "write", Path: t, Data: &v})
		case 8: // variable-length dataset: its elements wait in a heap collection shared by all
			// vlen datasets of the session; sizes that fill the 4 KiB collection to the last byte,
			// that exceed it, or small ones
			if created >= nobj+2 {
				continue
			}
			p := fmt.Sprintf("/v%d", created)
			var strs []string
			mk := func(n int) string {
				b := make([]byte, n)
				for i := range b {
					b[i] = byte('a' + (i+created)%26)
				}
				return string(b)
			}
			switch r.Intn(4) {
			case 0: // k elements whose objects (16-byte header + length rounded up to 8) add up to 4080
				kk := r.Range(2, 4)
				rest := 4080 - 16*kk
				for j := 0; j < kk; j++ {
					n := rest
					if j < kk-1 {
						n = 8 * r.Range(1, rest/8-(kk-1-j))
					}
					rest -= n
					strs = append(strs, mk(n-r.Intn(8)*0))
				}
			case 1: // one element beyond a collection of the default size
				strs = append(strs, mk(r.Range(4041, 9000)))
			case 2:
				strs = append(strs, mk(r.Range(4049, 5000)), mk(r.Range(1, 40)))
			default:
				for j := r.Range(1, 4); j > 0; j-- {
					strs = append(strs, mk(r.Range(0, 200)))
				}
			}
			v := hx.Val{Kind: "vstr", S: strs}
			s.Ops = append(s.Ops, hx.Op{K: "create_ds", Path: p, DT: "vstr", Dims: []uint64{uint64(len(strs))}, Data: &v})
			created++
		case 7: // soft / external link object (itself an object that can be a hard-link target)
			p := fmt.Sprintf("/ln%d", len(s.Ops))
			if r.Bool() {
				s.Ops = append(s.Ops, hx.Op{K: "softlink", Path: p, Target: "/d0"})
			} else {
				s.Ops = append(s.Ops, hx.Op{K: "extlink", Path: p, File: "other.h5", Target: "/x"})
			}
			linkObjs = append(linkObjs, p)
		case 5: // hard link to an object
			all := append(append(append(append([]string(nil), dss...), groups...), denseGroups...), linkObjs...)
			t := all[r.Intn(len(all))]
			s.Ops = append(s.Ops, hx.Op{K: "hardlink", Path: fmt.Sprintf("/hl%d", len(s.Ops)), Target: t})
		case 6: // resize
			var rs []string
			for p := range resizable {
				rs = append(rs, p)
			}
			if len(rs) == 0 {
				continue
			}
			sort.Strings(rs)
			t := rs[r.Intn(len(rs))]
			nn := uint64(r.Range(1, 20))
			s.Ops = append(s.Ops, hx.Op{K: "resize", Path: t, Dims: []uint64{nn}})
		}
	}
	// one history in three is split over two sessions: Close, OpenForWrite, the datasets
	// created so far opened again (groups have no reopen call: later operations on them are
	// skipped by the interpreter), and the rest of the history runs in the second session
	if (twin || r.Chance(1, 3)) && len(s.Ops) > 2 {
		pos := r.Range(2, len(s.Ops))
		if twin {
			pos = r.Range(3, min(5, len(s.Ops)))
		}
		ops := append([]hx.Op(nil), s.Ops[:pos]...)
		ops = append(ops, hx.Op{K: "close"}, hx.Op{K: "reopen"})
		for _, op := range s.Ops[:pos] {
			if op.K == "create_ds" {
				ops = append(ops, hx.Op{K: "opends", Path: op.Path})
			}
		}
		s.Ops = append(ops, s.Ops[pos:]...)
	}
	return s
}

type c04Owner struct {
	start, end uint64
	owner      string
}

func c04Run(c *ev.Ctx) {
	r := c.R
	var s *hx.Script
	core := false
	exts := c04Extensions()
	nCore := c.Pick(200, len(exts))
	if c.Index < nCore {
		core = true
		ops := c04CoreOps(r)
		order := exts[c.Index%len(exts)]
		if !c.Thorough() {
			order = exts[r.Intn(len(exts))]
		}
		s = &hx.Script{SB: []uint8{0, 2, 3}[c.Index%3]}
		for _, i := range order {
			s.Ops = append(s.Ops, ops[i])
		}
	} else if c.Index == nCore+7 || c.Index == nCore+8 {
		c04BeyondFourGiB(c)
		return
	} else {
		s = c04Random(r)
	}
	dumpScriptIfReplay(c, s)
	opStrs := func(upto int) []string {
		var out []string
		for i := 0; i < upto && i < len(s.Ops); i++ {
			out = append(out, fmt.Sprintf("%d:%s", i, s.Ops[i].String()))
		}
		return out
	}
	wit := func(k int, detail any) map[string]any {
		return map[string]any{"sb": s.SB, "core_order": core, "failing_prefix": k, "ops": opStrs(len(s.Ops)), "detail": detail}
	}

	// ---- (b) byte-ownership monitor on the full run
	full := filepath.Join(c.Dir, "full.h5")
	e := &hx.Exec{Path: full}
	var owners []c04Owner
	knownBlocks := map[uint64]bool{}
	var before []byte
	oob := 0
	claim := func(owner string) {
		if e.FW == nil {
			return
		}
		for _, b := range e.FW.VerifAllocBlocks() {
			if !knownBlocks[b[0]] {
				knownBlocks[b[0]] = true
				owners = append(owners, c04Owner{b[0], b[0] + b[1], owner})
			}
		}
	}
	ownerOf := func(off uint64) string {
		for _, o := range owners {
			if off >= o.start && off < o.end {
				return o.owner
			}
		}
		return "<unallocated>"
	}
	e.Hook = func(i int, op *hx.Op, phase string, res *hx.OpRes) {
		if phase == "pre" {
			before, _ = os.ReadFile(full)
			return
		}
		if op.K == "close" || op.K == "reopen" || op.K == "opends" {
			// session bookkeeping (superblock, end-of-file truncation) is not an operation on an object
			claim("/")
			return
		}
		claim(op.Path) // blocks allocated during this call belong to its target
		after, _ := os.ReadFile(full)
		allowed := map[string]bool{}
		for _, t := range c04Targets(op) {
			allowed[dumpKey(t)] = true
			if t == "/" || t == "" {
				allowed["/"] = true
			}
		}
		sbEnd := uint64(48)
		if s.SB == 0 {
			sbEnd = 96
		}
		n := len(before)
		if len(after) < n {
			n = len(after)
		}
		reported := map[string]bool{}
		for off := 0; off < n; off++ {
			if before[off] == after[off] || uint64(off) < sbEnd {
				continue
			}
			ow := ownerOf(uint64(off))
			if allowed[dumpKey(ow)] || (ow == "/" && allowed["/"]) {
				continue
			}
			// global heap collections are shared by all variable-length datasets of the file:
			// a collection allocated while one of them was written takes elements of the others
			if strings.HasPrefix(op.DT, "v") {
				shared := false
				for _, o := range owners {
					if uint64(off) >= o.start && uint64(off) < o.end {
						shared = int(o.start)+4 <= len(after) && string(after[o.start:o.start+4]) == "GCOL"
						break
					}
				}
				if shared {
					continue
				}
			}
			key := op.K + "->" + c04VictimKind(s, ow)
			if !reported[key] {
				reported[key] = true
				oob++
				c.Violation("out-of-extent-write:"+key, wit(i+1, map[string]any{"op": op.String(), "offset": off, "victim_block_owner": ow}))
			}
		}
	}
	var startErr error
	_, _, p := ev.Guard(func() { startErr = e.Start(s) })
	if p || startErr != nil {
		c.Violation("create-file-failed", fmt.Sprint(startErr))
		return
	}
	claim("/") // everything allocated at creation belongs to the root group
	for i := range s.Ops {
		res := e.Step(i, &s.Ops[i])
		if res.Panic != "" {
			c.Violation("op-panic:"+s.Ops[i].K+"@"+res.Panic, wit(i+1, res))
			return
		}
	}
	e.Finish()
	fullRes := append([]hx.OpRes(nil), e.Res...)

	// ---- (a) differential prefix runs
	var prev *dump.Dump
	// hard links are aliases: a change of the target is visible under every link to it
	aliases := map[string][]string{}
	for i, op := range s.Ops {
		if op.K == "hardlink" && i < len(fullRes) && fullRes[i].OK() {
			aliases[op.Target] = append(aliases[op.Target], op.Path)
		}
	}
	exclude := func(op *hx.Op) map[string]bool {
		ex := map[string]bool{}
		ts := c04Targets(op)
		for _, t := range c04Targets(op) {
			ts = append(ts, aliases[t]...)
		}
		for _, t := range ts {
			ex[t] = true
			ex[strings.TrimSuffix(t, "/")+"/"] = true
			if t == "/" {
				ex["/"] = true
			}
		}
		return ex
	}
	hasVlen := false
	for _, op := range s.Ops {
		if strings.HasPrefix(op.DT, "v") {
			hasVlen = true
		}
	}
	var prevDigest map[string]string
	nontrivial := 0
	for k := 0; k <= len(s.Ops); k++ {
		pf := filepath.Join(c.Dir, fmt.Sprintf("p%d.h5", k))
		sub := &hx.Script{SB: s.SB, RB: s.RB, Ops: s.Ops[:k]}
		pe := hx.Run(pf, sub)
		// determinism guard: the prefix run must take the same success/failure path
		for i := 0; i < k && i < len(pe.Res) && i < len(fullRes); i++ {
			if pe.Res[i].OK() != fullRes[i].OK() {
				c.Inconclusive(fmt.Sprintf("prefix %d: op %d outcome differs from the full run (non-deterministic history)", k, i))
				return
			}
		}
		d := dump.File(pf, dump.Options{})
		var digest map[string]string
		if hasVlen {
			// variable-length data has no reader in the library: the independent decoder's view
			// of every object is compared from prefix to prefix as well
			digest, _ = specDigest(pf)
		}
		_ = os.Remove(pf)
		if !d.OpenRes.OK() {
			key := "open-fail"
			if k > 0 {
				key += ":after-" + s.Ops[k-1].K
			}
			c.Violation(key, wit(k, d.OpenRes))
			return
		}
		if prev != nil && k > 0 {
			op := &s.Ops[k-1]
			if k-1 < len(fullRes) && fullRes[k-1].Skipped == "" {
				diffs := dump.Diff(prev, d, exclude(op))
				for _, p := range diffs {
					victim := "dataset"
					if strings.HasSuffix(p, "/") {
						victim = "group"
					}
					rel := "unrelated"
					if pp, _ := splitPath(strings.TrimSuffix(p, "/")); pp == dumpKey(op.Path) {
						rel = "child-of-target"
					}
					st := "ok"
					if !fullRes[k-1].OK() {
						st = "failed-call"
					}
					c.Violation(fmt.Sprintf("content-changed:%s:%s:%s:%s", op.K, st, victim, rel), wit(k, map[string]any{"op": op.String(), "changed_object": p, "before": logicalOf(prev, p), "after": logicalOf(d, p)}))
				}
				if prevDigest != nil && digest != nil {
					ex := exclude(op)
					var changed []string
					for p, was := range prevDigest {
						if ex[p] || ex[p+"/"] {
							continue
						}
						isVlen := false
						for _, o2 := range s.Ops {
							if o2.K == "create_ds" && o2.Path == p && strings.HasPrefix(o2.DT, "v") {
								isVlen = true // the decoder's view is needed only where the library has no reader
							}
						}
						if !isVlen {
							continue
						}
						if now, ok := digest[p]; ok && now != was {
							changed = append(changed, p)
						}
					}
					sort.Strings(changed)
					if len(changed) > 0 {
						c.Violation(fmt.Sprintf("content-changed(decoder):%s:unrelated", op.K), wit(k, map[string]any{"op": op.String(), "changed_object": changed[0], "before": prevDigest[changed[0]], "after": digest[changed[0]]}))
					}
				}
				nontrivial++
			}
		}
		prev, prevDigest = d, digest
	}
	desc := fmt.Sprintf("sb%d|core%v|%s", s.SB, core, strings.Join(opKinds(s), ","))
	c.Case(desc, nontrivial >= 2)
	c.Count("prefix_runs", int64(len(s.Ops)+1))
	c.Count("ops_monitored_bytewise", int64(len(s.Ops)))
	if core {
		c.Count("core_set_orders", 1)
	}
	if c.Index < 2 || c.Index == nCore {
		c.Sample(map[string]any{"sb": s.SB, "core": core, "ops": opStrs(len(s.Ops))})
	}
	_ = oob
}

// c04BeyondFourGiB: a dataset of 4 GiB that is created and never written (the file is sparse)
// moves the end of file past 2^32; objects created behind it must land there and leave the
// small datasets at the start of the file alone.
func c04BeyondFourGiB(c *ev.Ctx) {
	r := c.R
	sbv := []uint8{0, 2, 3}[r.Intn(3)]
	s := &hx.Script{SB: sbv}
	want := map[string][]uint64{}
	add := func(p string, n int) {
		v := hx.GenNumeric(r, "[]i32", n, 3)
		s.Ops = append(s.Ops, hx.Op{K: "create_ds", Path: p, DT: "i32", Dims: []uint64{uint64(n)}, Data: &v})
		want[p] = v.AsFloat64Bits()
	}
	for i := 0; i < 4; i++ {
		add(fmt.Sprintf("/v%d", i), r.Range(100, 600))
	}
	s.Ops = append(s.Ops, hx.Op{K: "create_ds", Path: "/big", DT: "f64", Dims: []uint64{(1<<32 - uint64(r.Range(8, 2500))) / 8}}) // the end of file crosses 2^32 by less than what lies in front of this dataset
	for i := 0; i < 3; i++ {
		add(fmt.Sprintf("/y%d", i), r.Range(1, 300))
		if i == 0 {
			av := hx.ScalarOf(r, "i32")
			s.Ops = append(s.Ops, hx.Op{K: "attr", Path: "/v1", Name: "late", Data: &av})
		}
	}
	path := filepath.Join(c.Dir, "big.h5")
	e := hx.Run(path, s)
	defer os.Remove(path)
	c.Case(fmt.Sprintf("beyond-4GiB|sb%d", sbv), true)
	c.Count("histories_with_end_of_file_beyond_4GiB", 1)
	for i, res := range e.Res {
		if i < len(s.Ops) && !res.OK() {
			c.Violation("beyond-4GiB:call-failed:"+s.Ops[i].K, map[string]any{"sb": sbv, "op": s.Ops[i].String(), "res": res})
			return
		}
	}
	d := dump.File(path, dump.Options{MaxElems: 1 << 20})
	if !d.OpenRes.OK() {
		c.Violation("beyond-4GiB:open-fail", map[string]any{"sb": sbv, "open": d.OpenRes})
		return
	}
	for p, w := range want {
		o := d.Get(p)
		if o == nil || !o.ReadRes.OK() || len(o.Read) != len(w) {
			c.Violation("beyond-4GiB:dataset-unreadable", map[string]any{"sb": sbv, "path": p})
			continue
		}
		for j := range w {
			if o.Read[j] != w[j] {
				c.Violation("beyond-4GiB:content-changed", map[string]any{"sb": sbv, "path": p, "index": j, "read": math.Float64frombits(o.Read[j]), "written": math.Float64frombits(w[j])})
				break
			}
		}
	}
}

func logicalOf(d *dump.Dump, p string) string {
	if o := d.Get(p); o != nil {
		l := o.Logical()
		if len(l) > 600 {
			l = l[:600] + "…"
		}
		return l
	}
	return "<absent>"
}

func opKinds(s *hx.Script) []string {
	var out []string
	for _, op := range s.Ops {
		k := op.K
		if op.K == "attr" || op.K == "write" || op.K == "resize" || op.K == "delattr" {
			k += "@" + op.Path
		}
		out = append(out, k)
	}
	return out
}

// c04VictimKind names the kind of object owning an overwritten block.
func c04VictimKind(s *hx.Script, owner string) string {
	if owner == "/" {
		return "root-group"
	}
	if owner == "<unallocated>" {
		return "unallocated"
	}
	for _, op := range s.Ops {
		if op.Path == owner {
			switch op.K {
			case "create_ds", "create_cmp":
				return "dataset"
			case "group", "densegroup":
				return "group"
			case "hardlink", "softlink", "extlink":
				return "link"
			}
		}
	}
	return "other"
}

var C04 = &ev.Property{
	ID:    "C04",
	Level: "exploration",
	Rule: "histories over 2-6 live objects: (1) every order of the core set {create X, create Y, write X, write Y, attribute on X, attribute on Y, hard link to X, resize X} that respects create-before-use (2688 linear extensions: all in the thorough tier, 200 sampled in the quick tier), (2) random histories of 3-22 operations (create dataset/group, attribute bursts crossing into dense storage, delete attribute, rewrite, hard link, resize, soft/external link objects, variable-length datasets whose elements fill the shared 4 KiB heap collection to the last byte / exceed it / are small — histories with such data are also compared prefix by prefix through the independent decoder) on superblock 0/2/3, one in three split over two sessions (Close, OpenForWrite, OpenDataset for every dataset, rest of the history); two histories per run hold a 4 GiB dataset that is never written, with objects created behind it (end of file beyond 2^32, sparse file). " +
		"Each history is executed once under a byte-ownership monitor (file snapshot before/after every call, changed bytes attributed through the allocator's block list) and once per prefix length into a fresh file; the dump after prefix k restricted to the objects op_k does not target must equal the dump after prefix k-1. non-trivial: >=2 judged prefixes; distinct = (superblock, core/random, sequence of operation kinds with their targets).",
	Assumptions: []string{
		"an operation may change its target object, the parent group it links into and (hard link) the link target",
		"block ownership = the call during which the allocator handed the block out; blocks allocated at file creation belong to the root group",
	},
	Cases: func(tier string) int {
		if tier == "thorough" {
			return 2688 + 10000
		}
		return 200 + 1000
	},
	Run:   c04Run,
	Floor: func(tier string) int64 { return 50 },
}
