package props

import (
	"fmt"
	"os"
	"path/filepath"
	"sort"
	"strings"

	"github.com/scigolib/hdf5/internal/zzverif/dump"
	"github.com/scigolib/hdf5/internal/zzverif/ev"
	"github.com/scigolib/hdf5/internal/zzverif/hx"
	"github.com/scigolib/hdf5/internal/zzverif/specdec"
)

// C16 — a write call that returns an error changes nothing; the writer stays usable.
//
// Monitor: twin runs. Run A executes a history H with calls F chosen to fail inserted at
// random points; run B executes H alone (plus those members of F that unexpectedly
// succeeded in A — they are then ordinary calls, not alarms). Violations: dump(A) !=
// dump(B) through the library reader or the independent decoder, a call of H whose
// outcome differs between A and B, a panic anywhere, a repeated Close that errors.

type c16State struct {
	dss    []c16DS
	groups []string
	names  map[string]bool // every linked path
	attrs  map[string][]string
}

type c16DS struct {
	path      string
	dt        string
	n         uint64
	resizable bool
}

// c16Scan derives what exists after ops[:upto] (assuming each succeeded).
func c16Scan(ops []hx.Op, upto int) *c16State {
	st := &c16State{names: map[string]bool{}, attrs: map[string][]string{}}
	for _, op := range ops[:upto] {
		switch op.K {
		case "create_ds":
			d := c16DS{path: op.Path, dt: op.DT, n: hx.NumElems(op.Dims), resizable: op.MaxDims != nil}
			st.dss = append(st.dss, d)
			st.names[op.Path] = true
		case "resize":
			for i := range st.dss {
				if st.dss[i].path == op.Path {
					st.dss[i].n = hx.NumElems(op.Dims)
				}
			}
		case "group", "densegroup":
			st.groups = append(st.groups, op.Path)
			st.names[op.Path] = true
		case "hardlink", "softlink", "extlink":
			st.names[op.Path] = true
		case "attr":
			st.attrs[op.Path] = append(st.attrs[op.Path], op.Name)
		}
	}
	return st
}

// c16Failing draws one call that is meant to fail in the given state.
func c16Failing(r *ev.Rand, st *c16State, seq int) hx.Op {
	fresh := fmt.Sprintf("/f%d", seq)
	small := hx.GenNumeric(r, "[]i32", 2, 2)
	var existing []string
	for n := range st.names {
		existing = append(existing, n)
	}
	sort.Strings(existing)
	anyExisting := func() string {
		if len(existing) == 0 {
			return "/"
		}
		return existing[r.Intn(len(existing))]
	}
	for {
		switch r.Intn(35) {
		case 0:
			return hx.Op{K: "create_ds", Path: "", DT: "i32", Dims: []uint64{2}, Tag: "ds-empty-name"}
		case 1:
			return hx.Op{K: "create_ds", Path: "relative", DT: "i32", Dims: []uint64{2}, Tag: "ds-relative-name"}
		case 2:
			return hx.Op{K: "create_ds", Path: anyExisting(), DT: "i32", Dims: []uint64{2}, Tag: "ds-existing-name"}
		case 3:
			return hx.Op{K: "create_ds", Path: "/nope" + fresh + "/x", DT: "i32", Dims: []uint64{2}, Tag: "ds-missing-parent"}
		case 4:
			return hx.Op{K: "create_ds", Path: fresh, DT: "i32", Dims: []uint64{0}, Tag: "ds-zero-extent"}
		case 5:
			return hx.Op{K: "create_ds", Path: fresh, DT: "i32", Dims: []uint64{4}, Chunk: []uint64{2, 2}, Tag: "ds-chunk-rank"}
		case 6:
			return hx.Op{K: "create_ds", Path: fresh, DT: "i32", Dims: []uint64{4}, Chunk: []uint64{9}, Tag: "ds-chunk-exceeds-extent"}
		case 7:
			return hx.Op{K: "create_ds", Path: fresh, DT: "i32", Dims: []uint64{4}, Chunk: []uint64{0}, Tag: "ds-chunk-zero"}
		case 8:
			return hx.Op{K: "create_ds", Path: fresh, DT: "i32", Dims: []uint64{4}, MaxDims: []uint64{8}, Tag: "ds-maxdims-without-chunks"}
		case 9:
			return hx.Op{K: "create_ds", Path: fresh, DT: "i32", Dims: []uint64{4}, Chunk: []uint64{2}, MaxDims: []uint64{3}, Tag: "ds-maxdims-below-extent"}
		case 10:
			return hx.Op{K: "create_ds", Path: fresh, DT: "nope", Dims: []uint64{2}, Tag: "ds-unknown-datatype"}
		case 11:
			return hx.Op{K: "create_ds", Path: fresh, DT: "str", Dims: []uint64{2}, Tag: "ds-string-without-size"}
		case 12:
			return hx.Op{K: "create_ds", Path: fresh, DT: "arr_i32", Dims: []uint64{2}, Tag: "ds-array-without-dims"}
		case 13:
			return hx.Op{K: "create_ds", Path: fresh, DT: "enum_i32", Dims: []uint64{2}, EnumN: []string{"a", "b"}, EnumV: []int64{1}, Tag: "ds-enum-length-mismatch"}
		case 14:
			if len(st.dss) == 0 {
				continue
			}
			d := st.dss[r.Intn(len(st.dss))]
			if _, ok := hx.DTypeOf(d.dt); !ok || strings.HasPrefix(d.dt, "v") {
				continue
			}
			v := hx.GenNumeric(r, "[]"+d.dt, int(d.n)+1+r.Intn(3), 2)
			return hx.Op{K: "write", Path: d.path, Data: &v, Tag: "write-wrong-length"}
		case 15:
			if len(st.dss) == 0 {
				continue
			}
			d := st.dss[r.Intn(len(st.dss))]
			other := "[]f64"
			if d.dt == "f64" {
				other = "[]i32"
			}
			v := hx.GenNumeric(r, other, int(d.n), 2)
			return hx.Op{K: "write", Path: d.path, Data: &v, Tag: "write-wrong-go-type"}
		case 16:
			if len(st.dss) == 0 {
				continue
			}
			d := st.dss[r.Intn(len(st.dss))]
			if d.resizable {
				switch r.Intn(3) {
				case 0:
					return hx.Op{K: "resize", Path: d.path, Dims: []uint64{0}, Tag: "resize-zero-extent"}
				case 1:
					return hx.Op{K: "resize", Path: d.path, Dims: []uint64{1 << 62}, Tag: "resize-astronomic"}
				}
				return hx.Op{K: "resize", Path: d.path, Dims: []uint64{4, 4}, Tag: "resize-rank-mismatch"}
			}
			return hx.Op{K: "resize", Path: d.path, Dims: []uint64{d.n + 1}, Tag: "resize-not-resizable"}
		case 17:
			if len(st.dss) == 0 {
				continue
			}
			d := st.dss[r.Intn(len(st.dss))]
			v := hx.Val{Kind: attrBadKinds[r.Intn(len(attrBadKinds))]}
			return hx.Op{K: "attr", Path: d.path, Name: "bad", Data: &v, Tag: "attr-unsupported-value"}
		case 18:
			if len(st.dss) == 0 {
				continue
			}
			d := st.dss[r.Intn(len(st.dss))]
			return hx.Op{K: "delattr", Path: d.path, Name: "never_written", Tag: "delattr-missing"}
		case 19:
			if len(st.dss) == 0 {
				continue
			}
			d := st.dss[r.Intn(len(st.dss))]
			v := hx.ScalarOf(r, "i32")
			return hx.Op{K: "attr", Path: d.path, Name: strings.Repeat("n", 65536), Data: &v, Tag: "attr-name-too-long"}
		case 20:
			return hx.Op{K: "group", Path: anyExisting(), Tag: "group-existing-name"}
		case 21:
			return hx.Op{K: "group", Path: "/nope" + fresh + "/g", Tag: "group-missing-parent"}
		case 22:
			return hx.Op{K: "group", Path: []string{"", "rel", "/a//b"}[r.Intn(3)], Tag: "group-invalid-path"}
		case 23:
			return hx.Op{K: "hardlink", Path: fresh, Target: "/no/such/target", Tag: "hardlink-missing-target"}
		case 24:
			if len(st.dss) == 0 {
				continue
			}
			return hx.Op{K: "hardlink", Path: anyExisting(), Target: st.dss[0].path, Tag: "hardlink-existing-name"}
		case 25:
			if len(st.dss) == 0 {
				continue
			}
			return hx.Op{K: "hardlink", Path: "/nope" + fresh + "/l", Target: st.dss[0].path, Tag: "hardlink-missing-parent"}
		case 26:
			return hx.Op{K: "softlink", Path: anyExisting(), Target: "/x", Tag: "softlink-existing-name"}
		case 27:
			return hx.Op{K: "extlink", Path: anyExisting(), File: "o.h5", Target: "/x", Tag: "extlink-existing-name"}
		case 28:
			return hx.Op{K: "densegroup", Path: fresh, Links: map[string]string{"l": "/no/such/target"}, Tag: "densegroup-missing-target"}
		case 33, 34:
			// a shape whose byte size overflows 64 bits (chunked creation allocates nothing, so
			// it may be accepted; if it is refused, it has to be refused without a trace)
			if r.Bool() {
				return hx.Op{K: "create_ds", Path: fresh, DT: "f64", Dims: []uint64{1 << 61}, Chunk: []uint64{1 << 20}, Tag: "ds-size-overflow-chunked"}
			}
			return hx.Op{K: "create_ds", Path: fresh, DT: "f64", Dims: []uint64{1 << 61}, Tag: "ds-size-overflow-contiguous"}
		case 29, 30, 31, 32:
			// attribute writes that fail after validation of the name: a value larger than any
			// attribute storage takes (object header and 64 KiB heap objects), an unsupported or
			// empty value — on a new name and, above all, on a name that already holds a value
			// (the old value must survive the failed replacement)
			if len(st.dss) == 0 {
				continue
			}
			d := st.dss[r.Intn(len(st.dss))]
			name, where := "huge_new", "new-name"
			if names := st.attrs[d.path]; len(names) > 0 && r.Chance(3, 4) {
				name, where = names[r.Intn(len(names))], "existing-name"
			}
			switch r.Intn(3) {
			case 0:
				v := hx.GenNumeric(r, "[]f64", r.Range(8200, 9500), 2)
				return hx.Op{K: "attr", Path: d.path, Name: name, Data: &v, Tag: "attr-value-too-large:" + where}
			case 1:
				v := hx.Val{Kind: attrBadKinds[r.Intn(len(attrBadKinds))]}
				return hx.Op{K: "attr", Path: d.path, Name: name, Data: &v, Tag: "attr-unsupported-value:" + where}
			default:
				v := hx.Val{Kind: "str", S: []string{strings.Repeat("x", r.Range(65530, 70000))}}
				return hx.Op{K: "attr", Path: d.path, Name: name, Data: &v, Tag: "attr-string-too-large:" + where}
			}
		default:
			if len(st.dss) == 0 {
				continue
			}
			d := st.dss[r.Intn(len(st.dss))]
			_ = small
			v := hx.Val{Kind: "empty[]i32"}
			return hx.Op{K: "attr", Path: d.path, Name: "e", Data: &v, Tag: "attr-empty-slice"}
		}
	}
}

// c16Capacity builds histories that run into a capacity limit: the calls beyond the limit
// are the failing ones (they are marked by Tag) and valid calls follow them.
func c16Capacity(r *ev.Rand) (h []hx.Op, f map[int][]hx.Op) {
	f = map[int][]hx.Op{}
	small := func() *hx.Val { v := hx.GenNumeric(r, "[]i32", 2, 2); return &v }
	switch r.Intn(5) {
	case 4: // a Resize that shrinks one axis and grows another to more chunks than can be stored
		// again after a shrink: it is refused, and the dataset has to stay what it was — shape,
		// data, and a later Write / Resize on the same handle (seeded C16.r9)
		rank := r.Range(2, 3)
		dims, chunk, maxd := make([]uint64, rank), make([]uint64, rank), make([]uint64, rank)
		for i := range dims {
			dims[i], chunk[i], maxd[i] = uint64(r.Range(2, 8)), uint64(r.Range(1, 2)), hx.Unlimited
		}
		n := int(hx.NumElems(dims))
		v := hx.GenNumeric(r, "[]i32", n, 2)
		h = append(h, hx.Op{K: "create_ds", Path: "/rz", DT: "i32", Dims: dims, Chunk: chunk, MaxDims: maxd, Data: &v})
		nd := append([]uint64(nil), dims...)
		a := r.Intn(rank)
		b := (a + 1 + r.Intn(rank-1)) % rank
		nd[a], nd[b] = dims[a]-1, chunk[b]*uint64(r.Range(70000, 90000))
		f[len(h)] = append(f[len(h)], hx.Op{K: "resize", Path: "/rz", Dims: nd, Tag: "resize-too-many-chunks-after-shrink"})
		if r.Bool() {
			v2 := hx.GenNumeric(r, "[]i32", n, 2)
			h = append(h, hx.Op{K: "write", Path: "/rz", Data: &v2})
		}
		if r.Bool() {
			gd := append([]uint64(nil), dims...)
			gd[r.Intn(rank)]++
			h = append(h, hx.Op{K: "resize", Path: "/rz", Dims: gd})
		}
	case 3: // an object header filled to within a few bytes of its 255-byte capacity: calls that
		// need one more message in it (the reference count of a first hard link) must fail cleanly
		v := hx.GenNumeric(r, "[]f64", 4, 2)
		h = append(h, hx.Op{K: "create_ds", Path: "/full", DT: "f64", Dims: []uint64{4}, Data: &v})
		sv := hx.Val{Kind: "str", S: []string{strings.Repeat("s", r.Range(138, 158))}}
		h = append(h, hx.Op{K: "attr", Path: "/full", Name: "pad", Data: &sv})
		h = append(h, hx.Op{K: "group", Path: "/links"})
		f[len(h)] = append(f[len(h)], hx.Op{K: "hardlink", Path: "/alias_of_full", Target: "/full", Tag: "header-capacity-refcount"},
			hx.Op{K: "hardlink", Path: "/links/alias_of_full", Target: "/full", Tag: "header-capacity-refcount"})
	case 0: // entries of one group up to and beyond its capacity
		h = append(h, hx.Op{K: "group", Path: "/cap"})
		n := r.Range(28, 34)
		for i := 0; i < n; i++ {
			h = append(h, hx.Op{K: "create_ds", Path: fmt.Sprintf("/cap/e%d", i), DT: "i32", Dims: []uint64{2}, Data: small()})
		}
		for j := 0; j < 3; j++ {
			f[len(h)] = append(f[len(h)], hx.Op{K: []string{"create_ds", "group", "softlink"}[j], Path: fmt.Sprintf("/cap/over%d", j), DT: "i32", Dims: []uint64{2}, Target: "/x", Tag: "group-entry-capacity"})
		}
	case 1: // names that fill the 256-byte name heap of a group
		h = append(h, hx.Op{K: "group", Path: "/heap"})
		n := r.Range(1, 4)
		for i := 0; i < n; i++ {
			h = append(h, hx.Op{K: "create_ds", Path: "/heap/" + strings.Repeat(string(rune('a'+i)), r.Range(40, 70)), DT: "i32", Dims: []uint64{2}, Data: small()})
		}
		for j := 0; j < 3; j++ {
			f[len(h)] = append(f[len(h)], hx.Op{K: "create_ds", Path: "/heap/" + strings.Repeat(string(rune('p'+j)), r.Range(100, 250)), DT: "i32", Dims: []uint64{2}, Tag: "name-heap-capacity"})
		}
	default: // attributes on a group until its header is full
		h = append(h, hx.Op{K: "group", Path: "/hdr"})
		n := r.Range(2, 6)
		for i := 0; i < n; i++ {
			v := hx.GenNumeric(r, "[]f64", r.Range(2, 4), 2)
			h = append(h, hx.Op{K: "attr", Path: "/hdr", Name: fmt.Sprintf("a%d", i), Data: &v})
		}
		for j := 0; j < 3; j++ {
			v := hx.GenNumeric(r, "[]f64", 28, 2)
			f[len(h)] = append(f[len(h)], hx.Op{K: "attr", Path: "/hdr", Name: fmt.Sprintf("big%d", j), Data: &v, Tag: "header-capacity"})
		}
	}
	// valid calls after the limit was hit
	v := hx.GenNumeric(r, "[]f64", 3, 2)
	h = append(h, hx.Op{K: "create_ds", Path: "/after", DT: "f64", Dims: []uint64{3}, Data: &v})
	av := hx.ScalarOf(r, "i32")
	h = append(h, hx.Op{K: "attr", Path: "/after", Name: "x", Data: &av})
	h = append(h, hx.Op{K: "group", Path: "/after_g"})
	return h, f
}

func c16Run(c *ev.Ctx) {
	r := c.R
	sbv := []uint8{0, 2, 3}[r.Intn(3)]
	var h []hx.Op
	ins := map[int][]hx.Op{} // failing calls before H[i] (i == len(H): after the last one)
	variant := "random"
	if r.Chance(1, 5) {
		variant = "capacity"
		h, ins = c16Capacity(r)
	} else {
		h = c04Random(r.Fork("h")).Ops
	}
	seq := 0
	npoints := r.Range(1, 6)
	for k := 0; k < npoints; k++ {
		at := r.Intn(len(h) + 1)
		st := c16Scan(h, at)
		for j := 0; j < r.Range(1, 3); j++ {
			seq++
			ins[at] = append(ins[at], c16Failing(r, st, seq))
		}
	}
	// premature calls: an operation of the history issued too early — before the group it
	// creates into, or the object it links to, exists. It must fail there, and the same call
	// must later succeed in its own place exactly as if it had never been tried.
	createdAt := map[string]int{}
	for i, op := range h {
		switch op.K {
		case "group", "create_ds", "create_cmp", "densegroup", "softlink", "extlink", "hardlink":
			if _, ok := createdAt[op.Path]; !ok {
				createdAt[op.Path] = i
			}
		}
	}
	npre := 0
	for j, op := range h {
		if npre >= 3 || !r.Chance(1, 2) {
			continue
		}
		need := -1
		switch op.K {
		case "group", "create_ds", "create_cmp":
			if parent, _ := splitPath(op.Path); parent != "/" && parent != "" {
				if i, ok := createdAt[parent]; ok && i < j {
					need = i
				}
			}
		case "hardlink":
			if i, ok := createdAt[op.Target]; ok && i < j {
				need = i
			}
		}
		if need < 0 {
			continue
		}
		f := op
		f.Expect = ""
		f.Tag = "premature:" + op.K
		at := r.Intn(need + 1)
		ins[at] = append(ins[at], f)
		npre++
	}
	// closed-writer calls at the end
	closedTail := r.Chance(1, 2)
	build := func(keep func(tag string, idx int) bool) (*hx.Script, []int, []string) {
		s := &hx.Script{SB: sbv}
		var hIndex []int  // script index of every H op
		var tags []string // per script op: "" for H, tag for F
		fi := 0
		for i := 0; i <= len(h); i++ {
			for _, f := range ins[i] {
				if keep(f.Tag, fi) {
					s.Ops = append(s.Ops, f)
					tags = append(tags, f.Tag)
				}
				fi++
			}
			if i < len(h) {
				hIndex = append(hIndex, len(s.Ops))
				s.Ops = append(s.Ops, h[i])
				tags = append(tags, "")
			}
		}
		return s, hIndex, tags
	}
	sa, hIdxA, tagsA := build(func(string, int) bool { return true })
	if closedTail {
		sa.Ops = append(sa.Ops, hx.Op{K: "close"})
		tagsA = append(tagsA, "")
		st := c16Scan(h, len(h))
		tail := []hx.Op{{K: "closed_create_ds", Path: "/late", Tag: "closed-writer"}, {K: "closed_group", Path: "/late_g", Tag: "closed-writer"}, {K: "close_again", Tag: "close-again"}, {K: "close_again", Tag: "close-again"}}
		if len(st.dss) > 0 {
			d := st.dss[r.Intn(len(st.dss))]
			av := hx.ScalarOf(r, "i32")
			tail = append(tail, hx.Op{K: "attr", Path: d.path, Name: "late", Data: &av, Tag: "closed-handle"})
			if _, ok := hx.DTypeOf(d.dt); ok && !strings.HasPrefix(d.dt, "v") {
				v := hx.GenNumeric(r, "[]"+d.dt, int(d.n), 2)
				tail = append(tail, hx.Op{K: "write", Path: d.path, Data: &v, Tag: "closed-handle"})
			}
			tail = append(tail, hx.Op{K: "delattr", Path: d.path, Name: "late", Tag: "closed-handle"})
		}
		for _, t := range tail {
			sa.Ops = append(sa.Ops, t)
			tagsA = append(tagsA, t.Tag)
		}
	}
	dumpScriptIfReplay(c, sa)
	pa := filepath.Join(c.Dir, "a.h5")
	ea := hx.Run(pa, sa)
	var logA []string
	for i, op := range sa.Ops {
		st := "ok"
		if i < len(ea.Res) {
			switch {
			case ea.Res[i].Panic != "":
				st = "PANIC " + ea.Res[i].Panic
			case ea.Res[i].Err != "":
				st = "ERR"
			case ea.Res[i].Skipped != "":
				st = "skipped"
			}
		}
		mark := ""
		if tagsA[i] != "" {
			mark = "  <-- " + tagsA[i]
		}
		logA = append(logA, fmt.Sprintf("%d:%s[%s]%s", i, trunc40(op.String()), st, mark))
	}
	wit := func(detail any) map[string]any {
		return map[string]any{"sb": sbv, "run_a": logA, "detail": detail}
	}
	// panics and repeated Close
	for i, res := range ea.Res {
		if res.Panic != "" {
			tag := tagsA[i]
			if tag == "" {
				tag = "valid-call"
			}
			c.Violation("panic:"+sa.Ops[i].K+":"+tag+"@"+res.Panic, wit(res))
			return
		}
		if i < len(sa.Ops) && sa.Ops[i].K == "close_again" && res.Err != "" {
			c.Violation("repeated-close-errors", wit(res))
			return
		}
		if i < len(sa.Ops) && (tagsA[i] == "closed-writer" || tagsA[i] == "closed-handle") && res.OK() {
			c.Violation("call-on-closed-"+strings.TrimPrefix(tagsA[i], "closed-")+"-succeeds:"+sa.Ops[i].K, wit(sa.Ops[i].String()))
			return
		}
	}
	if ea.CloseRes.Panic != "" || ea.CloseRes.Err != "" {
		c.Violation("close-failed-after-failing-calls", wit(ea.CloseRes))
		return
	}
	// which inserted calls failed (those are the subject), which succeeded (ordinary calls)
	failedTags := map[string]int{}
	succeeded := map[int]bool{}
	fi := 0
	for i := range sa.Ops {
		if tagsA[i] == "" || tagsA[i] == "closed-writer" || tagsA[i] == "closed-handle" || tagsA[i] == "close-again" {
			continue
		}
		if ea.Res[i].OK() {
			succeeded[fi] = true
			c.Count("meant-to-fail-but-accepted:"+tagsA[i], 1)
		} else if ea.Res[i].Skipped == "" {
			failedTags[tagsA[i]]++
		}
		fi++
	}
	sb, hIdxB, _ := build(func(_ string, idx int) bool { return succeeded[idx] })
	pb := filepath.Join(c.Dir, "b.h5")
	eb := hx.Run(pb, sb)
	for i, res := range eb.Res {
		if res.Panic != "" {
			c.Violation("panic:"+sb.Ops[i].K+":valid-call@"+res.Panic, wit(map[string]any{"run": "B", "op": sb.Ops[i].String()}))
			return
		}
	}
	var ft []string
	for t, n := range failedTags {
		ft = append(ft, t)
		c.Count("failed-call:"+t, int64(n))
	}
	sort.Strings(ft)
	if closedTail {
		c.Count("closed-writer-tails", 1)
	}
	c.Case(fmt.Sprintf("sb%d|%s|%s|closed%v|h%d", sbv, variant, strings.Join(ft, ","), closedTail, len(h)/4), len(ft) > 0 || closedTail)
	tagList := strings.Join(ft, "+")
	if len(ft) > 3 {
		tagList = "several"
	}
	// later calls behave the same
	for k := range h {
		ra, rb := ea.Res[hIdxA[k]], eb.Res[hIdxB[k]]
		if ra.OK() != rb.OK() || (ra.Skipped != "") != (rb.Skipped != "") {
			// name the failing call that precedes it
			prevTag := "none"
			for i := hIdxA[k] - 1; i >= 0; i-- {
				if tagsA[i] != "" && !ea.Res[i].OK() {
					prevTag = tagsA[i]
					break
				}
			}
			c.Violation("later-call-differs:"+h[k].K+":after-"+prevTag, wit(map[string]any{"op": h[k].String(), "with_failing_calls": ra, "without": rb}))
			return
		}
	}
	// content
	da, db := dump.File(pa, dump.Options{}), dump.File(pb, dump.Options{})
	if da.OpenRes.OK() != db.OpenRes.OK() {
		c.Violation("content:open:"+tagList, wit(map[string]any{"a": da.OpenRes, "b": db.OpenRes}))
		return
	}
	if diff := dump.Diff(da, db, nil); len(diff) > 0 {
		p0 := diff[0]
		aspect := "object-differs"
		switch {
		case da.Get(p0) == nil:
			aspect = "object-missing"
		case db.Get(p0) == nil:
			aspect = "object-appeared"
		}
		c.Violation("content:"+aspect+":"+tagList, wit(map[string]any{"paths": diff, "with_failing_calls": logicalOf(da, p0), "without": logicalOf(db, p0)}))
		return
	}
	// independent decoder: same tree, same raw data, same attribute bytes
	sa2, sb2 := c16Spec(pa), c16Spec(pb)
	if sa2 != sb2 {
		la, lb := strings.Split(sa2, "\n"), strings.Split(sb2, "\n")
		first := ""
		for i := 0; i < len(la) || i < len(lb); i++ {
			var x, y string
			if i < len(la) {
				x = la[i]
			}
			if i < len(lb) {
				y = lb[i]
			}
			if x != y {
				first = trunc40(x) + " | " + trunc40(y)
				break
			}
		}
		c.Violation("content:decoder-view-differs:"+tagList, wit(first))
	}
}

// c16Spec renders what the independent decoder sees (tree, kinds, shapes, raw data and
// attribute bytes), one object per line.
func c16Spec(path string) string {
	f, err := os.Open(path)
	if err != nil {
		return "open: " + err.Error()
	}
	defer f.Close()
	st, _ := f.Stat()
	sf, err := specdec.Decode(f, st.Size(), specdec.Options{Tolerate: specdec.AllTolerances()})
	if err != nil {
		return "decode: " + err.Error()
	}
	var lines []string
	sf.Walk(func(p string, o *specdec.Object, l *specdec.Link) {
		if o == nil {
			lines = append(lines, fmt.Sprintf("%s link:%s", p, l.Kind))
			return
		}
		ln := fmt.Sprintf("%s %s ref=%d", p, o.Kind, o.RefCount)
		// the header's message list (type and size) and the raw reference-count message: a
		// failed call must not leave a message behind either
		for _, m := range o.Messages {
			switch m.Type {
			case 0x0016:
				ln += fmt.Sprintf(" refmsg=%x", m.Data)
			case 0x0000, 0x000c, 0x0006, 0x0015, 0x0010:
				// NIL, attribute, link, attribute info, continuation: compared through their content
			default:
				ln += fmt.Sprintf(" m%x:%d", m.Type, len(m.Data))
			}
		}
		if o.Kind == "dataset" {
			d, derr := sf.ReadData(o)
			if o.Type != nil && o.Type.Class == 9 {
				d = nil // heap references are addresses; their targets are compared by C12
			}
			ln += fmt.Sprintf(" dims=%v max=%v err=%v data=%x", o.Space.Dims, o.Space.MaxDims, derr != nil, d)
			if o.Type != nil {
				ln += fmt.Sprintf(" type=%x", o.Type.Raw)
			}
		}
		as := append([]specdec.Attr(nil), o.Attrs...)
		sort.Slice(as, func(i, j int) bool { return as[i].Name < as[j].Name })
		for _, a := range as {
			ln += fmt.Sprintf(" @%s=%x", a.Name, a.Raw)
		}
		lines = append(lines, ln)
	})
	sort.Strings(lines)
	return strings.Join(lines, "\n")
}

var C16 = &ev.Property{
	ID:    "C16",
	Level: "exploration",
	Rule: "twin runs: run A executes a history H (random histories of dataset/group/attribute/link/resize/write calls, or histories that fill a group to its 32-entry / 256-byte name-heap capacity or a group header to its 255 bytes, or that leave a dataset header a few bytes short of its capacity before a first hard link needs a reference-count message in it, or that ask a written rank 2-3 dataset for a Resize shrinking one axis and growing another to 70 000-90 000 chunks, followed by a Write of the old shape and a legitimate Resize on the same handle) with 1-18 calls chosen to fail inserted at 1-6 random points from a catalogue of 40 kinds (empty/relative/existing names, missing parents, zero extents, chunk rank/size/zero, max-dims without chunks or below the extent, unknown datatype, string/array/enum options missing, Write with wrong length or Go type, Resize with wrong rank or on a fixed dataset, unsupported/empty attribute values, 64 KiB attribute names, missing attributes, duplicate or dangling hard/soft/external links, dense groups with dangling links, calls beyond a capacity limit, replacements of existing attributes by values no storage takes) plus up to three premature calls (an operation of H issued before the group it creates into or the object it links to exists) and, in half of the cases, calls on the closed writer and its handles plus two further Close calls; run B executes H alone (plus inserted calls that succeeded in A). Violations: any panic; an error from a repeated Close; a call on a closed writer/handle that reports success; a call of H whose outcome differs between A and B; any difference between the dumps of A and B through the library reader (all metadata, values, attributes) or through the independent decoder (tree, reference counts, raw data, attribute bytes). " +
		"non-trivial: at least one inserted call failed, or the closed-writer tail ran; distinct = (superblock, variant, kinds of failed calls, tail, history length).",
	Assumptions: []string{"orphaned allocations are not logical content: byte identity between the twins is not required"},
	Cases: func(tier string) int {
		if tier == "thorough" {
			return 20000
		}
		return 400
	},
	Run:   c16Run,
	Floor: func(tier string) int64 { return 100 },
}
