package props

import (
	"encoding/hex"
	"fmt"
	"math"
	"path/filepath"
	"sort"
	"strings"

	"github.com/scigolib/hdf5/internal/zzverif/dump"
	"github.com/scigolib/hdf5/internal/zzverif/ev"
	"github.com/scigolib/hdf5/internal/zzverif/hx"
)

// C02 — attribute write/delete histories behave like a name-to-value map.
//
// Monitor: a map model (name -> value) per object is stepped with the outcomes of the
// real calls; after Close and reopen the attributes the reader reports are compared with it.

var attrScalarKinds = []string{"i8", "i16", "i32", "i64", "u8", "u16", "u32", "u64", "f32", "f64", "str"}
var attrSliceKinds = []string{"[]i32", "[]i64", "[]f32", "[]f64"}
var attrBadKinds = []string{"int", "bool", "nil", "struct", "map", "[]int", "[]bool", "empty[]i32", "[]i8attr", "[]u16attr"}

// genAttrVal generates an attribute value. small: values of at most 32 bytes.
func genAttrVal(r *ev.Rand, small bool) hx.Val {
	switch r.Weighted([]int{10, 4, 1}) {
	case 0:
		k := attrScalarKinds[r.Intn(len(attrScalarKinds))]
		if k == "str" {
			n := r.Range(0, 300)
			if small || r.Chance(2, 3) {
				n = r.Range(0, 24)
			}
			return hx.Val{Kind: "str", S: hx.GenStrings(r, 1, n)}
		}
		return hx.ScalarOf(r, k)
	case 1:
		k := attrSliceKinds[r.Intn(len(attrSliceKinds))]
		n := r.Range(1, 64)
		if small {
			n = r.Range(1, 4)
		}
		return hx.GenNumeric(r, k, n, 1+r.Intn(3))
	default:
		return hx.Val{Kind: attrBadKinds[r.Intn(len(attrBadKinds))]}
	}
}

// c02ExpectValue renders what ReadValue must return for a written value, in dump.canonValue form.
func c02ExpectValue(v hx.Val) (string, bool) {
	switch v.Kind {
	case "i32", "i64":
		return fmt.Sprintf("int:%d", v.I[0]), true
	case "u32", "u64":
		return fmt.Sprintf("int:%d", v.U[0]), true
	case "f32":
		return fmt.Sprintf("f32:%08x", uint32(v.F[0])), true
	case "f64":
		return fmt.Sprintf("f64:%016x", v.F[0]), true
	case "str":
		return "str:" + hex.EncodeToString([]byte(v.S[0])), true
	case "[]i32", "[]i64":
		if len(v.I) == 1 {
			return fmt.Sprintf("int:%d", v.I[0]), true
		}
		var sb strings.Builder
		sb.WriteString("[]int:")
		for _, x := range v.I {
			fmt.Fprintf(&sb, "%d,", x)
		}
		return sb.String(), true
	case "[]f32":
		if len(v.F) == 1 {
			return fmt.Sprintf("f32:%08x", uint32(v.F[0])), true
		}
		var sb strings.Builder
		sb.WriteString("[]f32:")
		for _, x := range v.F {
			fmt.Fprintf(&sb, "%08x,", uint32(x))
		}
		return sb.String(), true
	case "[]f64":
		if len(v.F) == 1 {
			return fmt.Sprintf("f64:%016x", v.F[0]), true
		}
		var sb strings.Builder
		sb.WriteString("[]f64:")
		for _, x := range v.F {
			fmt.Fprintf(&sb, "%016x,", x)
		}
		return sb.String(), true
	}
	return "", false // i8/i16/u8/u16: no typed attribute read documented
}

type attrModel map[string]hx.Val

// c02Compare compares the reopened object's attributes with the model and returns
// (symptom, detail) pairs.
func c02Compare(o *dump.Obj, m attrModel) [][2]string {
	var out [][2]string
	add := func(sym, detail string) { out = append(out, [2]string{sym, detail}) }
	if !o.AttrsRes.OK() {
		if o.AttrsRes.Panic != "" {
			add("panic", o.AttrsRes.Panic)
		} else {
			add("attributes-error", o.AttrsRes.Err)
		}
		return out
	}
	seen := map[string]int{}
	for _, a := range o.Attrs {
		seen[a.Name]++
	}
	for n, k := range seen {
		if k > 1 {
			add("duplicate", fmt.Sprintf("attribute %q listed %d times", n, k))
		}
		if _, ok := m[n]; !ok {
			add("extra", fmt.Sprintf("attribute %q present but not in the model (deleted or never written)", n))
		}
	}
	names := make([]string, 0, len(m))
	for n := range m {
		names = append(names, n)
	}
	sort.Strings(names)
	for _, n := range names {
		if seen[n] == 0 {
			add("missing", fmt.Sprintf("attribute %q (%s) missing after reopen; %d of %d present", n, m[n].String(), len(seen), len(m)))
		}
	}
	for _, a := range o.Attrs {
		v, ok := m[a.Name]
		if !ok || seen[a.Name] > 1 {
			continue
		}
		wantClass, wantSize := 0, uint32(v.ElemSize())
		switch v.Base()[0] {
		case 'f':
			wantClass = 1
		case 's':
			wantClass, wantSize = 3, uint32(len(v.S[0])+1)
		}
		wantDims := []uint64{1}
		if !v.IsScalar() {
			wantDims = []uint64{uint64(v.Len())}
		}
		kindCls := v.Base()
		switch {
		case a.Class != wantClass || a.Size != wantSize:
			add("datatype:"+kindCls, fmt.Sprintf("attribute %q: class %d size %d, written %s (class %d size %d)", a.Name, a.Class, a.Size, v.Kind, wantClass, wantSize))
			continue
		case wantClass == 0 && (a.BitField>>3&1 == 1) != (v.Base()[0] == 'i'):
			add("sign:"+kindCls, fmt.Sprintf("attribute %q: sign bit %d for %s", a.Name, a.BitField>>3&1, v.Kind))
			continue
		case !eqU64s(a.Dims, wantDims):
			add("shape:"+kindCls, fmt.Sprintf("attribute %q: dims %v, written %v", a.Name, a.Dims, wantDims))
			continue
		}
		if raw := hex.EncodeToString(v.Bytes()); raw != a.Raw {
			add("bytes:"+kindCls, fmt.Sprintf("attribute %q (%s): raw %s, written %s", a.Name, v.Kind, trunc40(a.Raw), trunc40(raw)))
			continue
		}
		if a.ValueRes.Panic != "" {
			add("panic", a.ValueRes.Panic)
			continue
		}
		if want, has := c02ExpectValue(v); a.ValueRes.OK() && a.Value != want {
			cls := kindCls
			if (v.Kind == "u32" && v.U[0] > math.MaxInt32) || (v.Kind == "u64" && v.U[0] > math.MaxInt64) {
				cls += ">max-signed"
			}
			if !has {
				cls += ":no-typed-read"
			}
			add("value:"+cls, fmt.Sprintf("attribute %q: ReadValue %s, written %s", a.Name, trunc40(a.Value), trunc40(want)))
		} else if has && a.ValueRes.Err != "" {
			add("value-error:"+kindCls, fmt.Sprintf("attribute %q: %s", a.Name, a.ValueRes.Err))
		}
	}
	return out
}

func trunc40(s string) string {
	if len(s) > 80 {
		return s[:80] + "…"
	}
	return s
}

// c02Gen generates an attribute history on 1-2 objects.
type c02Case struct {
	Script  *hx.Script
	Targets []string // object paths
	Kinds   []string // dataset-session | dataset-reopened | group
	Steered bool
	// Colliding holds two names with equal lookup3 hash placed in the name pool (or empty).
	Colliding [2]string
}

func c02Gen(r *ev.Rand, thorough bool, steered bool) *c02Case {
	cs := &c02Case{Script: &hx.Script{SB: []uint8{0, 2, 3}[r.Intn(3)]}, Steered: steered}
	s := cs.Script
	add := func(op hx.Op) { s.Ops = append(s.Ops, op) }
	ntargets := r.Range(1, 2)
	// some unrelated neighbours first/after so that headers are not the last allocation
	v0 := hx.GenNumeric(r, "[]i32", 4, 2)
	for t := 0; t < ntargets; t++ {
		kind := []string{"dataset-session", "dataset-session", "dataset-reopened", "group"}[r.Intn(4)]
		p := fmt.Sprintf("/obj%d", t)
		if kind == "group" {
			add(hx.Op{K: "group", Path: p, Expect: "ok"})
		} else {
			vv := v0
			add(hx.Op{K: "create_ds", Path: p, DT: "i32", Dims: []uint64{4}, Data: &vv, Expect: "ok"})
		}
		cs.Targets = append(cs.Targets, p)
		cs.Kinds = append(cs.Kinds, kind)
	}
	if !steered && r.Bool() {
		vv := v0
		add(hx.Op{K: "create_ds", Path: "/neighbour", DT: "i32", Dims: []uint64{4}, Data: &vv, Expect: "ok"})
	}
	// in a third of the histories every reopened dataset is held through two handles that take
	// turns (each has its own copy of the object header)
	twoHandles := r.Chance(1, 3)
	sameSize := twoHandles && r.Bool()
	reopened := false
	for _, k := range cs.Kinds {
		if k == "dataset-reopened" {
			reopened = true
		}
	}
	if reopened {
		add(hx.Op{K: "close"})
		add(hx.Op{K: "reopen"})
		for i, k := range cs.Kinds {
			if k != "group" {
				add(hx.Op{K: "opends", Path: cs.Targets[i]})
				if twoHandles {
					add(hx.Op{K: "opends", Path: cs.Targets[i], Name: cs.Targets[i] + "#B"})
				}
			}
		}
	}
	npool := r.Range(4, 40)
	pool := make([]string, npool)
	for i := range pool {
		pool[i] = hx.GenName(r, i)
		if r.Chance(1, 25) {
			pool[i] = strings.Repeat("L", 255) + fmt.Sprint(i)
		}
	}
	if !steered && r.Chance(1, 10) {
		if pairs := minedCollisions(); len(pairs) > 0 {
			p := pairs[r.Intn(len(pairs))]
			pool[0], pool[1] = p[0], p[1]
			cs.Colliding = [2]string{p[0], p[1]}
		}
	}
	nops := r.Range(1, 60)
	if r.Chance(1, 3) {
		nops = r.Range(40, 300)
	}
	if !thorough && nops > 150 {
		nops = 150
	}
	phase := r.Intn(3) // 0 random mix, 1 grow then shrink then grow, 2 overwrite heavy
	sessionBreaks := r.Intn(3)
	nlinks := 0
	for i := 0; i < nops; i++ {
		ti := r.Intn(len(cs.Targets))
		target := cs.Targets[ti]
		name := pool[r.Intn(len(pool))]
		if r.Chance(1, 40) {
			name = ""
		}
		w := []int{6, 3}
		switch phase {
		case 1:
			third := nops / 3
			if i < third || i >= 2*third {
				w = []int{9, 1}
			} else {
				w = []int{1, 9}
			}
		case 2:
			w = []int{9, 1}
			name = pool[r.Intn(1+len(pool)/4)]
		}
		if cs.Kinds[ti] == "group" {
			w = []int{1, 0} // no delete API on groups
		}
		hpath := target
		if twoHandles && reopened && cs.Kinds[ti] != "group" && r.Bool() {
			hpath = target + "#B"
		}
		if sameSize {
			// every message has the same size: a change made through one handle leaves the
			// header's size as the other handle remembers it
			name = fmt.Sprintf("eq%d", r.Intn(6))
		}
		if r.Weighted(w) == 0 {
			v := genAttrVal(r, steered)
			if sameSize {
				v = hx.ScalarOf(r, "i32")
			}
			add(hx.Op{K: "attr", Path: hpath, Name: name, Data: &v})
		} else {
			add(hx.Op{K: "delattr", Path: hpath, Name: name})
		}
		// another writer of the same object header: a hard link to the object adds (or bumps) a
		// reference-count message among the attribute messages
		if r.Chance(1, 20) && nlinks < 4 {
			add(hx.Op{K: "hardlink", Path: fmt.Sprintf("/hl%d", nlinks), Target: target})
			nlinks++
		}
		if sessionBreaks > 0 && !steered && r.Chance(1, nops/2+1) {
			sessionBreaks--
			add(hx.Op{K: "close"})
			add(hx.Op{K: "reopen"})
			for j, k := range cs.Kinds {
				if k != "group" {
					add(hx.Op{K: "opends", Path: cs.Targets[j]})
					if twoHandles && reopened {
						add(hx.Op{K: "opends", Path: cs.Targets[j], Name: cs.Targets[j] + "#B"})
					}
				} else {
					// groups cannot be reopened for attribute writes: later ops on them are skipped
					_ = j
				}
			}
		}
	}
	return cs
}

// c02GenSweep: one dataset whose attributes live in dense storage takes several hundred
// writes of small float arrays under names of 1-24 characters, new names and replacements of
// another size alike. The heap behind dense storage only grows, so the stored messages end at
// hundreds of different positions relative to the 512-byte and 4 KiB boundaries of the heap
// block; the values are negative numbers, whose last byte is never zero.
func c02GenSweep(r *ev.Rand, thorough bool) *c02Case {
	cs := &c02Case{Script: &hx.Script{SB: []uint8{0, 2, 3}[r.Intn(3)]}}
	s := cs.Script
	v0 := hx.GenNumeric(r, "[]i32", 4, 2)
	s.Ops = append(s.Ops, hx.Op{K: "create_ds", Path: "/obj0", DT: "i32", Dims: []uint64{4}, Data: &v0, Expect: "ok"})
	cs.Targets, cs.Kinds = []string{"/obj0"}, []string{"dataset-session"}
	reopen := r.Bool()
	// every write is a new name (the index leaf of dense storage takes about 370 names), so that
	// every stored message is still visible at the end
	n := 340
	_ = thorough
	pool := make([]string, n)
	for i := range pool {
		pool[i] = strings.Repeat(string(rune('a'+i%26)), 1+r.Intn(24)) + fmt.Sprint(i)
	}
	for k := 0; k < n; k++ {
		cnt := 1 + r.Intn(4)
		v := hx.Val{Kind: "[]f64"}
		for j := 0; j < cnt; j++ {
			v.F = append(v.F, math.Float64bits(-(float64(k)*1.5 + float64(j) + 0.25)))
		}
		s.Ops = append(s.Ops, hx.Op{K: "attr", Path: "/obj0", Name: pool[k], Data: &v})
		if reopen && k == n/2 {
			s.Ops = append(s.Ops, hx.Op{K: "close"}, hx.Op{K: "reopen"}, hx.Op{K: "opends", Path: "/obj0"})
		}
	}
	return cs
}

// c02GenLadder: an object in compact storage whose header is brought to within a byte of its
// capacity by REPLACING an existing attribute with a string that is one character longer
// each time (the replace path has its own fits-check).
func c02GenLadder(r *ev.Rand, step int) *c02Case {
	cs := &c02Case{Script: &hx.Script{SB: []uint8{0, 2, 3}[r.Intn(3)]}}
	s := cs.Script
	dt := []string{"i32", "f64", "i8", "u16"}[r.Intn(4)]
	v0 := hx.GenNumeric(r, "[]"+dt, 4, 2)
	s.Ops = append(s.Ops, hx.Op{K: "create_ds", Path: "/obj0", DT: dt, Dims: []uint64{4}, Data: &v0, Expect: "ok"})
	cs.Targets, cs.Kinds = []string{"/obj0"}, []string{"dataset-session"}
	n := hx.ScalarOf(r, "i32")
	short := hx.Val{Kind: "str", S: []string{"0123456789"}}
	s.Ops = append(s.Ops, hx.Op{K: "attr", Path: "/obj0", Name: "n", Data: &n}, hx.Op{K: "attr", Path: "/obj0", Name: "s", Data: &short})
	if r.Bool() {
		s.Ops = append(s.Ops, hx.Op{K: "close"}, hx.Op{K: "reopen"}, hx.Op{K: "opends", Path: "/obj0"})
		cs.Kinds[0] = "dataset-reopened"
	}
	// the string grows by one character per replacement until the header is full and storage
	// goes dense: every header size up to the capacity occurs on the way
	for L := 40 + step%7; L < 200; L++ {
		long := hx.Val{Kind: "str", S: []string{strings.Repeat("x", L)}}
		s.Ops = append(s.Ops, hx.Op{K: "attr", Path: "/obj0", Name: "s", Data: &long})
	}
	// and something afterwards
	m := hx.ScalarOf(r, "i16")
	s.Ops = append(s.Ops, hx.Op{K: "attr", Path: "/obj0", Name: "m", Data: &m})
	return cs
}

func c02Run(c *ev.Ctx) {
	r := c.R
	steered := c.Index%3 == 0
	cs := c02Gen(r, c.Thorough(), steered)
	if c.Index%10 == 4 {
		steered = true
		cs = c02GenLadder(r, c.Index/10)
	}
	if c.Index%5 == 2 {
		steered = false
		cs = c02GenSweep(r, c.Thorough())
	}
	path := filepath.Join(c.Dir, "c02.h5")
	dumpScriptIfReplay(c, cs.Script)
	e := hx.Run(path, cs.Script)
	models := map[string]attrModel{}
	for _, t := range cs.Targets {
		models[t] = attrModel{}
	}
	maxLive, crossedUp, crossedDown := 0, false, false
	sizeChanges, sameSize, delPresent, delAbsent := 0, 0, 0, 0
	wit := func(detail any, upto int) map[string]any {
		ops := cs.Script.Ops
		if upto > 0 && upto < len(ops) {
			ops = ops[:upto]
		}
		var tail []string
		lo := 0
		if len(ops) > 25 {
			lo = len(ops) - 25
		}
		for i := lo; i < len(ops); i++ {
			st := "ok"
			if i < len(e.Res) && !e.Res[i].OK() {
				st = "ERR"
			}
			tail = append(tail, fmt.Sprintf("%d:%s[%s]", i, ops[i].String(), st))
		}
		return map[string]any{"sb": cs.Script.SB, "targets": cs.Kinds, "steered": steered, "detail": detail, "ops_total": len(cs.Script.Ops), "last_ops": tail}
	}
	phaseOf := func(m attrModel, wasDense bool) string {
		switch {
		case wasDense:
			return "dense"
		case len(m) > 8:
			return "dense"
		case len(m) == 8:
			return "transition"
		}
		return "compact"
	}
	wasDense := map[string]bool{}
	// Hash-colliding pair: dense storage identifies attributes by the 32-bit name hash only
	// (known finding of C14). Once both names of the pair have been used on an object, what
	// the library does with either of them is not predictable by a name-keyed map, so the
	// two names are taken out of the judged model and followed in a shadow map instead;
	// a difference there is reported under one key.
	isPair := func(n string) bool { return cs.Colliding[0] != "" && (n == cs.Colliding[0] || n == cs.Colliding[1]) }
	usedColl := map[string]map[string]bool{}
	shadow := map[string]attrModel{}
	tainted := map[string]bool{}
	for i, op := range cs.Script.Ops {
		if i >= len(e.Res) {
			break
		}
		res := e.Res[i]
		// "/obj0#B" is a second handle on /obj0: one object, one model entry
		if j := strings.Index(op.Path, "#"); j >= 0 && (op.K == "attr" || op.K == "delattr") {
			op.Path = op.Path[:j]
		}
		if (op.K == "attr" || op.K == "delattr") && isPair(op.Name) && res.Skipped == "" && res.Panic == "" {
			if usedColl[op.Path] == nil {
				usedColl[op.Path] = map[string]bool{}
				shadow[op.Path] = attrModel{}
			}
			usedColl[op.Path][op.Name] = true
			if len(usedColl[op.Path]) == 2 && !tainted[op.Path] {
				tainted[op.Path] = true
				for _, n := range cs.Colliding {
					if v, ok := models[op.Path][n]; ok {
						shadow[op.Path][n] = v
						delete(models[op.Path], n)
					}
				}
			}
			if tainted[op.Path] {
				// faithful-map semantics in the shadow; the real outcome is not judged
				if op.K == "attr" && op.Data.Supported() {
					shadow[op.Path][op.Name] = *op.Data
				} else if op.K == "delattr" {
					delete(shadow[op.Path], op.Name)
				}
				continue
			}
		}
		if res.Panic != "" {
			c.Violation("op-panic:"+op.K+"@"+res.Panic, wit(res, i+1))
			return
		}
		if res.Skipped != "" {
			continue
		}
		m := models[op.Path]
		switch op.K {
		case "attr":
			_, present := m[op.Name]
			mustFail := op.Name == "" || !op.Data.Supported()
			switch {
			case mustFail && res.OK():
				c.Violation("accepted-invalid:"+map[bool]string{true: "empty-name", false: "unsupported-kind:" + op.Data.Kind}[op.Name == ""], wit(op.String(), i+1))
				return
			case mustFail:
			case res.OK():
				if present {
					if len(m[op.Name].Bytes()) == len(op.Data.Bytes()) {
						sameSize++
					} else {
						sizeChanges++
					}
				}
				m[op.Name] = *op.Data
			default:
				// refused: legitimate at documented capacity limits; not below them
				if len(m) < 4 && len(op.Data.Bytes()) <= 16 && len(op.Name) <= 16 && !wasDense[op.Path] {
					c.Violation("refused-below-capacity:"+phaseOf(m, false), wit(map[string]any{"op": op.String(), "err": res.Err, "live": len(m)}, i+1))
					return
				}
				c.Count("writes_refused", 1)
			}
			if len(m) > maxLive {
				maxLive = len(m)
			}
			if len(m) > 8 {
				crossedUp = true
				wasDense[op.Path] = true
			}
		case "delattr":
			_, present := m[op.Name]
			switch {
			case present && !res.OK():
				c.Violation("delete-refused:"+phaseOf(m, wasDense[op.Path]), wit(map[string]any{"op": op.String(), "err": res.Err}, i+1))
				return
			case !present && res.OK():
				c.Violation("delete-absent-accepted:"+phaseOf(m, wasDense[op.Path]), wit(op.String(), i+1))
				return
			case present:
				delete(m, op.Name)
				delPresent++
				if crossedUp && len(m) <= 8 {
					crossedDown = true
				}
			default:
				delAbsent++
			}
		case "create_ds", "group", "close", "reopen", "opends":
			if !res.OK() {
				c.Violation("setup-failed:"+op.K, wit(res, i+1))
				return
			}
		}
	}
	// final close result
	if len(e.Res) > len(cs.Script.Ops) {
		if fr := e.Res[len(cs.Script.Ops)]; fr.Panic != "" {
			c.Violation("close-panic@"+fr.Panic, wit(fr, 0))
			return
		}
	}
	dp := dump.File(path, dump.Options{})
	desc := fmt.Sprintf("sb%d|%v|steered%v|max%d|up%v|down%v|szchg%v|same%v|delp%v|dela%v|ops%d", cs.Script.SB, cs.Kinds, steered, maxLive/4, crossedUp, crossedDown, sizeChanges > 0, sameSize > 0, delPresent > 0, delAbsent > 0, len(cs.Script.Ops)/25)
	c.Case(desc, len(cs.Script.Ops) >= 3)
	c.Count("ops", int64(len(cs.Script.Ops)))
	if crossedUp {
		c.Count("histories_crossing_8_upward", 1)
	}
	if crossedDown {
		c.Count("histories_shrinking_back_below_8", 1)
	}
	c.Count("overwrites_size_changing", int64(sizeChanges))
	c.Count("overwrites_same_size", int64(sameSize))
	c.Count("deletes_present", int64(delPresent))
	c.Count("deletes_absent", int64(delAbsent))
	if !dp.OpenRes.OK() {
		c.Violation(fmt.Sprintf("open-fail:%s", map[bool]string{true: "dense", false: "compact"}[crossedUp]), wit(dp.OpenRes, 0))
		return
	}
	for ti, t := range cs.Targets {
		p := t
		if cs.Kinds[ti] == "group" {
			p = t + "/"
		}
		o := dp.Get(p)
		if o == nil {
			c.Violation("object-missing:"+cs.Kinds[ti], wit(map[string]any{"path": p, "paths": dp.Paths()}, 0))
			continue
		}
		ph := "compact"
		if wasDense[t] {
			ph = "dense"
		}
		if tainted[t] {
			// judge the pair separately, everything else normally
			pairObj := *o
			pairObj.Attrs = nil
			rest := *o
			rest.Attrs = nil
			for _, a := range o.Attrs {
				if isPair(a.Name) {
					pairObj.Attrs = append(pairObj.Attrs, a)
				} else {
					rest.Attrs = append(rest.Attrs, a)
				}
			}
			if ds := c02Compare(&pairObj, shadow[t]); len(ds) > 0 {
				c.Violation("collision:pair-confused", wit(map[string]any{"object": t, "pair": cs.Colliding, "why": ds[0][1], "symptom": ds[0][0]}, 0))
			}
			c.Count("objects_with_both_colliding_names_used", 1)
			o = &rest
		}
		for _, d := range c02Compare(o, models[t]) {
			if strings.HasSuffix(d[0], ">max-signed") {
				// one root cause whatever the storage phase or object kind: ReadValue ignores the sign bit
				c.Violation(d[0], wit(map[string]any{"object": t, "why": d[1], "phase": ph, "kind": cs.Kinds[ti]}, 0))
				continue
			}
			c.Violation(fmt.Sprintf("%s:%s:%s", d[0], ph, cs.Kinds[ti]), wit(map[string]any{"object": t, "why": d[1], "model_size": len(models[t])}, 0))
		}
	}
	if len(cs.Script.Ops) <= 8 {
		var ops []string
		for _, op := range cs.Script.Ops {
			ops = append(ops, op.String())
		}
		c.Sample(map[string]any{"sb": cs.Script.SB, "ops": ops})
	}
}

var C02 = &ev.Property{
	ID:    "C02",
	Level: "exploration",
	Rule: "each case is a seeded history of 1-300 WriteAttribute/DeleteAttribute calls on 1-2 objects (dataset created in the session, dataset reopened through OpenForWrite+OpenDataset, group through GroupWriter) over a pool of 4-40 names (long, UTF-8, 255+ bytes, empty) and values (11 scalar kinds, strings 0-300 bytes, []int32/int64/float32/float64 of 1-64 elements, unsupported kinds), in three shapes (random mix; grow-shrink-grow across the 8-attribute threshold; overwrite-heavy), with 0-2 extra close/reopen points; every third case is steered (small values, no neighbours, single session); hard links to the object are created between attribute writes; every tenth case replaces one compact attribute 160 times by a string one character longer each time (the header passes through every size up to its 255-byte capacity and on into dense storage); every fifth case is a sweep: 340 new attributes (negative float arrays under names of 1-24 characters) on one dataset in dense storage, whose stored messages end at hundreds of different positions relative to the page boundaries of the heap block. " +
		"A map model is stepped with the call outcomes (empty name / unsupported kind must fail, delete of an absent name must fail, delete of a present name must succeed); after Close and reopen names, datatype class/size/sign, shape, raw bytes and ReadValue are compared. " +
		"non-trivial: >=3 operations; distinct = (superblock, target kinds, steered, max live/4, crossed 8 upward, shrank back, size-changing/same-size overwrite seen, delete present/absent seen, ops/25).",
	Assumptions: []string{
		"a refused write is accepted as a capacity limit unless the object holds fewer than 4 small attributes",
		"ReadValue is compared only for kinds it documents (4- and 8-byte integers, floats, fixed strings)",
	},
	Cases: func(tier string) int {
		if tier == "thorough" {
			return 5000
		}
		return 300
	},
	Run:   c02Run,
	Floor: func(tier string) int64 { return 40 },
}
