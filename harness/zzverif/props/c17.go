package props

import (
	"bufio"
	"encoding/json"
	"fmt"
	"os"
	"os/exec"
	"path/filepath"
	"reflect"
	"regexp"
	"runtime/debug"
	"sort"
	"strconv"
	"strings"
	"sync"

	"github.com/scigolib/hdf5/internal/core"
	"github.com/scigolib/hdf5/internal/structures"
	"github.com/scigolib/hdf5/internal/zzverif/dump"
	"github.com/scigolib/hdf5/internal/zzverif/ev"
	"github.com/scigolib/hdf5/internal/zzverif/hx"
	"github.com/scigolib/hdf5/internal/zzverif/memio"
	"github.com/scigolib/hdf5/internal/zzverif/specdec"
)

// C17 — truncated files and failing I/O produce errors, never different answers.
//
// Four fault spaces, each enumerated per seed file:
//   T  truncation of the file to every length (small files) / every structure boundary
//      +-{0,1,2,7,8} and every 64th byte (larger files); dumped through the public reader;
//   R  the k-th pread64 of a complete dump fails with EIO, for every k (strace injection into
//      a worker process that dumps the file on one locked OS thread);
//   C  the k-th ReadAt fails / is short, for every k, under the package-level entry points
//      (object header + attributes, dataset readers, local heap, symbol table node, group
//      B-tree, global heap collection) over an in-memory file;
//   W  the k-th pwrite64 of a writer history fails with ENOSPC, for every k (strace).
// Oracle: the per-call results under the fault are compared with the results on the intact
// file: every call must fail or give the intact answer; member lists of groups and attribute
// lists must not shrink silently; nothing may panic.

type c17Finding struct {
	key    string
	detail map[string]any
}

func resClass(r dump.Res) string {
	switch {
	case r.Panic != "":
		return "panic"
	case r.Err != "":
		return "err"
	}
	return "ok"
}

// c17Compare compares the dump under a fault with the intact dump.
func c17Compare(intact, faulty *dump.Dump) []c17Finding {
	var out []c17Finding
	add := func(key string, d map[string]any) { out = append(out, c17Finding{key, d}) }
	if faulty.OpenRes.Panic != "" {
		add("panic:"+faulty.OpenRes.Panic, map[string]any{"api": "Open"})
		return out
	}
	if !faulty.OpenRes.OK() {
		return nil // an error: accepted
	}
	if !intact.OpenRes.OK() {
		add("different-answer:open-succeeds", map[string]any{"intact": intact.OpenRes})
		return out
	}
	im := map[string]*dump.Obj{}
	for _, o := range intact.Objects {
		if _, dup := im[o.Path]; !dup {
			im[o.Path] = o
		}
	}
	seen := map[string]bool{}
	for _, fo := range faulty.Objects {
		if seen[fo.Path] {
			continue
		}
		seen[fo.Path] = true
		io := im[fo.Path]
		if io == nil {
			add("different-answer:extra-object", map[string]any{"path": fo.Path, "kind": fo.Kind})
			continue
		}
		if io.Kind != fo.Kind {
			add("different-answer:kind", map[string]any{"path": fo.Path, "intact": io.Kind, "faulty": fo.Kind})
			continue
		}
		for _, pr := range [][2]dump.Res{{io.InfoRes, fo.InfoRes}, {io.MetaRes, fo.MetaRes}, {io.ReadRes, fo.ReadRes}, {io.StringsRes, fo.StringsRes}, {io.CompoundRes, fo.CompoundRes}, {io.AttrsRes, fo.AttrsRes}} {
			if pr[1].Panic != "" {
				add("panic:"+pr[1].Panic, map[string]any{"path": fo.Path})
			}
		}
		if fo.Kind == "group" {
			a, b := append([]string(nil), io.Children...), append([]string(nil), fo.Children...)
			sort.Strings(a)
			sort.Strings(b)
			if strings.Join(a, "\x00") != strings.Join(b, "\x00") {
				sym := "different-answer:group-members"
				if len(b) < len(a) {
					sym = "silent-omission:group-members"
				}
				add(sym, map[string]any{"path": fo.Path, "intact": a, "faulty": b})
			}
		}
		if fo.Kind == "dataset" {
			if fo.InfoRes.OK() && (!io.InfoRes.OK() || io.Info != fo.Info) {
				add("different-answer:Info", map[string]any{"path": fo.Path, "intact": io.Info, "faulty": fo.Info})
			}
			if fo.MetaRes.OK() && (!io.MetaRes.OK() || !reflect.DeepEqual(io.Dims, fo.Dims) || io.TypeClass != fo.TypeClass || io.TypeSize != fo.TypeSize || io.Layout != fo.Layout) {
				add("different-answer:metadata", map[string]any{"path": fo.Path, "intact_dims": io.Dims, "faulty_dims": fo.Dims})
			}
			if fo.IterSum != "" && io.IterSum != "" && fo.IterSum != io.IterSum {
				add("different-answer:ChunkIterator", map[string]any{"path": fo.Path, "calls_repeated_after_a_failure": fo.IterRetried})
			}
			if fo.ReadRes.OK() && (!io.ReadRes.OK() || !reflect.DeepEqual(io.Read, fo.Read)) {
				add("different-answer:Read", map[string]any{"path": fo.Path, "intact_res": io.ReadRes, "intact_n": len(io.Read), "faulty_n": len(fo.Read), "first_diff": firstDiffU64(io.Read, fo.Read)})
			}
			if fo.StringsRes.OK() && (!io.StringsRes.OK() || !reflect.DeepEqual(io.Strings, fo.Strings)) {
				add("different-answer:ReadStrings", map[string]any{"path": fo.Path, "intact_res": io.StringsRes, "intact_n": len(io.Strings), "faulty_n": len(fo.Strings)})
			}
			if fo.CompoundRes.OK() && (!io.CompoundRes.OK() || !reflect.DeepEqual(io.Compound, fo.Compound)) {
				add("different-answer:ReadCompound", map[string]any{"path": fo.Path, "intact_res": io.CompoundRes})
			}
		}
		if fo.AttrsRes.OK() {
			if !io.AttrsRes.OK() {
				add("different-answer:Attributes-succeeds", map[string]any{"path": fo.Path})
			} else {
				ia := map[string]*dump.Attr{}
				for i := range io.Attrs {
					ia[io.Attrs[i].Name] = &io.Attrs[i]
				}
				if len(fo.Attrs) < len(io.Attrs) {
					add("silent-omission:attributes", map[string]any{"path": fo.Path, "intact": len(io.Attrs), "faulty": len(fo.Attrs)})
				}
				for i := range fo.Attrs {
					fa := &fo.Attrs[i]
					a := ia[fa.Name]
					if fa.ValueRes.Panic != "" {
						add("panic:"+fa.ValueRes.Panic, map[string]any{"path": fo.Path, "attr": fa.Name})
					}
					if a == nil {
						add("different-answer:extra-attribute", map[string]any{"path": fo.Path, "attr": fa.Name})
						continue
					}
					if a.Raw != fa.Raw || a.Class != fa.Class || a.Size != fa.Size || !reflect.DeepEqual(a.Dims, fa.Dims) {
						add("different-answer:attribute", map[string]any{"path": fo.Path, "attr": fa.Name, "intact_raw": trunc40(a.Raw), "faulty_raw": trunc40(fa.Raw)})
						continue
					}
					if fa.ValueRes.OK() && (!a.ValueRes.OK() || a.Value != fa.Value) {
						add("different-answer:ReadValue", map[string]any{"path": fo.Path, "attr": fa.Name, "intact": trunc40(a.Value), "faulty": trunc40(fa.Value)})
					}
				}
			}
		}
	}
	return out
}

func firstDiffU64(a, b []uint64) int {
	for i := 0; i < len(a) && i < len(b); i++ {
		if a[i] != b[i] {
			return i
		}
	}
	return min(len(a), len(b))
}

// extent lookup ------------------------------------------------------------------------

type c17Ext struct {
	ext []specdec.Extent
}

func c17Extents(b []byte) *c17Ext {
	sf, err := specdec.Decode(bytesReaderAt(b), int64(len(b)), specdec.Options{Tolerate: specdec.AllTolerances()})
	if err != nil || sf == nil {
		return &c17Ext{}
	}
	sf.TouchGlobalHeaps()
	sf.Walk(func(p string, o *specdec.Object, l *specdec.Link) {
		if o != nil && o.Kind == "dataset" {
			_, _ = sf.ReadData(o)
		}
	})
	e := append([]specdec.Extent(nil), sf.Extents...)
	sort.Slice(e, func(i, j int) bool { return e[i].Start < e[j].Start })
	return &c17Ext{e}
}

// kindAt names the structure that holds byte off ("gap" when none does).
func (x *c17Ext) kindAt(off uint64) string {
	k := "gap"
	for _, e := range x.ext {
		if e.Start <= off && off < e.End {
			k = e.Kind
		}
	}
	return k
}

// seeds -----------------------------------------------------------------------------------

const c17MaxRef = 64 << 10

var (
	c17SeedMu    sync.Mutex
	c17SeedCache = map[string][]int{}
)

// c17SeedList chooses the seed files: library-written seeds, a regular sample of the corpus
// up to 64 KiB, and - so that every kind of structure the corpus contains is cut and
// faulted - a greedy cover: files are added (in corpus order) while they contribute a
// structure kind that fewer than `cover` chosen files contain.
func c17SeedList(tier string, wide bool) []int {
	c17SeedMu.Lock()
	defer c17SeedMu.Unlock()
	ckey := fmt.Sprintf("%s/%v", tier, wide)
	if l, ok := c17SeedCache[ckey]; ok {
		return l
	}
	c07Init()
	var out []int
	for k := 0; k < c07LibSeeds; k++ {
		if tier == "thorough" || k%2 == 0 || k%4 == 3 { // 3 of 4: dense attribute storage (7 of 8: at the end of the file)
			out = append(out, k)
		}
	}
	every, cover := 40, 2
	if tier == "thorough" {
		every, cover = 4, 8
	}
	if wide { // the truncation space is cheap (no process per fault): many more files
		every, cover = 10, 8
		if tier == "thorough" {
			every, cover = 1, 1
		}
	}
	chosen := map[int]bool{}
	kindCount := map[string]int{}
	n := 0
	for i, f := range c07Seeds {
		st, err := os.Stat(f)
		if err != nil || st.Size() > c17MaxRef {
			continue
		}
		n++
		take := n%every == 0
		b, rerr := os.ReadFile(f)
		if rerr != nil {
			continue
		}
		kinds := map[string]bool{}
		for _, e := range c17Extents(b).ext {
			kinds[e.Kind] = true
		}
		// ... and every kind of answer the reader gives on the intact file (a fault can only turn
		// an answer into a different one where there is an answer)
		d := dump.File(f, dump.Options{MaxObjects: 300, MaxElems: 1 << 16})
		for _, o := range d.Objects {
			if o.Kind == "dataset" {
				if o.ReadRes.OK() {
					kinds[fmt.Sprintf("read-ok:layout%d:class%d", o.Layout, o.TypeClass)] = true
				}
				if o.StringsRes.OK() {
					kinds[fmt.Sprintf("strings-ok:layout%d", o.Layout)] = true
				}
				if o.CompoundRes.OK() {
					kinds[fmt.Sprintf("compound-ok:layout%d", o.Layout)] = true
				}
			}
			for _, a := range o.Attrs {
				if a.ValueRes.OK() {
					kinds[fmt.Sprintf("attr-value-ok:%s:class%d", o.Kind, a.Class)] = true
				}
			}
			if len(o.Attrs) >= 8 {
				kinds["many-attributes:"+o.Kind] = true
			}
		}
		for k := range kinds {
			if kindCount[k] < cover {
				take = true
			}
		}
		if take && !chosen[i] {
			chosen[i] = true
			out = append(out, c07LibSeeds+i)
			for k := range kinds {
				kindCount[k]++
			}
		}
	}
	c17SeedCache[ckey] = out
	return out
}

// spaces ------------------------------------------------------------------------------------

const (
	c17T = iota
	c17R
	c17C
	c17W
)

type c17Case struct {
	space int
	seed  int // index into the C07 seed numbering; for W: script number
	block int
	of    int
}

func c17Plan(tier string) []c17Case {
	seeds := c17SeedList(tier, false)
	var out []c17Case
	tb, rb := 2, 4
	if tier == "thorough" {
		tb, rb = 4, 16
	}
	for _, s := range c17SeedList(tier, true) {
		for b := 0; b < tb; b++ {
			out = append(out, c17Case{c17T, s, b, tb})
		}
	}
	for i, s := range seeds {
		if tier != "thorough" && i%3 != 0 {
			continue
		}
		for b := 0; b < rb; b++ {
			out = append(out, c17Case{c17R, s, b, rb})
		}
	}
	for _, s := range seeds {
		out = append(out, c17Case{c17C, s, 0, 1})
	}
	nw := 6
	if tier == "thorough" {
		nw = 24
	}
	for k := 0; k < nw; k++ {
		for b := 0; b < rb; b++ {
			out = append(out, c17Case{c17W, k, b, rb})
		}
	}
	return out
}

func c17Run(c *ev.Ctx) {
	plan := c17Plan(c.Tier)
	cs := plan[c.Index]
	switch cs.space {
	case c17T:
		c17Trunc(c, cs)
	case c17R:
		c17ReadFaults(c, cs)
	case c17C:
		c17CoreFaults(c, cs)
	default:
		c17WriteFaults(c, cs)
	}
}

func c17Report(c *ev.Ctx, space string, fs []c17Finding, where string, fault map[string]any) {
	for _, f := range fs {
		d := map[string]any{"fault": fault, "detail": f.detail}
		c.Violation(space+":"+f.key+"@"+where, d)
	}
}

// ---- T: truncation

func c17Trunc(c *ev.Ctx, cs c17Case) {
	b, name, err := c07Seed(c, cs.seed)
	if err != nil {
		c.Inconclusive("seed: " + err.Error())
		return
	}
	path := filepath.Join(c.Dir, "t.h5")
	_ = os.WriteFile(path, b, 0o644)
	opt := dump.Options{MaxObjects: 2000, MaxElems: 1 << 22}
	intact := dump.File(path, opt)
	ext := c17Extents(b)
	var lens []int
	if len(b) <= 16<<10 {
		for l := 0; l < len(b); l++ {
			lens = append(lens, l)
		}
	} else {
		set := map[int]bool{}
		for l := 0; l < len(b); l += 64 {
			set[l] = true
		}
		for _, e := range ext.ext {
			if e.End-e.Start <= 600 {
				// a small structure (header, index node, heap header): a cut at every byte of it
				for l := int(e.Start); l <= int(e.End) && l < len(b); l++ {
					set[l] = true
				}
			}
			for _, base := range []uint64{e.Start, e.End} {
				for d := -16; d <= 16; d++ {
					if l := int(base) + d; l >= 0 && l < len(b) {
						set[l] = true
					}
				}
			}
		}
		for l := range set {
			lens = append(lens, l)
		}
		sort.Ints(lens)
	}
	ran, refused := 0, 0
	for i, l := range lens {
		if i%cs.of != cs.block || c.SkipSub(i) {
			continue
		}
		c.Mark(i, fmt.Sprintf("seed=%s truncated to %d of %d", name, l, len(b)))
		_ = os.WriteFile(path, b[:l], 0o644)
		ft := dump.File(path, opt)
		if !ft.OpenRes.OK() {
			refused++
		}
		c17Report(c, "truncation", c17Compare(intact, ft), ext.kindAt(uint64(l)), map[string]any{"seed": name, "length": l, "size": len(b)})
		ran++
		if ran%2048 == 0 {
			// thousands of complete dumps in one process under an address-space limit: hand
			// freed spans back (decompressors allocate megabytes per chunk; what is judged is the
			// library's answer to each input, not this process's fragmentation)
			debug.FreeOSMemory()
		}
	}
	c.Evals(int64(ran))
	c.Count("T:truncated_copies_dumped", int64(ran))
	c.Count("T:refused_at_open", int64(refused))
	c.Case(fmt.Sprintf("T|%s|%d/%d", name, cs.block, cs.of), ran > 0)
}

// ---- R: OS-level read faults under the public reader

var preadRe = regexp.MustCompile(`^(\d+)\s+pread64\(\d+, .*, (\d+), (\d+)\)\s+= (-?\d+)`)

func c17Worker(args ...string) *exec.Cmd {
	self, _ := os.Executable()
	cmd := exec.Command(self, args...)
	cmd.Env = append(os.Environ(), "GOMAXPROCS=1", "GOTRACEBACK=all")
	return cmd
}

func c17Strace(logPath, only string, inject string, worker ...string) ([]byte, error) {
	self, _ := os.Executable()
	args := []string{"-f", "-qq", "-o", logPath}
	if only != "" {
		args = append(args, "-P", only)
	}
	args = append(args, "-e", "trace=pread64,pwrite64")
	if inject != "" {
		args = append(args, "-e", "inject="+inject)
	}
	args = append(args, self)
	args = append(args, worker...)
	cmd := exec.Command("strace", args...)
	cmd.Env = append(os.Environ(), "GOMAXPROCS=1", "GOTRACEBACK=all")
	return cmd.CombinedOutput()
}

type straceCall struct {
	tid    string
	offset uint64
	size   uint64
	ret    int64
}

func c17ParseStrace(path, sys string) []straceCall {
	f, err := os.Open(path)
	if err != nil {
		return nil
	}
	defer f.Close()
	var out []straceCall
	sc := bufio.NewScanner(f)
	sc.Buffer(make([]byte, 1<<20), 1<<24)
	re := regexp.MustCompile(`^(\d+)\s+` + sys + `\(\d+, .*, (\d+), (\d+)\)\s+= (-?\d+)`)
	for sc.Scan() {
		m := re.FindStringSubmatch(sc.Text())
		if m == nil {
			continue
		}
		sz, _ := strconv.ParseUint(m[2], 10, 64)
		off, _ := strconv.ParseUint(m[3], 10, 64)
		rv, _ := strconv.ParseInt(m[4], 10, 64)
		out = append(out, straceCall{m[1], off, sz, rv})
	}
	return out
}

func c17ReadFaults(c *ev.Ctx, cs c17Case) {
	b, name, err := c07Seed(c, cs.seed)
	if err != nil {
		c.Inconclusive("seed: " + err.Error())
		return
	}
	path := filepath.Join(c.Dir, "r.h5")
	_ = os.WriteFile(path, b, 0o644)
	outJSON := filepath.Join(c.Dir, "dump.json")
	logPath := filepath.Join(c.Dir, "strace.log")
	ext := c17Extents(b)
	// intact run under strace: ground truth of the I/O sequence and of the answers
	if out, err := c17Strace(logPath, path, "", "dumpjson", path, outJSON); err != nil {
		c.Inconclusive(fmt.Sprintf("strace (intact): %v: %s", err, trunc40(string(out))))
		return
	}
	var intact dump.Dump
	jb, _ := os.ReadFile(outJSON)
	if err := json.Unmarshal(jb, &intact); err != nil {
		c.Inconclusive("intact dump: " + err.Error())
		return
	}
	calls := c17ParseStrace(logPath, "pread64")
	if len(calls) == 0 {
		c.Inconclusive("no pread64 calls observed for " + name)
		return
	}
	main := calls[0].tid
	n := 0
	for _, cl := range calls {
		if cl.tid == main {
			n++
		}
	}
	ran, injected := 0, 0
	limit := n
	if !c.Thorough() && limit > 160 {
		limit = 160
	}
	for k := 1; k <= limit; k++ {
		if (k-1)%cs.of != cs.block || c.SkipSub(k) {
			continue
		}
		c.Mark(k, fmt.Sprintf("seed=%s pread64 #%d of %d fails with EIO", name, k, n))
		_ = os.Remove(outJSON)
		out, err := c17Strace(logPath, path, fmt.Sprintf("pread64:error=EIO:when=%d", k), "dumpjson", path, outJSON)
		ran++
		fcalls := c17ParseStrace(logPath, "pread64")
		var failed *straceCall
		for i := range fcalls {
			if fcalls[i].ret < 0 {
				failed = &fcalls[i]
				break
			}
		}
		if failed == nil {
			c.Count("R:fault_not_delivered", 1)
			continue
		}
		injected++
		where := ext.kindAt(failed.offset)
		fault := map[string]any{"seed": name, "pread": k, "of": n, "offset": failed.offset, "size": failed.size, "structure": where}
		jb, rerr := os.ReadFile(outJSON)
		if err != nil || rerr != nil {
			// the worker died: a panic that escaped every guard, or a fatal error
			c.Violation("read-fault:worker-died@"+where, map[string]any{"fault": fault, "output": trunc40(string(out))})
			continue
		}
		var ft dump.Dump
		if err := json.Unmarshal(jb, &ft); err != nil {
			c.Inconclusive("faulty dump: " + err.Error())
			continue
		}
		c17Report(c, "read-fault", c17Compare(&intact, &ft), where, fault)
	}
	c.Evals(int64(ran))
	c.Count("R:dumps_under_injected_EIO", int64(injected))
	c.Count("R:pread_calls_of_intact_dumps", int64(n))
	c.Case(fmt.Sprintf("R|%s|%d/%d|n%d", name, cs.block, cs.of, n), injected > 0)
}

// ---- C: package-level entry points over a failing ReaderAt

type c17Call struct {
	name string
	run  func(r *memio.File) (string, error) // canonical result, error
}

func c17CoreFaults(c *ev.Ctx, cs c17Case) {
	b, name, err := c07Seed(c, cs.seed)
	if err != nil {
		c.Inconclusive("seed: " + err.Error())
		return
	}
	mk := func() *memio.File { return &memio.File{Data: b, Next: uint64(len(b))} }
	sb, err := core.ReadSuperblock(mk())
	if err != nil {
		c.Case("C|"+name+"|superblock-refused", false)
		return
	}
	ext := c17Extents(b)
	var calls []c17Call
	calls = append(calls, c17Call{"ReadSuperblock", func(r *memio.File) (string, error) {
		s, err := core.ReadSuperblock(r)
		if err != nil {
			return "", err
		}
		return fmt.Sprintf("v%d root=%d o%d l%d", s.Version, s.RootGroup, s.OffsetSize, s.LengthSize), nil
	}})
	hdr := func(addr uint64) c17Call {
		return c17Call{fmt.Sprintf("ReadObjectHeader@%d", addr), func(r *memio.File) (string, error) {
			h, err := core.ReadObjectHeader(r, addr, sb)
			if err != nil {
				return "", err
			}
			var sbd strings.Builder
			fmt.Fprintf(&sbd, "v%d type%d msgs%d ref%d|", h.Version, h.Type, len(h.Messages), h.ReferenceCount)
			for _, m := range h.Messages {
				fmt.Fprintf(&sbd, "m%d:%x;", m.Type, m.Data)
			}
			// (looked up by name: the check must also build against a tree without the field)
			if fv := reflect.ValueOf(h).Elem().FieldByName("AttributeError"); fv.IsValid() && !fv.IsNil() {
				// the header is usable, asking for the attributes reports the error
				sbd.WriteString("|attrsERR")
				return sbd.String(), nil
			}
			fmt.Fprintf(&sbd, "|attrs%d:", len(h.Attributes))
			for _, a := range h.Attributes {
				fmt.Fprintf(&sbd, "%s=%x;", a.Name, a.Data)
			}
			return sbd.String(), nil
		}}
	}
	seenKinds := map[string]int{}
	for _, e := range ext.ext {
		addr := e.Start
		if seenKinds[e.Kind] >= 6 {
			continue
		}
		switch e.Kind {
		case "OHDR":
			seenKinds[e.Kind]++
			calls = append(calls, hdr(addr))
			calls = append(calls, c17Call{fmt.Sprintf("ReadDataset*@%d", addr), func(r *memio.File) (string, error) {
				h, err := core.ReadObjectHeader(r, addr, sb)
				if err != nil {
					return "", err
				}
				if h.Type != core.ObjectTypeDataset {
					return "not-a-dataset", nil
				}
				var parts []string
				if v, err := core.ReadDatasetFloat64(r, h, sb); err == nil {
					parts = append(parts, fmt.Sprintf("f64:%v", v))
				} else {
					parts = append(parts, "f64:ERR")
				}
				if v, err := core.ReadDatasetStrings(r, h, sb); err == nil {
					parts = append(parts, fmt.Sprintf("str:%q", v))
				} else {
					parts = append(parts, "str:ERR")
				}
				if v, err := core.ReadDatasetCompound(r, h, sb); err == nil {
					parts = append(parts, fmt.Sprintf("cmp:%v", v))
				} else {
					parts = append(parts, "cmp:ERR")
				}
				return strings.Join(parts, "|"), nil
			}})
		case "localheap":
			seenKinds[e.Kind]++
			calls = append(calls, c17Call{fmt.Sprintf("LoadLocalHeap@%d", addr), func(r *memio.File) (string, error) {
				h, err := structures.LoadLocalHeap(r, addr, sb)
				if err != nil {
					return "", err
				}
				return fmt.Sprintf("%x", h.Data), nil
			}})
		case "SNOD":
			seenKinds[e.Kind]++
			calls = append(calls, c17Call{fmt.Sprintf("ParseSymbolTableNode@%d", addr), func(r *memio.File) (string, error) {
				n, err := structures.ParseSymbolTableNode(r, addr, sb)
				if err != nil {
					return "", err
				}
				return fmt.Sprintf("%+v", n.Entries), nil
			}})
		case "TREE":
			seenKinds[e.Kind]++
			calls = append(calls, c17Call{fmt.Sprintf("ReadGroupBTreeEntries@%d", addr), func(r *memio.File) (string, error) {
				es, err := structures.ReadGroupBTreeEntries(r, addr, sb)
				if err != nil {
					return "", err
				}
				return fmt.Sprintf("%+v", es), nil
			}})
		case "GCOL":
			seenKinds[e.Kind]++
			calls = append(calls, c17Call{fmt.Sprintf("ReadGlobalHeapCollection@%d", addr), func(r *memio.File) (string, error) {
				g, err := core.ReadGlobalHeapCollection(r, addr, int(sb.OffsetSize))
				if err != nil {
					return "", err
				}
				return fmt.Sprintf("%d:%+v", g.Size, g.Objects), nil
			}})
		}
	}
	ran := 0
	sub := 0
	for _, cl := range calls {
		base := strings.SplitN(cl.name, "@", 2)[0]
		probe := mk()
		var want string
		var werr error
		_, _, p := ev.Guard(func() { want, werr = cl.run(probe) })
		if p {
			continue // a panic on the intact file is C06/C07's subject
		}
		n := probe.Reads
		for _, mode := range []string{"fail", "short"} {
			for k := 1; k <= n; k++ {
				mySub := sub
				sub++
				if c.SkipSub(mySub) {
					continue
				}
				r := mk()
				if mode == "fail" {
					r.FailReadAt = k
				} else {
					r.ShortReadAt = k
				}
				c.Mark(mySub, fmt.Sprintf("seed=%s %s read #%d of %d: %s", name, cl.name, k, n, mode))
				var got string
				var gerr error
				site, msg, pan := ev.Guard(func() { got, gerr = cl.run(r) })
				ran++
				fault := map[string]any{"seed": name, "call": cl.name, "read": k, "of": n, "mode": mode}
				switch {
				case pan:
					c.Violation("core-read-fault:panic:"+ev.PanicClass(msg)+"@"+site, map[string]any{"fault": fault, "panic": msg})
				case gerr != nil:
					// an error: accepted
				case werr != nil:
					c.Violation("core-read-fault:different-answer:succeeds@"+base, map[string]any{"fault": fault, "intact_error": werr.Error()})
				case got != want && strings.HasSuffix(got, "|attrsERR") && strings.HasPrefix(want, strings.TrimSuffix(got, "|attrsERR")+"|attrs"):
					// same header, the attributes report their error
				case got != want && strings.HasPrefix(cl.name, "ReadDataset*") && c17PartsAgree(want, got):
					// every reader either failed or gave the intact answer
				case got != want:
					sym := "different-answer"
					if strings.Contains(cl.name, "ReadObjectHeader") && strings.Contains(want, "|attrs") && attrCount(got) < attrCount(want) {
						sym = "silent-omission:attributes"
					}
					c.Violation("core-read-fault:"+sym+":"+mode+"@"+base, map[string]any{"fault": fault, "intact": trunc40(want), "faulty": trunc40(got)})
				}
			}
		}
	}
	c.Evals(int64(ran))
	c.Count("C:calls_under_failing_reader", int64(ran))
	c.Count("C:entry_points_probed", int64(len(calls)))
	c.Case(fmt.Sprintf("C|%s|calls%d", name, len(calls)), ran > 0)
}

// c17PartsAgree compares "f64:...|str:...|cmp:..." results part by part: a part that
// failed under the fault (":ERR") is an accepted answer.
func c17PartsAgree(want, got string) bool {
	w, g := strings.Split(want, "|"), strings.Split(got, "|")
	if len(w) != len(g) {
		return false
	}
	for i := range w {
		if g[i] != w[i] && !strings.HasSuffix(g[i], ":ERR") {
			return false
		}
	}
	return true
}

func attrCount(s string) int {
	i := strings.LastIndex(s, "|attrs")
	if i < 0 {
		return 0
	}
	n, _ := strconv.Atoi(strings.SplitN(s[i+6:], ":", 2)[0])
	return n
}

// ---- W: OS-level write faults under the public writer

// c17WriterScript is writer history k: a library history; every second one continues with a
// reopen session in which one dataset is opened through two handles that take turns
// modifying it (the second handle's view depends on re-reading what the first one wrote).
func c17WriterScript(k int) *hx.Script {
	s := c07LibScript(k)
	if k%3 == 2 {
		// variable-length data that fills several global heap collections (each full
		// collection is written out when the next one is started)
		r := ev.NewRand(17, "C17-writer-vlen", k)
		n := r.Range(120, 260)
		strs := make([]string, n)
		for i := range strs {
			b := r.Bytes(r.Range(8, 70))
			for j := range b {
				b[j] = 'a' + b[j]%26
			}
			strs[i] = string(b)
		}
		v := hx.Val{Kind: "vstr", S: strs}
		// the datasets are created in the first session (creation in a reopened session is
		// refused for some superblock versions): in front of the first Close of the history
		tail := []hx.Op(nil)
		for i, op := range s.Ops {
			if op.K == "close" {
				tail = append(tail, s.Ops[i:]...)
				s.Ops = s.Ops[:i:i]
				break
			}
		}
		defer func() { s.Ops = append(s.Ops, tail...) }()
		s.Ops = append(s.Ops, hx.Op{K: "create_ds", Path: "/vroll", DT: "vstr", Dims: []uint64{uint64(n)}, Data: &v})
		seqs := make([][]uint64, 90)
		for i := range seqs {
			seqs[i] = make([]uint64, r.Range(0, 40))
			for j := range seqs[i] {
				seqs[i][j] = uint64(r.Intn(1 << 20))
			}
		}
		w := hx.Val{Kind: "v[]i32", VU: seqs}
		s.Ops = append(s.Ops, hx.Op{K: "create_ds", Path: "/vroll_i32", DT: "v[]i32", Dims: []uint64{90}, Data: &w})
	}
	if k%2 == 1 {
		target := ""
		for _, op := range s.Ops {
			if op.K == "create_ds" && op.Chunk == nil && !strings.HasPrefix(op.DT, "v") {
				target = op.Path
				break
			}
		}
		if target != "" {
			r := ev.NewRand(17, "C17-writer-session", k)
			mk := func() *hx.Val { v := hx.ScalarOf(r, "i32"); return &v }
			s.Ops = append(s.Ops,
				hx.Op{K: "close"}, hx.Op{K: "reopen"},
				hx.Op{K: "opends", Path: target},
				hx.Op{K: "opends", Path: target, Name: target + "#B"},
				hx.Op{K: "attr", Path: target, Name: "sa1", Data: mk()},
				hx.Op{K: "attr", Path: target + "#B", Name: "sb1", Data: mk()},
				hx.Op{K: "attr", Path: target, Name: "sa2", Data: mk()},
				hx.Op{K: "delattr", Path: target + "#B", Name: "sa1"},
				hx.Op{K: "attr", Path: target, Name: "sa3", Data: mk()},
				hx.Op{K: "attr", Path: target + "#B", Name: "sb2", Data: mk()},
			)
		}
	}
	return s
}

// C17WriterScriptJSON returns writer history k (debugging aid).
func C17WriterScriptJSON(k int) []byte {
	b, _ := json.Marshal(c17WriterScript(k))
	return b
}

func c17WriteFaults(c *ev.Ctx, cs c17Case) {
	s := c17WriterScript(cs.seed)
	name := fmt.Sprintf("lib-history-%d", cs.seed)
	sp := filepath.Join(c.Dir, "script.json")
	jb, _ := json.Marshal(s)
	_ = os.WriteFile(sp, jb, 0o644)
	out := filepath.Join(c.Dir, "w.h5")
	resPath := filepath.Join(c.Dir, "res.json")
	logPath := filepath.Join(c.Dir, "strace.log")
	type resT struct {
		Res   []hx.OpRes `json:"res"`
		Close hx.OpRes   `json:"close"`
	}
	if o, err := c17Strace(logPath, out, "", "scriptjson", sp, out, resPath); err != nil {
		c.Inconclusive(fmt.Sprintf("strace (intact writer): %v: %s", err, trunc40(string(o))))
		return
	}
	var ref resT
	rb, _ := os.ReadFile(resPath)
	if err := json.Unmarshal(rb, &ref); err != nil {
		c.Inconclusive("reference results: " + err.Error())
		return
	}
	refDump := dump.File(out, dump.Options{})
	refCopy := filepath.Join(c.Dir, "w.ref.h5")
	if fb, err := os.ReadFile(out); err == nil {
		_ = os.WriteFile(refCopy, fb, 0o644)
	}
	var refDigest map[string]string
	ran, injected, swallowed := 0, 0, 0
	intactLog, _ := os.ReadFile(logPath)
	intactLogPath := filepath.Join(c.Dir, "strace.intact.log")
	_ = os.WriteFile(intactLogPath, intactLog, 0o644)
	type faultKind struct{ sys, errno string }
	subBase := 0
	for _, fk := range []faultKind{{"pwrite64", "ENOSPC"}, {"pread64", "EIO"}} {
		calls := c17ParseStrace(intactLogPath, fk.sys)
		if len(calls) == 0 {
			if fk.sys == "pwrite64" {
				c.Inconclusive("no pwrite64 calls observed")
				return
			}
			continue
		}
		main := calls[0].tid
		n := 0
		for _, cl := range calls {
			if cl.tid == main {
				n++
			}
		}
		// quick tier: the first and the last 100 calls of the sequence (creation and the last
		// session; every write of the histories with heap-collection roll-overs), thorough: all
		var ks []int
		for k := 1; k <= n; k++ {
			if c.Thorough() || n <= 200 || k <= 100 || k > n-100 || (cs.seed%3 == 2 && fk.sys == "pwrite64") {
				ks = append(ks, k)
			}
		}
		for _, k := range ks {
			sub := subBase + k
			if (k-1)%cs.of != cs.block || c.SkipSub(sub) {
				continue
			}
			c.Mark(sub, fmt.Sprintf("%s %s #%d of %d fails with %s", name, fk.sys, k, n, fk.errno))
			_ = os.Remove(out)
			_ = os.Remove(resPath)
			o, err := c17Strace(logPath, out, fmt.Sprintf("%s:error=%s:when=%d", fk.sys, fk.errno, k), "scriptjson", sp, out, resPath)
			ran++
			delivered := false
			for _, cl := range c17ParseStrace(logPath, fk.sys) {
				if cl.ret < 0 {
					delivered = true
					break
				}
			}
			if !delivered {
				c.Count("W:fault_not_delivered", 1)
				continue
			}
			injected++
			fault := map[string]any{"history": name, "syscall": fk.sys, "call": k, "of": n}
			rb, rerr := os.ReadFile(resPath)
			if err != nil || rerr != nil {
				c.Violation("write-fault:worker-died", map[string]any{"fault": fault, "output": trunc40(string(o))})
				continue
			}
			var got resT
			if err := json.Unmarshal(rb, &got); err != nil {
				c.Inconclusive("faulty results: " + err.Error())
				continue
			}
			reported := false
			firstErr := -1
			for i, r := range got.Res {
				if r.Panic != "" {
					k := "?"
					if i < len(s.Ops) {
						k = s.Ops[i].K
					}
					c.Violation("write-fault:panic:"+k+"@"+r.Panic, map[string]any{"fault": fault})
				}
				if i < len(ref.Res) && r.OK() != ref.Res[i].OK() && !reported {
					reported, firstErr = true, i
				}
			}
			if got.Close.Panic != "" {
				c.Violation("write-fault:panic:close@"+got.Close.Panic, map[string]any{"fault": fault})
			}
			if !got.Close.OK() && ref.Close.OK() {
				reported = true
			}
			if reported {
				c.Count("W:fault_reported_by_a_call", 1)
				_ = firstErr
				continue
			}
			// no call reported the failed write: the file must be what it is without the fault
			swallowed++
			fd := dump.File(out, dump.Options{})
			if fd.OpenRes.OK() != refDump.OpenRes.OK() {
				c.Violation("write-fault:swallowed:file-unopenable", map[string]any{"fault": fault, "open": fd.OpenRes})
				continue
			}
			if diff := dump.Diff(refDump, fd, nil); len(diff) > 0 {
				c.Violation("write-fault:swallowed:content-differs:"+fk.sys, map[string]any{"fault": fault, "paths": diff, "reference": trunc40(logicalOf(refDump, diff[0])), "faulty": trunc40(logicalOf(fd, diff[0]))})
				continue
			}
			// the same through the independent decoder, which also reads what the library has
			// no reader for (variable-length data)
			if refDigest == nil {
				refDigest, _ = specDigest(refCopy)
			}
			if refDigest != nil {
				gd, gerr := specDigest(out)
				var paths []string
				for p, want := range refDigest {
					if gerr != nil || gd[p] != want {
						paths = append(paths, p)
					}
				}
				sort.Strings(paths)
				c.Count("W:swallowed_faults_compared_through_decoder", 1)
				if len(paths) > 0 {
					c.Violation("write-fault:swallowed:decoded-content-differs:"+fk.sys, map[string]any{"fault": fault, "paths": paths, "reference": trunc40(refDigest[paths[0]]), "faulty": trunc40(gd[paths[0]]), "decode_error": fmt.Sprint(gerr)})
				}
			}
		}
		subBase += 100000
	}
	c.Evals(int64(ran))
	c.Count("W:histories_under_injected_ENOSPC_or_EIO", int64(injected))
	c.Count("W:faults_no_call_reported", int64(swallowed))
	c.Case(fmt.Sprintf("W|%s|%d/%d|ran%d", name, cs.block, cs.of, ran), injected > 0)
}

var C17 = &ev.Property{
	ID:    "C17",
	Level: "fault_enumeration",
	Rule: "seed files: the 24 fixed library-written files of C07 (quick: 18, dense attribute storage among them) and, of the corpus files up to 64 KiB (space T: all of them in the thorough tier, every 10th plus a cover of 8 in the quick tier), every 4th (quick: 40th) plus a greedy cover that keeps adding files while they contain a structure kind, or a kind of answer of the reader on the intact file (layout x datatype class of readable datasets, string/compound reads, datatype class of readable attribute values, many attributes), that fewer than 8 (quick: 2) chosen files contain. T: every truncation length of files up to 16 KiB, for larger files every byte of every structure of up to 600 bytes, every structure boundary +-16 and every 64th byte; R: every position k of a failing pread64 (EIO) in the I/O sequence of a complete dump through the public reader (strace injection into a worker that runs on one locked OS thread; the strace log is the ground truth of which read failed; quick: k <= 160 on a third of the seeds); C: every position k of a failing and of a short ReadAt under ReadSuperblock, ReadObjectHeader (+ attributes), ReadDatasetFloat64/Strings/Compound, LoadLocalHeap, ParseSymbolTableNode, ReadGroupBTreeEntries, ReadGlobalHeapCollection at the addresses of up to six structures of each kind per file; W: every position k of a failing pwrite64 (ENOSPC) and of a failing pread64 (EIO) in 6 (thorough: 24) writer histories, half of which continue with a reopen session in which two handles on one dataset take turns modifying it. Oracle: each call result under the fault is an error or equals the result on the intact file; group member lists and attribute lists do not shrink; no panic, no dead worker; a write fault that no call reports must leave a file equal to the fault-free one, as seen through the library's reader and through the independent decoder (which also follows variable-length data; a third of the writer histories fill several global heap collections). " +
		"non-trivial: at least one fault was delivered; distinct = (space, seed, block).",
	Assumptions: []string{"strace's when=k counts per thread: the workers pin the goroutine that does the I/O to one OS thread (GOMAXPROCS=1, LockOSThread) and the log is checked for a delivered fault"},
	Cases:       func(tier string) int { return len(c17Plan(tier)) },
	Run:         c17Run,
	Floor:       func(tier string) int64 { return 60 },
	ASLimit:     6 << 30,
	CPUPerCase:  60,
}
