package props

import (
	"bytes"
	"encoding/binary"
	"fmt"
	"hash/crc32"
	"math"
	"path/filepath"
	"strings"

	hdf5 "github.com/scigolib/hdf5"
	"github.com/scigolib/hdf5/internal/core"
	"github.com/scigolib/hdf5/internal/writer"
	"github.com/scigolib/hdf5/internal/zzverif/ev"
	"github.com/scigolib/hdf5/internal/zzverif/hx"
)

// C08 — filter pipelines are lossless, self-compatible and detect corruption.

type c08Spec struct {
	Kind  string `json:"kind"` // gzip | shuffle | fletcher32 | lzf
	Param int    `json:"param,omitempty"`
}

func (s c08Spec) String() string {
	if s.Param != 0 {
		return fmt.Sprintf("%s(%d)", s.Kind, s.Param)
	}
	return s.Kind
}

func (s c08Spec) build() writer.Filter {
	switch s.Kind {
	case "gzip":
		return writer.NewGZIPFilter(s.Param)
	case "shuffle":
		return writer.NewShuffleFilter(uint32(s.Param))
	case "fletcher32":
		return writer.NewFletcher32Filter()
	default:
		return writer.NewLZFFilter()
	}
}

func c08Sig(p []c08Spec) string {
	var s []string
	for _, f := range p {
		s = append(s, f.Kind)
	}
	return strings.Join(s, ">")
}

// c08Pipelines enumerates every non-empty ordered selection of distinct filter kinds.
func c08Pipelines() [][]string {
	kinds := []string{"gzip", "shuffle", "fletcher32", "lzf"}
	var out [][]string
	var rec func(cur []string, used int)
	rec = func(cur []string, used int) {
		if len(cur) > 0 {
			out = append(out, append([]string(nil), cur...))
		}
		for i, k := range kinds {
			if used&(1<<i) == 0 {
				rec(append(cur, k), used|1<<i)
			}
		}
	}
	rec(nil, 0)
	// and pipelines in which a filter occurs twice (with other parameters where it has any)
	out = append(out, []string{"gzip", "gzip"}, []string{"gzip", "fletcher32", "gzip"}, []string{"shuffle", "shuffle"},
		[]string{"fletcher32", "fletcher32"}, []string{"lzf", "gzip", "lzf"}, []string{"shuffle", "gzip", "shuffle", "gzip"})
	return out // 64 orderings of distinct filters + 6 with repeats
}

var c08AllPipelines = c08Pipelines()

func c08Payload(r *ev.Rand, kind, n int) []byte {
	b := make([]byte, n)
	switch kind {
	case 0: // zeros
	case 1: // ramp
		for i := range b {
			b[i] = byte(i)
		}
	case 2: // incompressible
		copy(b, r.Bytes(n))
	case 3: // repetitive text
		pat := []byte("HDF5 chunk payload ")
		for i := range b {
			b[i] = pat[i%len(pat)]
		}
	default: // float-like: slowly varying 8-byte values
		for i := 0; i+8 <= n; i += 8 {
			v := math.Float64bits(float64(i) * 0.125)
			for j := 0; j < 8; j++ {
				b[i+j] = byte(v >> (8 * j))
			}
		}
	}
	return b
}

// readerPipeline builds the reader-side description of a writer pipeline directly from the
// filters' ids and client data (what a correct pipeline message would carry).
func readerPipeline(fs []writer.Filter) *core.FilterPipelineMessage {
	m := &core.FilterPipelineMessage{Version: 1, NumFilters: uint8(len(fs))}
	for _, f := range fs {
		flags, cd := f.Encode()
		m.Filters = append(m.Filters, core.Filter{ID: core.FilterID(f.ID()), Flags: flags, NumClientData: uint16(len(cd)), ClientData: cd, Name: f.Name()})
	}
	return m
}

func c08Run(c *ev.Ctx) {
	if c.Index >= c08PackageCases(c.Tier) {
		c08EndToEnd(c)
		return
	}
	r := c.R
	order := c08AllPipelines[c.Index%len(c08AllPipelines)]
	specs := make([]c08Spec, len(order))
	elem := []int{1, 2, 4, 8, 16}[r.Intn(5)]
	for i, k := range order {
		specs[i] = c08Spec{Kind: k}
		switch k {
		case "gzip":
			specs[i].Param = r.Range(1, 9)
		case "shuffle":
			specs[i].Param = elem
		}
	}
	sig := c08Sig(specs)
	pl := writer.NewFilterPipeline()
	var fs []writer.Filter
	for _, s := range specs {
		f := s.build()
		fs = append(fs, f)
		pl.AddFilter(f)
	}
	fail := func(key string, detail any) {
		c.Violation(key, map[string]any{"pipeline": fmt.Sprint(specs), "detail": detail})
	}

	// ---- message round trip (description of the pipeline)
	msg, err := pl.EncodePipelineMessage()
	if err != nil {
		fail("message:encode-failed", err.Error())
	} else {
		parsed, perr := core.ParseFilterPipelineMessage(msg)
		bad := ""
		switch {
		case perr != nil:
			bad = "parse error: " + perr.Error()
		case len(parsed.Filters) != len(fs):
			bad = fmt.Sprintf("%d filters parsed, %d encoded", len(parsed.Filters), len(fs))
		default:
			for i, f := range fs {
				_, cd := f.Encode()
				pf := parsed.Filters[i]
				if uint16(pf.ID) != uint16(f.ID()) {
					bad = fmt.Sprintf("filter %d: id %d parsed, %d encoded", i, pf.ID, f.ID())
					break
				}
				if len(pf.ClientData) != len(cd) {
					bad = fmt.Sprintf("filter %d: %d client values parsed, %d encoded", i, len(pf.ClientData), len(cd))
					break
				}
				for j := range cd {
					if pf.ClientData[j] != cd[j] {
						bad = fmt.Sprintf("filter %d: client value %d differs", i, j)
					}
				}
			}
		}
		if bad != "" {
			// one classified key: the writer emits version byte 2 followed by a version-1 body
			if len(msg) >= 8 && msg[0] == 2 && bytes.Equal(msg[2:8], make([]byte, 6)) {
				fail("message:writer-v2-with-v1-body", map[string]any{"why": bad, "msg_hex": fmt.Sprintf("%x", msg)})
			} else {
				fail("message:mismatch:"+sig, map[string]any{"why": bad, "msg_hex": fmt.Sprintf("%x", msg)})
			}
		}
	}

	// ---- payloads
	sizes := []int{0, 1, 2, 3, 5, 7, 8, 15, 16, 17, 31, 64, 100, 255, 256, 257, 1000, 4096}
	if c.Thorough() {
		sizes = append(sizes, 65536, 1<<20)
	}
	rp := readerPipeline(fs)
	// periodic payloads: a random block repeated, with periods around the match-length,
	// literal-run and window limits of the compressors (back references at exactly those
	// distances); encoded as (period<<8 | 5) in the kind slot
	type payloadSpec struct{ n, kind int }
	var specsP []payloadSpec
	for _, n := range sizes {
		for kind := 0; kind < 5; kind++ {
			if (n == 0 || n == 1) && kind > 1 {
				continue
			}
			specsP = append(specsP, payloadSpec{n, kind})
		}
	}
	// one large, highly compressible payload (ratios beyond 1000:1 through deflate) for
	// pipelines that compress
	if strings.Contains(sig, "gzip") || strings.Contains(sig, "lzf") {
		specsP = append(specsP, payloadSpec{2 << 20, 0})
		if c.Thorough() {
			specsP = append(specsP, payloadSpec{8 << 20, 0}, payloadSpec{3 << 20, 4})
		}
	}
	for _, per := range []int{1, 2, 3, 8, 31, 32, 33, 255, 256, 257, 263, 264, 265, 8191, 8192, 8193, 8194, 32767, 32768, 32769} {
		if per > 9000 && !c.Thorough() {
			continue
		}
		specsP = append(specsP, payloadSpec{per*2 + 320, per<<8 | 5})
	}
	for _, ps := range specsP {
		n, kind := ps.n, ps.kind
		{
			var x []byte
			if kind&0xff == 5 {
				per := kind >> 8
				blk := r.Bytes(per)
				x = make([]byte, n-n%16) // a multiple of every shuffle element size
				for i := range x {
					x[i] = blk[i%per]
				}
				kind = 5
			} else {
				x = c08Payload(r, kind, n)
			}
			c.Evals(1)
			enc, err := pl.Apply(x)
			if err != nil {
				// not accepted by the writer: legitimate only when a shuffle stage sees a length
				// that is not a multiple of its element size
				if strings.Contains(sig, "shuffle") {
					c.Count("apply-refused(shuffle length)", 1)
					continue
				}
				fail("apply-refused:"+sig, map[string]any{"len": n, "err": err.Error()})
				continue
			}
			c.Count("payloads_encoded", 1)
			// (1) writer self-inverse
			dec, err := pl.Remove(enc)
			if err != nil {
				fail("self-inverse:error:"+sig, map[string]any{"len": n, "kind": kind, "err": err.Error()})
			} else if !bytes.Equal(dec, x) {
				fail("self-inverse:bytes:"+sig, map[string]any{"len": n, "kind": kind, "first_diff": firstDiff(dec, x), "got_len": len(dec)})
			}
			// (2) reader decodes what the writer encoded
			rdec, err := rp.ApplyFilters(enc)
			if err != nil {
				fail("reader-decode:error:"+c08ReaderCulprit(fs, x), map[string]any{"len": n, "kind": kind, "err": err.Error(), "pipeline_sig": sig})
			} else if !bytes.Equal(rdec, x) {
				fail("reader-decode:bytes:"+c08ReaderCulprit(fs, x), map[string]any{"len": n, "kind": kind, "first_diff": firstDiff(rdec, x), "got_len": len(rdec), "pipeline_sig": sig})
			}
			// (2b) the next chunk through the same filter objects is a near-copy of this one:
			// same length and the same additive checksums (Adler-32 / Fletcher-32 / byte sum are
			// blind to +1,-2,+1 on three neighbours), an exact copy, and a one-byte change.
			// Whatever a stage remembers from the previous chunk must not leak into the next.
			// results of earlier calls stay what they were while later chunks go through the
			// same pipeline objects (held: what the writer-side and the reader-side decoder
			// returned for this payload)
			heldW, _ := pl.Remove(enc)
			heldR, _ := rp.ApplyFilters(enc)
			heldWok, heldRok := bytes.Equal(heldW, x), bytes.Equal(heldR, x)
			for _, sib := range c08Siblings(r, x) {
				c.Evals(1)
				c.Count("sibling_chunks_encoded", 1)
				senc, err := pl.Apply(sib.data)
				if err != nil {
					if strings.Contains(sig, "shuffle") {
						c.Count("apply-refused(shuffle length)", 1)
						continue
					}
					fail("sibling:apply-refused:"+sig, map[string]any{"len": n, "sibling": sib.name, "err": err.Error()})
					continue
				}
				if sdec, err := pl.Remove(senc); err != nil || !bytes.Equal(sdec, sib.data) {
					fail("sibling:self-inverse:"+sib.name+":"+sig, map[string]any{"len": n, "kind": kind, "err": fmt.Sprint(err), "first_diff": firstDiff(sdec, sib.data), "decodes_to_previous_chunk": bytes.Equal(sdec, x)})
				}
				if sdec, err := rp.ApplyFilters(senc); err != nil || !bytes.Equal(sdec, sib.data) {
					fail("sibling:reader-decode:"+sib.name+":"+c08ReaderCulprit(fs, sib.data), map[string]any{"len": n, "kind": kind, "err": fmt.Sprint(err), "first_diff": firstDiff(sdec, sib.data), "decodes_to_previous_chunk": bytes.Equal(sdec, x), "pipeline_sig": sig})
				}
			}
			if heldWok && !bytes.Equal(heldW, x) {
				fail("held-result-changed:writer-remove:"+sig, map[string]any{"len": n, "kind": kind, "first_diff": firstDiff(heldW, x)})
			}
			if heldRok && !bytes.Equal(heldR, x) {
				fail("held-result-changed:reader:"+c08ReaderCulprit(fs, x), map[string]any{"len": n, "kind": kind, "first_diff": firstDiff(heldR, x), "pipeline_sig": sig})
			}
			// (3) corruption of a Fletcher-32 protected chunk: the checksum is verified on
			// the stored bytes only when fletcher32 is the LAST stage of the pipeline
			if order[len(order)-1] == "fletcher32" && len(enc) > 0 {
				positions := []int{}
				if len(enc) <= 512 {
					for p := 0; p < len(enc); p++ {
						positions = append(positions, p)
					}
				} else {
					for k := 0; k < 200; k++ {
						positions = append(positions, r.Intn(len(enc)))
					}
					positions = append(positions, 0, len(enc)-1, len(enc)-4, len(enc)-5)
				}
				for _, p := range positions {
					bad := append([]byte(nil), enc...)
					flip := byte(1 << uint(r.Intn(8)))
					if r.Chance(1, 4) {
						flip = 0xFF
					}
					bad[p] ^= flip
					c.Evals(1)
					c.Count("corruptions_tried", 1)
					where := "payload"
					if p >= len(enc)-4 {
						where = "checksum"
					}
					if out, err := pl.Remove(bad); err == nil {
						// mod-65535 arithmetic: 0x0000 and 0xFFFF words are the same residue, so a
						// flip between them is outside what Fletcher-32 can see; not counted.
						if !c08FletcherBlind(enc, bad) {
							fail("corruption-undetected:writer-remove:"+where, map[string]any{"len": n, "pos": p, "flip": flip, "stored_len": len(enc), "returned_len": len(out), "pipeline_sig": sig})
						}
					}
					if out, err := rp.ApplyFilters(bad); err == nil {
						if !c08FletcherBlind(enc, bad) {
							fail("corruption-undetected:reader:"+where, map[string]any{"len": n, "pos": p, "flip": flip, "stored_len": len(enc), "returned_len": len(out), "pipeline_sig": sig})
						}
					}
				}
				// sampled multi-byte corruptions: the stored checksum with its bytes permuted
				// (swapped within the 16-bit sums, sums exchanged, reversed, rotated)
				if len(enc) >= 4 {
					ck := enc[len(enc)-4:]
					for _, perm := range [][4]int{{1, 0, 3, 2}, {2, 3, 0, 1}, {3, 2, 1, 0}, {1, 2, 3, 0}, {3, 0, 1, 2}, {1, 0, 2, 3}, {0, 1, 3, 2}} {
						bad := append([]byte(nil), enc...)
						for i, j := range perm {
							bad[len(enc)-4+i] = ck[j]
						}
						if bytes.Equal(bad, enc) {
							continue
						}
						c.Evals(1)
						c.Count("checksum_permutations_tried", 1)
						if _, err := pl.Remove(bad); err == nil {
							fail("corruption-undetected:writer-remove:checksum-permuted", map[string]any{"len": n, "perm": perm, "stored_checksum": fmt.Sprintf("%x", ck), "pipeline_sig": sig})
						}
					}
				}
			}
		}
	}
	c.Case("pkg|"+fmt.Sprint(specs), true)
	c.Count("pipelines", 1)
	if c.Index < 3 {
		c.Sample(map[string]any{"pipeline": fmt.Sprint(specs), "payload_sizes": sizes, "payload_kinds": "zeros, ramp, random, text, float-like, periodic (random block repeated with period 1..8194, thorough ..32769)"})
	}
}

// forgeCRC32 returns the four bytes that, appended to prefix, give the whole the IEEE CRC-32
// `target` (the register is run backwards through the table from the wanted final value).
func forgeCRC32(prefix []byte, target uint32) []byte {
	tbl := crc32.IEEETable
	var rev [256]byte
	for i := 0; i < 256; i++ {
		rev[tbl[i]>>24] = byte(i)
	}
	reg := target ^ 0xFFFFFFFF
	for i := 0; i < 4; i++ {
		idx := rev[reg>>24]
		reg = (reg^tbl[idx])<<8 | uint32(idx)
	}
	cur := crc32.ChecksumIEEE(prefix) ^ 0xFFFFFFFF
	v := reg ^ cur
	return []byte{byte(v), byte(v >> 8), byte(v >> 16), byte(v >> 24)}
}

type c08Sibling struct {
	name string
	data []byte
}

// c08Siblings returns near-copies of x of the same length (see the caller).
func c08Siblings(r *ev.Rand, x []byte) []c08Sibling {
	var out []c08Sibling
	if len(x) < 8 {
		return nil
	}
	// bytes +1,-2,+1 (or -1,+2,-1): byte sum and position-weighted byte sum unchanged
	for try := 0; try < 40; try++ {
		i := r.Intn(len(x) - 2)
		y := append([]byte(nil), x...)
		switch {
		case y[i] < 255 && y[i+1] >= 2 && y[i+2] < 255:
			y[i]++
			y[i+1] -= 2
			y[i+2]++
		case y[i] > 0 && y[i+1] <= 253 && y[i+2] > 0:
			y[i]--
			y[i+1] += 2
			y[i+2]--
		default:
			continue
		}
		out = append(out, c08Sibling{"same-adler32", y})
		break
	}
	// the same on 16-bit little-endian words (Fletcher-32 sums)
	for try := 0; try < 40; try++ {
		i := 2 * r.Intn((len(x)-4)/2)
		y := append([]byte(nil), x...)
		w := func(k int) uint16 { return uint16(y[i+2*k]) | uint16(y[i+2*k+1])<<8 }
		put := func(k int, v uint16) { y[i+2*k], y[i+2*k+1] = byte(v), byte(v>>8) }
		if w(0) < 0xfffe && w(1) >= 2 && w(1) < 0xfffe && w(2) < 0xfffe {
			put(0, w(0)+1)
			put(1, w(1)-2)
			put(2, w(2)+1)
			out = append(out, c08Sibling{"same-fletcher32", y})
			break
		}
	}
	// same length, same CRC-32: other leading bytes, the last four chosen so that the
	// checksum comes out equal
	if len(x) >= 8 {
		y := append([]byte(nil), x...)
		y[r.Intn(len(y)-4)] ^= byte(1 + r.Intn(255))
		copy(y[len(y)-4:], forgeCRC32(y[:len(y)-4], crc32.ChecksumIEEE(x)))
		if crc32.ChecksumIEEE(y) == crc32.ChecksumIEEE(x) && !bytes.Equal(x, y) {
			out = append(out, c08Sibling{"same-crc32", y})
		}
	}
	out = append(out, c08Sibling{"identical", append([]byte(nil), x...)})
	y := append([]byte(nil), x...)
	y[r.Intn(len(y))] ^= 0x10
	out = append(out, c08Sibling{"one-byte-differs", y})
	return out
}

// c08FletcherBlind reports whether two stored chunks differ only by 16-bit words 0x0000 <-> 0xFFFF
// (equal modulo 65535), which no Fletcher-32 implementation can distinguish.
func c08FletcherBlind(a, b []byte) bool {
	if len(a) != len(b) {
		return false
	}
	n := len(a) - 4
	for i := 0; i < len(a); i++ {
		if a[i] == b[i] {
			continue
		}
		if i >= n {
			return false
		}
		w := i &^ 1
		if w+1 >= n {
			return false
		}
		wa := uint16(a[w]) | uint16(a[w+1])<<8
		wb := uint16(b[w]) | uint16(b[w+1])<<8
		if !((wa == 0 && wb == 0xFFFF) || (wa == 0xFFFF && wb == 0)) {
			return false
		}
	}
	return true
}

// c08ReaderCulprit finds which single filter the reader cannot decode (by testing each
// filter of the pipeline alone on the payload), so that the key names the filter and not the
// 64 pipelines that contain it.
func c08ReaderCulprit(fs []writer.Filter, x []byte) string {
	var bad []string
	for _, f := range fs {
		in := x
		if f.ID() == writer.FilterShuffle {
			_, cd := f.Encode()
			if len(cd) > 0 && cd[0] > 0 && len(in)%int(cd[0]) != 0 {
				in = in[:len(in)-len(in)%int(cd[0])]
			}
		}
		if len(in) == 0 {
			in = []byte{1, 2, 3, 4, 5, 6, 7, 8, 9, 10, 11, 12, 13, 14, 15, 16}
		}
		enc, err := f.Apply(in)
		if err != nil {
			continue
		}
		dec, err := readerPipeline([]writer.Filter{f}).ApplyFilters(enc)
		if err != nil || !bytes.Equal(dec, in) {
			bad = append(bad, f.Name())
		}
	}
	if len(bad) == 0 {
		return "combination"
	}
	return strings.Join(bad, "+")
}

func c08PackageCases(tier string) int {
	if tier == "thorough" {
		return 64 * 20
	}
	return 64 * 2
}

// ---- end to end through the public API

func c08EndToEnd(c *ev.Ctx) {
	r := c.R
	type opt struct{ gzip, shuffle, fletcher bool }
	k := c.Index - c08PackageCases(c.Tier)
	o := opt{gzip: k&1 != 0, shuffle: k&2 != 0, fletcher: k&4 != 0}
	if !o.gzip && !o.shuffle && !o.fletcher {
		o.gzip = true
	}
	level := r.Range(1, 9)
	n := uint64(r.Range(1, 300))
	chunk := uint64(r.Range(1, int(n)))
	if r.Chance(1, 3) {
		chunk = n
	}
	isFloat := r.Bool()
	path := filepath.Join(c.Dir, "f.h5")
	sbv := []uint8{0, 2, 3}[r.Intn(3)]
	desc := fmt.Sprintf("e2e|gzip=%v(%d)|shuffle=%v|fletcher=%v|n=%d|chunk=%d|float=%v|sb=%d", o.gzip, level, o.shuffle, o.fletcher, n, chunk, isFloat, sbv)
	fail := func(key string, detail any) {
		c.Violation(key, map[string]any{"case": desc, "detail": detail})
	}
	fkey := ""
	if o.shuffle {
		fkey += "shuffle+"
	}
	if o.gzip {
		fkey += "gzip+"
	}
	if o.fletcher {
		fkey += "fletcher32+"
	}
	fkey = strings.TrimSuffix(fkey, "+")
	fw, err := hdf5.CreateForWrite(path, hdf5.CreateTruncate, hdf5.WithSuperblockVersion(sbv))
	if err != nil {
		fail("e2e:create-failed", err.Error())
		return
	}
	opts := []hdf5.DatasetOption{hdf5.WithChunkDims([]uint64{chunk})}
	if o.shuffle {
		opts = append(opts, hdf5.WithShuffle())
	}
	if o.gzip {
		opts = append(opts, hdf5.WithGZIPCompression(level))
	}
	if o.fletcher {
		opts = append(opts, hdf5.WithFletcher32())
	}
	var want []float64
	var werr error
	if isFloat {
		ds, err := fw.CreateDataset("/d", hdf5.Float64, []uint64{n}, opts...)
		if err != nil {
			_ = fw.Close()
			fail("e2e:create-dataset-failed:"+fkey, err.Error())
			return
		}
		data := make([]float64, n)
		for i := range data {
			data[i] = float64(i)*0.5 - 17
			if r.Chance(1, 10) {
				data[i] = math.Float64frombits(r.Float64Bits())
			}
		}
		want = append([]float64(nil), data...)
		werr = ds.Write(data)
		hx.Poison(data)
	} else {
		ds, err := fw.CreateDataset("/d", hdf5.Int32, []uint64{n}, opts...)
		if err != nil {
			_ = fw.Close()
			fail("e2e:create-dataset-failed:"+fkey, err.Error())
			return
		}
		data := make([]int32, n)
		want = make([]float64, n)
		for i := range data {
			data[i] = int32(r.Uint32())
			if r.Bool() {
				data[i] = int32(i)
			}
		}
		if r.Chance(1, 3) && chunk >= 2 && chunk < n {
			// consecutive chunks that are near-copies of each other (same length, same
			// additive checksums, or identical)
			prev := make([]byte, 4*chunk)
			for i := uint64(0); i < chunk; i++ {
				binary.LittleEndian.PutUint32(prev[4*i:], uint32(data[i]))
			}
			for lo := chunk; lo < n; lo += chunk {
				sibs := c08Siblings(r, prev)
				cur := sibs[r.Intn(len(sibs))].data
				for i := uint64(0); i < chunk && lo+i < n; i++ {
					data[lo+i] = int32(binary.LittleEndian.Uint32(cur[4*i:]))
				}
				prev = cur
			}
			c.Count("e2e_datasets_with_near-copy_chunks", 1)
		}
		for i := range data {
			want[i] = float64(data[i])
		}
		werr = ds.Write(data)
		hx.Poison(data)
	}
	if werr != nil {
		_ = fw.Close()
		fail("e2e:write-failed:"+fkey, werr.Error())
		return
	}
	if err := fw.Close(); err != nil {
		fail("e2e:close-failed:"+fkey, err.Error())
		return
	}
	f, err := hdf5.Open(path)
	if err != nil {
		fail("e2e:open-failed:"+fkey, err.Error())
		return
	}
	defer f.Close()
	var got []float64
	var rerr error
	found := false
	f.Walk(func(p string, obj hdf5.Object) {
		if ds, ok := obj.(*hdf5.Dataset); ok && (p == "/d" || p == "/d/") {
			found = true
			got, rerr = ds.Read()
		}
	})
	c.Case(desc, true)
	c.Count("e2e_datasets", 1)
	switch {
	case !found:
		fail("e2e:missing:"+fkey, "dataset /d not found after reopen")
	case rerr != nil:
		fail("e2e:read-error:"+fkey, rerr.Error())
	case len(got) != len(want):
		fail("e2e:length:"+fkey, fmt.Sprintf("read %d elements, wrote %d", len(got), len(want)))
	default:
		for i := range want {
			if math.Float64bits(got[i]) != math.Float64bits(want[i]) {
				fail("e2e:values:"+fkey, fmt.Sprintf("element %d: read %v (%016x), wrote %v (%016x)", i, got[i], math.Float64bits(got[i]), want[i], math.Float64bits(want[i])))
				break
			}
		}
	}
	if k < 2 {
		c.Sample(desc)
	}
}

var C08 = &ev.Property{
	ID:    "C08",
	Level: "exploration",
	Rule: "package level: every ordered selection of distinct filters from {deflate(level 1-9), shuffle(elem 1,2,4,8,16), fletcher32, lzf} (64 orderings × seeded parameters) × 18-20 payload sizes (0 B..4 KiB, thorough up to 1 MiB; 2 MiB of zeros for compressing pipelines, thorough also 8 MiB) × 5 payload kinds plus periodic payloads (a random block repeated at periods 1,2,3,8,31-33,255-257,263-265,8191-8194 and, thorough, 32767-32769: back references at the compressors' length and window limits): Apply/Remove identity, pipeline message encode/parse identity, reader (core.ApplyFilters on a description built from the filters' ids/client data) decodes the writer's bytes; every payload is followed through the same filter objects by up to four near-copies of the same length (same Adler-32, same Fletcher-32, same CRC-32, identical, one byte changed) that must each decode to themselves, and the decoded payload returned before them must still read the same afterwards; " +
		"for pipelines ending in fletcher32 every byte position (<=512 B) or 200 sampled positions of the stored chunk is altered by a bit flip and both decoders must report an error. End to end: chunked filtered datasets through the public API in all accepted option combinations × superblock 0/2/3 (a third with consecutive chunks that are such near-copies of each other), reopened and read. " +
		"distinct = distinct (pipeline with parameters) or e2e configuration descriptors; all are non-trivial.",
	Assumptions: []string{
		"a flip between the 16-bit words 0x0000 and 0xFFFF is invisible to any Fletcher-32 (equal mod 65535) and is not counted",
		"an Apply error is accepted only for pipelines containing shuffle (length not a multiple of the element size)",
	},
	Cases: func(tier string) int {
		if tier == "thorough" {
			return c08PackageCases(tier) + 2000
		}
		return c08PackageCases(tier) + 160
	},
	Run:   c08Run,
	Floor: func(tier string) int64 { return 100 },
}
