package props

import (
	"fmt"
	"math"
	"path/filepath"
	"strings"

	"github.com/scigolib/hdf5/internal/zzverif/dump"
	"github.com/scigolib/hdf5/internal/zzverif/ev"
	"github.com/scigolib/hdf5/internal/zzverif/hx"
)

// C13 — resize keeps retained data, zero-fills new space, respects the declared maximum.
//
// Model: an N-d array of int64 values resized with the same calls (zero fill on grow,
// elements outside the new extent dropped); expected accept/reject from the declared
// maximum dimensions.

type ndArray struct {
	dims []uint64
	data []int64
}

func (a *ndArray) resize(nd []uint64) *ndArray {
	out := &ndArray{dims: append([]uint64(nil), nd...), data: make([]int64, hx.NumElems(nd))}
	rank := len(nd)
	idx := make([]uint64, rank)
	if len(out.data) == 0 {
		return out
	}
	for {
		inOld := true
		var lo, ln uint64
		for d := 0; d < rank; d++ {
			if idx[d] >= a.dims[d] {
				inOld = false
			}
			lo = lo*a.dims[d] + idx[d]
			ln = ln*nd[d] + idx[d]
		}
		if inOld {
			out.data[ln] = a.data[lo]
		}
		d := rank - 1
		for d >= 0 {
			idx[d]++
			if idx[d] < nd[d] {
				break
			}
			idx[d] = 0
			d--
		}
		if d < 0 {
			return out
		}
	}
}

func c13Run(c *ev.Ctx) {
	r := c.R
	sbv := []uint8{0, 2, 3}[r.Intn(3)]
	rank := r.Range(1, 3)
	dims := make([]uint64, rank)
	maxd := make([]uint64, rank)
	chunk := make([]uint64, rank)
	for i := range dims {
		dims[i] = uint64(r.Range(1, 9))
		chunk[i] = uint64(r.Range(1, min(5, int(dims[i]))))
		switch r.Intn(3) {
		case 0:
			maxd[i] = hx.Unlimited
		case 1:
			maxd[i] = dims[i] + uint64(r.Intn(8))
		default:
			maxd[i] = dims[i]
		}
	}
	kind := []string{"i32", "i64", "f64", "u32"}[r.Intn(4)]
	// one case in fifty: a dataset of a MiB that is grown and not written again, next to a
	// larger dataset that is read before it (large buffers change hands inside one process)
	large := c.Index%50 == 7
	if large {
		rank = 1
		n := uint64(r.Range(131072, 200000))
		dims, maxd, chunk = []uint64{n}, []uint64{hx.Unlimited}, []uint64{uint64(r.Range(int(n)/6, int(n)))}
		kind = []string{"i64", "f64"}[r.Intn(2)]
	}
	// one case in forty: a grid of single-element chunks that is shrunk along one axis and grown
	// to tens of thousands of chunks along the other in one call (within the declared maximum)
	manyChunks := !large && c.Index%80 == 11
	if manyChunks {
		rank = 2
		dims, maxd, chunk = []uint64{4, 4}, []uint64{hx.Unlimited, hx.Unlimited}, []uint64{1, 1}
	}
	zeroStyle := 0
	if r.Chance(1, 3) {
		zeroStyle = r.Range(1, 3)
	}
	mkData := func(d []uint64, seed int) (hx.Val, []int64) {
		n := int(hx.NumElems(d))
		vals := make([]int64, n)
		for i := range vals {
			vals[i] = int64(seed*1000 + i + 1)
		}
		// one third of the data sets contain zeros: written zeros must behave like any other
		// value (a region that happens to be all zero is still stored data)
		switch zeroStyle {
		case 1: // everything but the last quarter is zero
			for i := 0; i < n-n/4-1 && i < n; i++ {
				vals[i] = 0
			}
		case 2: // leading half zero
			for i := 0; i < n/2; i++ {
				vals[i] = 0
			}
		case 3: // every other element zero
			for i := 0; i < n; i += 2 {
				vals[i] = 0
			}
		}
		v := hx.Val{Kind: "[]" + kind}
		switch kind {
		case "i32", "i64":
			v.I = vals
		case "u32":
			v.U = make([]uint64, n)
			for i, x := range vals {
				v.U[i] = uint64(x)
			}
		default:
			v.F = make([]uint64, n)
			for i, x := range vals {
				v.F[i] = math.Float64bits(float64(x))
			}
		}
		return v, vals
	}
	s := &hx.Script{SB: sbv}
	v0, vals0 := mkData(dims, 1)
	cr := hx.Op{K: "create_ds", Path: "/r", DT: kind, Dims: dims, Chunk: chunk, MaxDims: maxd, Data: &v0}
	filt := "plain"
	if r.Chance(1, 3) {
		filt = ""
		if r.Bool() {
			cr.Shuffle = true
			filt += "s"
		}
		if r.Bool() {
			cr.Gzip = r.Range(1, 9)
			filt += "z"
		}
		if r.Bool() || filt == "" {
			cr.Fletcher = true
			filt += "f"
		}
	}
	if large {
		filt = "plain"
		cr.Shuffle, cr.Gzip, cr.Fletcher = false, 0, false
		fv := hx.Val{Kind: "[]f64"}
		for i := 0; i < 400000; i++ {
			fv.F = append(fv.F, math.Float64bits(7))
		}
		s.Ops = append(s.Ops, hx.Op{K: "create_ds", Path: "/a_full", DT: "f64", Dims: []uint64{400000}, Chunk: []uint64{100000}, Data: &fv})
	}
	s.Ops = append(s.Ops, cr)
	// an unrelated neighbour so that the dataset's structures are not the last ones in the file
	if r.Bool() {
		nv := hx.GenNumeric(r, "[]i32", 3, 2)
		s.Ops = append(s.Ops, hx.Op{K: "create_ds", Path: "/other", DT: "i32", Dims: []uint64{3}, Data: &nv})
	}
	model := &ndArray{dims: append([]uint64(nil), dims...), data: vals0}
	type step struct {
		op     hx.Op
		expect string // ok | fail
		after  *ndArray
	}
	var steps []step
	nsteps := r.Range(1, 10)
	pattern := r.Intn(4) // 0 random, 1 grow-write-shrink-grow, 2 shrink-grow (ghost), 3 repeated grow
	if large {
		nsteps, pattern = r.Range(1, 2), 3
	}
	if manyChunks {
		nsteps = 1
	}
	cur := model
	var pat []string
	for i := 0; i < nsteps; i++ {
		kindOp := r.Intn(4)
		switch pattern {
		case 1:
			kindOp = []int{0, 2, 1, 0}[i%4]
		case 2:
			kindOp = []int{1, 0}[i%2]
		case 3:
			kindOp = 0
		}
		if manyChunks {
			nd := []uint64{uint64(r.Range(1, 3)), uint64(r.Range(33000, 70000))}
			if r.Bool() {
				nd[0], nd[1] = nd[1], nd[0]
			}
			cur = cur.resize(nd)
			steps = append(steps, step{op: hx.Op{K: "resize", Path: "/r", Dims: nd}, expect: "ok", after: cur})
			pat = append(pat, "shrink+grow-to-many-chunks")
			continue
		}
		if rank >= 2 && !large && r.Chance(1, 6) {
			// the extents trade places (one axis grows while another shrinks, the number of
			// elements - and often of chunks - stays the same), followed by a full rewrite
			nd := append([]uint64(nil), cur.dims...)
			nd[0], nd[rank-1] = nd[rank-1], nd[0]
			ok := true
			for d := range nd {
				if maxd[d] != hx.Unlimited && nd[d] > maxd[d] {
					ok = false
				}
			}
			if ok && !eqU64s(nd, cur.dims) {
				cur = cur.resize(nd)
				steps = append(steps, step{op: hx.Op{K: "resize", Path: "/r", Dims: nd}, expect: "ok", after: cur})
				pat = append(pat, "transpose")
				v, vals := mkData(cur.dims, i+20)
				cur = &ndArray{dims: cur.dims, data: vals}
				steps = append(steps, step{op: hx.Op{K: "write", Path: "/r", Data: &v}, expect: "ok", after: cur})
				pat = append(pat, "write")
				continue
			}
		}
		switch kindOp {
		case 0, 1: // grow / shrink
			nd := append([]uint64(nil), cur.dims...)
			ax := r.Intn(rank)
			if r.Chance(1, 4) {
				ax = -1 // all axes
			}
			for d := range nd {
				if ax >= 0 && d != ax {
					continue
				}
				if kindOp == 0 {
					nd[d] += uint64(r.Range(1, 6))
					if large {
						nd[d] += uint64(r.Range(40000, 120000))
					}
				} else if nd[d] > 1 {
					nd[d] = uint64(r.Range(1, int(nd[d])-1))
				}
			}
			expect := "ok"
			for d := range nd {
				if maxd[d] != hx.Unlimited && nd[d] > maxd[d] {
					expect = "fail"
				}
			}
			st := step{op: hx.Op{K: "resize", Path: "/r", Dims: nd}, expect: expect}
			if expect == "ok" {
				cur = cur.resize(nd)
			}
			st.after = cur
			steps = append(steps, st)
			pat = append(pat, map[int]string{0: "grow", 1: "shrink"}[kindOp]+map[string]string{"ok": "", "fail": "!"}[expect])
		case 2: // rewrite everything at the current shape
			v, vals := mkData(cur.dims, i+2)
			cur = &ndArray{dims: cur.dims, data: vals}
			steps = append(steps, step{op: hx.Op{K: "write", Path: "/r", Data: &v}, expect: "ok", after: cur})
			pat = append(pat, "write")
		default: // beyond the maximum in one axis (when it has one)
			nd := append([]uint64(nil), cur.dims...)
			ax := -1
			for d := range maxd {
				if maxd[d] != hx.Unlimited {
					ax = d
				}
			}
			if ax < 0 {
				continue
			}
			nd[ax] = maxd[ax] + uint64(r.Range(1, 3))
			steps = append(steps, step{op: hx.Op{K: "resize", Path: "/r", Dims: nd}, expect: "fail", after: cur})
			pat = append(pat, "beyond-max!")
		}
	}
	for _, st := range steps {
		s.Ops = append(s.Ops, st.op)
	}
	dumpScriptIfReplay(c, s)
	path := filepath.Join(c.Dir, "c13.h5")
	e := hx.Run(path, s)
	var log []string
	for i, op := range s.Ops {
		stt := "ok"
		if i < len(e.Res) && !e.Res[i].OK() {
			stt = "ERR:" + e.Res[i].Err
		}
		log = append(log, fmt.Sprintf("%d:%s[%s]", i, op.String(), stt))
	}
	wit := func(detail any) map[string]any {
		return map[string]any{"sb": sbv, "kind": kind, "dims": dims, "chunk": chunk, "maxdims": maxd, "ops": log, "detail": detail}
	}
	base := len(s.Ops) - len(steps)
	for i := 0; i < base; i++ {
		if !e.Res[i].OK() {
			c.Violation("setup-failed:"+s.Ops[i].K, wit(e.Res[i]))
			return
		}
	}
	patTag := strings.Join(pat, ",")
	rk := "1D"
	if rank > 1 {
		rk = "ND"
	}
	final := model
	for i, st := range steps {
		res := e.Res[base+i]
		if res.Panic != "" {
			c.Violation("op-panic:"+st.op.K+"@"+res.Panic, wit(res))
			return
		}
		switch {
		case st.expect == "ok" && !res.OK():
			if strings.Contains(res.Err, "at most 65535") {
				// the documented limit of the single-node chunk index (listed finding): its own key
				c.Violation("reject:"+st.op.K+":more-than-65535-chunks", wit(map[string]any{"step": i, "op": st.op.String(), "err": res.Err}))
			} else {
				c.Violation("reject:"+st.op.K+":"+rk, wit(map[string]any{"step": i, "op": st.op.String(), "err": res.Err}))
			}
			return
		case st.expect == "fail" && res.OK():
			c.Violation("accept-beyond-max:"+rk, wit(map[string]any{"step": i, "op": st.op.String()}))
			return
		}
		final = st.after
	}
	c.Case(fmt.Sprintf("sb%d|%s|z%d|%s|rank%d|chunk%v|max%v|%s", sbv, kind, zeroStyle, filt, rank, chunk, maxd, patTag), len(steps) >= 1)
	c.Count("steps", int64(len(steps)))
	c.Count("filters:"+filt, 1)
	for _, p := range pat {
		c.Count("step:"+strings.TrimSuffix(p, "!"), 1)
	}
	dp := dump.File(path, dump.Options{})
	if !dp.OpenRes.OK() {
		c.Violation("open-fail:"+rk, wit(dp.OpenRes))
		return
	}
	o := dp.Get("/r")
	if o == nil {
		c.Violation("missing", wit(dp.Paths()))
		return
	}
	if !o.MetaRes.OK() {
		c.Violation("info-error", wit(o.MetaRes))
		return
	}
	lastKinds := ""
	if len(pat) > 0 {
		lastKinds = pat[len(pat)-1]
	}
	if !eqU64s(o.Dims, final.dims) {
		c.Violation("shape:"+rk, wit(map[string]any{"read": o.Dims, "expected": final.dims, "last_step": lastKinds}))
		return
	}
	if !o.ReadRes.OK() {
		c.Violation("read-error:"+rk+":after-"+strings.TrimSuffix(lastKinds, "!"), wit(o.ReadRes))
		return
	}
	if len(o.Read) != len(final.data) {
		c.Violation("length:"+rk, wit(map[string]any{"read": len(o.Read), "expected": len(final.data)}))
		return
	}
	// classify the first differing element: retained / zero-fill / ghost
	hadShrink := false
	for _, p := range pat {
		if strings.HasPrefix(p, "shrink") {
			hadShrink = true
		}
	}
	for i := range final.data {
		got := math.Float64frombits(o.Read[i])
		want := float64(final.data[i])
		if got != want {
			sym := "retained"
			if final.data[i] == 0 {
				sym = "zero-fill"
				if hadShrink && got != 0 {
					sym = "ghost-after-shrink"
				}
			}
			c.Violation(sym+":"+rk, wit(map[string]any{"index": i, "read": got, "expected": want, "pattern": patTag}))
			break
		}
	}
	if len(steps) <= 4 {
		c.Sample(map[string]any{"sb": sbv, "ops": log})
	}
}

var C13 = &ev.Property{
	ID:    "C13",
	Level: "exploration",
	Rule: "each case creates a resizable chunked dataset (rank 1-3, extents 1-9, data with and without written zeros, chunk 1-5 per axis incl. non-dividing, per-axis maximum unlimited / larger / equal to the extent, i32/i64/u32/f64, unfiltered or with a shuffle/deflate/Fletcher-32 pipeline, superblock 0/2/3, optionally followed by an unrelated dataset) and applies 1-10 steps from {grow, shrink, rewrite everything, resize beyond the maximum} in four patterns (random; grow-write-shrink-grow; shrink-grow; repeated grow); an N-d array model is resized with the same calls; every step's acceptance is compared with the declared maximum, and after Close and reopen shape and every element are compared (retained values, zero fill of new space, nothing resurrected after shrink-then-grow). " +
		"non-trivial: at least one step; distinct = (superblock, type, rank, chunk, maximum, step pattern).",
	Assumptions: []string{"the symptom class in a key (retained / zero-fill / ghost) is derived from the expected value being zero or not; one third of the data sets contain written zeros, so that class is a hint, the comparison itself is exact"},
	Cases: func(tier string) int {
		if tier == "thorough" {
			return 20000
		}
		return 1500
	},
	Run:   c13Run,
	Floor: func(tier string) int64 { return 50 },
}
