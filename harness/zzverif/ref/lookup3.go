// Package ref holds small reference implementations written from public descriptions,
// sharing no code with the library under test.
package ref

func rot(x uint32, k uint) uint32 { return x<<k | x>>(32-k) }

// Lookup3 is Bob Jenkins' lookup3 hashlittle() (public domain, 2006), the function HDF5
// uses as H5_checksum_lookup3 for name hashes and metadata checksums.
func Lookup3(key []byte, initval uint32) uint32 {
	length := len(key)
	a := 0xdeadbeef + uint32(length) + initval
	b, c := a, a
	k := key
	for len(k) > 12 {
		a += uint32(k[0]) | uint32(k[1])<<8 | uint32(k[2])<<16 | uint32(k[3])<<24
		b += uint32(k[4]) | uint32(k[5])<<8 | uint32(k[6])<<16 | uint32(k[7])<<24
		c += uint32(k[8]) | uint32(k[9])<<8 | uint32(k[10])<<16 | uint32(k[11])<<24
		// mix(a,b,c)
		a -= c
		a ^= rot(c, 4)
		c += b
		b -= a
		b ^= rot(a, 6)
		a += c
		c -= b
		c ^= rot(b, 8)
		b += a
		a -= c
		a ^= rot(c, 16)
		c += b
		b -= a
		b ^= rot(a, 19)
		a += c
		c -= b
		c ^= rot(b, 4)
		b += a
		k = k[12:]
	}
	// last block: affect all 32 bits of (c); case 0 returns c with no final mixing
	switch len(k) {
	case 12:
		c += uint32(k[11]) << 24
		fallthrough
	case 11:
		c += uint32(k[10]) << 16
		fallthrough
	case 10:
		c += uint32(k[9]) << 8
		fallthrough
	case 9:
		c += uint32(k[8])
		fallthrough
	case 8:
		b += uint32(k[7]) << 24
		fallthrough
	case 7:
		b += uint32(k[6]) << 16
		fallthrough
	case 6:
		b += uint32(k[5]) << 8
		fallthrough
	case 5:
		b += uint32(k[4])
		fallthrough
	case 4:
		a += uint32(k[3]) << 24
		fallthrough
	case 3:
		a += uint32(k[2]) << 16
		fallthrough
	case 2:
		a += uint32(k[1]) << 8
		fallthrough
	case 1:
		a += uint32(k[0])
	case 0:
		return c
	}
	// final(a,b,c)
	c ^= b
	c -= rot(b, 14)
	a ^= c
	a -= rot(c, 11)
	b ^= a
	b -= rot(a, 25)
	c ^= b
	c -= rot(b, 16)
	a ^= c
	a -= rot(c, 4)
	b ^= a
	b -= rot(a, 14)
	c ^= b
	c -= rot(b, 24)
	return c
}
