module github.com/scigolib/hdf5

go 1.25

require github.com/stretchr/testify v1.11.1

require (
	github.com/davecgh/go-spew v1.1.1 // indirect
	github.com/pmezard/go-difflib v1.0.0 // indirect
	gopkg.in/yaml.v3 v3.0.1 // indirect
)

require github.com/anishathalye/porcupine v1.3.0
