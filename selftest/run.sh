#!/usr/bin/env bash
# selftest/run.sh <mutant> <Cxx> [quick|thorough]
#   <mutant> = revert:<commit>   (undo one fix: commit of /repo on a scratch worktree)
#            | file:<patch>      (apply a patch file, e.g. seeded/<id>/patch.diff)
# Runs the property's check against the mutated scratch worktree (VERIF_REPO) and reports
# whether it raised a VIOLATION. The worktree and its build output are removed afterwards.
# This is not a registered check: it is how a monitor is shown to fire on realistic breakage.
set -u
cd "$(dirname "${BASH_SOURCE[0]}")/.."
mut="$1"; prop="$2"; tier="${3:-quick}"
wt="$(mktemp -d /tmp/vst-XXXXXX)"
rmdir "$wt"
git -C /repo worktree add -q --detach "$wt" HEAD || exit 2
cleanup() {
  sfx="-$(echo "$wt" | md5sum | cut -c1-8)"
  git -C /repo worktree remove --force "$wt" 2>/dev/null
  rm -rf "$wt" "build$sfx" "bin/vcheck$sfx" "bin/vcheck-race$sfx"
}
trap cleanup EXIT
case "$mut" in
  revert:*) git -C "$wt" revert -n "${mut#revert:}" >/dev/null 2>&1 || {
              git -C "$wt" revert --abort >/dev/null 2>&1; git -C "$wt" reset -q --hard HEAD
              git -C "$wt" show "${mut#revert:}" | git -C "$wt" apply -R --recount -C1 2>/dev/null || { echo "SELFTEST cannot revert ${mut#revert:}"; exit 2; }
            } ;;
  file:*)   git -C "$wt" apply "${mut#file:}" 2>/dev/null \
              || git -C "$wt" apply --recount -C1 "${mut#file:}" 2>/dev/null \
              || (cd "$wt" && patch -p1 -F3 -s < "${mut#file:}" >/dev/null 2>&1) \
              || { echo "SELFTEST cannot apply ${mut#file:}"; exit 2; } ;;
  *) echo "bad mutant spec"; exit 2;;
esac
out="$(VERIF_REPO="$wt" VERIF_OUT_DIR="$wt/.verif-out" ./check "$prop" "$tier" 2>&1)"
rc=$?
if [ $rc -eq 1 ] && echo "$out" | grep -q '^VIOLATION'; then
  echo "SELFTEST caught: $mut by $prop ($tier): $(echo "$out" | grep -A1 '^VIOLATION' | sed -n 2p | cut -c1-200)"
  exit 0
fi
echo "SELFTEST MISSED: $mut by $prop ($tier) rc=$rc"
echo "$out" | tail -5
exit 1
