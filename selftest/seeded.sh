#!/usr/bin/env bash
# selftest/seeded.sh <Cxx> [tier]: copies /tmp/mut-<Cxx>/SEEDED (a sub-agent's seeded defect) to
# /verif/seeded/<Cxx>/ if not there yet, then runs the property's check against a scratch
# worktree with the patch applied and reports caught / missed.
set -u
cd "$(dirname "${BASH_SOURCE[0]}")/.."
id="$1"; tier="${2:-quick}"; prop="${3:-$id}"
src="/tmp/mut-$id/SEEDED"
dst="seeded/$id"
if [ ! -f "$dst/patch.diff" ]; then
  [ -f "$src/patch.diff" ] || { echo "no patch for $id"; exit 2; }
  mkdir -p "$dst"
  cp "$src/patch.diff" "$dst/patch.diff"
  [ -f "$src/meta.json" ] && cp "$src/meta.json" "$dst/meta.json"
  [ -d "$src/demo" ] && rm -rf "$dst/demo" && cp -r "$src/demo" "$dst/demo"
fi
./selftest/run.sh "file:$PWD/$dst/patch.diff" "$prop" "$tier"
