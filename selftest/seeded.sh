#!/usr/bin/env bash
# selftest/seeded.sh <id> [tier]: <id> = Cxx (round 1, /tmp/mut-Cxx) or Cxx.r2 (round 2, /tmp/mut2-Cxx).
# Copies the sub-agent's SEEDED directory to /verif/seeded/<id>/ if it is not there yet, then runs the
# property's check against a scratch worktree with the patch applied and reports caught / missed.
set -u
cd "$(dirname "${BASH_SOURCE[0]}")/.."
id="$1"; tier="${2:-quick}"
prop="${id%%.*}"
case "$id" in
  *.r2) src="/tmp/mut2-$prop/SEEDED" ;;
  *.r3) src="/tmp/mut3-$prop/SEEDED" ;;
  *.r4) src="/tmp/mut4-$prop/SEEDED" ;;
  *.r5) src="/tmp/mut5-$prop/SEEDED" ;;
  *.r6) src="/tmp/mut6-$prop/SEEDED" ;;
  *.r7) src="/tmp/mut7-$prop/SEEDED" ;;
  *.r8) src="/tmp/mut8-$prop/SEEDED" ;;
  *.r9) src="/tmp/mut9-$prop/SEEDED" ;;
  *)    src="/tmp/mut-$prop/SEEDED" ;;
esac
dst="seeded/$id"
if [ ! -f "$dst/patch.diff" ]; then
  [ -f "$src/patch.diff" ] || { echo "no patch for $id"; exit 2; }
  mkdir -p "$dst"
  cp "$src/patch.diff" "$dst/patch.diff"
  [ -f "$src/meta.json" ] && cp "$src/meta.json" "$dst/meta.json"
  [ -d "$src/demo" ] && rm -rf "$dst/demo" && cp -r "$src/demo" "$dst/demo"
fi
./selftest/run.sh "file:$PWD/$dst/patch.diff" "$prop" "$tier"
