#!/usr/bin/env bash
# selftest/seeded_all.sh [tier]: runs every seeded defect under /verif/seeded against its property's
# check and writes seeded/RESULTS.txt (one line per defect).
cd "$(dirname "${BASH_SOURCE[0]}")/.."
tier="${1:-quick}"
out=seeded/RESULTS.txt
: > "$out.tmp"
for d in $(ls seeded | grep '^C[0-9][0-9]' | sort); do
  [ -f "seeded/$d/patch.diff" ] || continue
  prop="${d%%.*}"
  if [ -f "seeded/$d/NEUTRALISED" ]; then
    echo "$d $tier: NEUTRALISED ($(cut -c1-120 seeded/$d/NEUTRALISED))" | tee -a "$out.tmp"
    continue
  fi
  r=$(./selftest/run.sh "file:$PWD/seeded/$d/patch.diff" "$prop" "$tier" 2>&1 | grep SELFTEST | head -1 | sed 's/ witness=.*//' | cut -c1-200)
  echo "$d $tier: $r" | tee -a "$out.tmp"
done
mv "$out.tmp" "$out"
