#!/usr/bin/env bash
# setup_cmd: build the harness (plain and -race) from files on disk only, warm the build cache.
set -eu
cd "$(dirname "${BASH_SOURCE[0]}")"
export VERIF_DIR="$PWD"
export VERIF_REPO="${VERIF_REPO:-/repo}"
chmod +x check build.sh
./build.sh all
echo "setup ok: $(ls bin)"
