#!/usr/bin/env bash
# build.sh [prop]: (re)build bin/vcheck (and bin/vcheck-race when needed) from
# $VERIF_REPO's current working tree + the harness, through `go build -overlay`.
set -eu
VERIF_DIR="${VERIF_DIR:-$(cd "$(dirname "${BASH_SOURCE[0]}")" && pwd)}"
VERIF_REPO="${VERIF_REPO:-/repo}"
export VERIF_DIR VERIF_REPO
. "$VERIF_DIR/env.sh"
prop="${1:-}"
sfx="$(verif_bin_suffix)"
B="$VERIF_DIR/build$sfx"
mkdir -p "$B" "$VERIF_DIR/bin" "$GOCACHE"

exec 9>"$B/.lock"
flock 9

# 1. overlay: harness files -> virtual paths inside the module
python3 - "$VERIF_DIR" "$VERIF_REPO" "$B/overlay.json" <<'EOF'
import json, os, sys
verif, repo, out = sys.argv[1:4]
rep = {}
h = os.path.join(verif, "harness")
for root, _, files in os.walk(os.path.join(h, "zzverif")):
    for f in files:
        if f.endswith(".go") or f.endswith(".s"):
            src = os.path.join(root, f)
            rel = os.path.relpath(src, os.path.join(h, "zzverif"))
            rep[os.path.join(repo, "internal", "zzverif", rel)] = src
sh = os.path.join(h, "shims")
for root, _, files in os.walk(sh):
    for f in files:
        if f.endswith(".go"):
            src = os.path.join(root, f)
            rel = os.path.relpath(root, sh)
            pkgdir = repo if rel == "root" else os.path.join(repo, rel)
            rep[os.path.join(pkgdir, "zzverif_" + f)] = src
tmp = out + ".tmp%d" % os.getpid()
json.dump({"Replace": rep}, open(tmp, "w"), indent=1, sort_keys=True)
os.replace(tmp, out)
EOF

# 2. modfile = repo's go.mod + porcupine
{
  cat "$VERIF_REPO/go.mod"
  echo
  echo "require github.com/anishathalye/porcupine v1.3.0"
} > "$B/go.verif.mod"
if [ -f "$VERIF_REPO/go.sum" ]; then cat "$VERIF_REPO/go.sum" > "$B/go.verif.sum"; else : > "$B/go.verif.sum"; fi
cat "$VERIF_DIR/harness/extra.sum" >> "$B/go.verif.sum" 2>/dev/null || true

build() { # $1 = output name, rest = extra flags
  local out="$1"; shift
  ( cd "$VERIF_REPO" && "$VERIF_GO" build -modfile="$B/go.verif.mod" -overlay="$B/overlay.json" \
      -tags verif "$@" -o "$VERIF_DIR/bin/.$out.$$" ./internal/zzverif/cmd/vcheck ) \
    && mv -f "$VERIF_DIR/bin/.$out.$$" "$VERIF_DIR/bin/$out"
}

build "vcheck$sfx"
case "$prop" in
  C18|C20|all|race) build "vcheck-race$sfx" -race ;;
esac
if [ "${VERIF_ASAN:-0}" = 1 ]; then build "vcheck-asan$sfx" -asan; fi
